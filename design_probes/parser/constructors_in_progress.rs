// PROBE (hand-assembled): real parser.rs / hctl_tree.rs function bodies + contracts.
use vstd::prelude::*;
use std::cmp;

verus! {

// ---------- real data types (operator_enums.rs, tokenizer.rs, hctl_tree.rs), derives dropped ----------
pub enum UnaryOp { Not, EX, AX, EF, AF, EG, AG }
pub enum BinaryOp { And, Or, Xor, Imp, Iff, EU, AU, EW, AW }
pub enum HybridOp { Bind, Jump, Exists, Forall }
pub enum Atomic { Prop(String), Var(String), True, False, WildCardProp(String) }
pub enum HctlToken {
    Unary(UnaryOp),
    Binary(BinaryOp),
    Hybrid(HybridOp, String, Option<String>),
    Atom(Atomic),
    Tokens(Vec<HctlToken>),
}
pub enum NodeType {
    Terminal(Atomic),
    Unary(UnaryOp, Box<HctlTreeNode>),
    Binary(BinaryOp, Box<HctlTreeNode>, Box<HctlTreeNode>),
    Hybrid(HybridOp, String, Option<String>, Box<HctlTreeNode>),
}
pub struct HctlTreeNode {
    pub formula_str: String,
    pub height: u32,
    pub node_type: NodeType,
}

// derive(Clone, PartialEq) stand-ins (trusted: structural)
impl Clone for UnaryOp { #[verifier::external_body] fn clone(&self) -> (r: Self) ensures r == *self { unimplemented!() } }
impl Clone for BinaryOp { #[verifier::external_body] fn clone(&self) -> (r: Self) ensures r == *self { unimplemented!() } }
impl Clone for HybridOp { #[verifier::external_body] fn clone(&self) -> (r: Self) ensures r == *self { unimplemented!() } }
impl PartialEq for HctlToken { #[verifier::external_body] fn eq(&self, o: &Self) -> (r: bool) ensures r <==> *self == *o { unimplemented!() } }

// ---------- spec: abstract syntax, rendering ----------
pub enum SAtom { Prop(Seq<char>), Var(Seq<char>), True, False, Wild(Seq<char>) }
pub open spec fn view_atom(a: Atomic) -> SAtom {
    match a {
        Atomic::Prop(s) => SAtom::Prop(s@), Atomic::Var(s) => SAtom::Var(s@), Atomic::True => SAtom::True,
        Atomic::False => SAtom::False, Atomic::WildCardProp(s) => SAtom::Wild(s@),
    }
}
pub enum STree {
    Term(SAtom),
    Un(UnaryOp, Box<STree>),
    Bin(BinaryOp, Box<STree>, Box<STree>),
    Hyb(HybridOp, Seq<char>, Option<Seq<char>>, Box<STree>),
}
pub open spec fn view_tree(n: HctlTreeNode) -> STree decreases n {
    match n.node_type {
        NodeType::Terminal(a) => STree::Term(view_atom(a)),
        NodeType::Unary(op, c) => STree::Un(op, Box::new(view_tree(*c))),
        NodeType::Binary(op, l, r) => STree::Bin(op, Box::new(view_tree(*l)), Box::new(view_tree(*r))),
        NodeType::Hybrid(op, v, d, c) => STree::Hyb(op, v@, match d { Some(x) => Some(x@), None => None }, Box::new(view_tree(*c))),
    }
}
pub open spec fn s_height(t: STree) -> nat decreases t {
    match t {
        STree::Term(_) => 0,
        STree::Un(_, c) => s_height(*c) + 1,
        STree::Bin(_, l, r) => (if s_height(*l) >= s_height(*r) { s_height(*l) } else { s_height(*r) }) + 1,
        STree::Hyb(_, _, _, c) => s_height(*c) + 1,
    }
}
pub open spec fn disp_unary(op: UnaryOp) -> Seq<char> {
    match op { UnaryOp::Not => "~"@, UnaryOp::EX => "EX"@, UnaryOp::AX => "AX"@, UnaryOp::EF => "EF"@, UnaryOp::AF => "AF"@, UnaryOp::EG => "EG"@, UnaryOp::AG => "AG"@ }
}
pub open spec fn disp_binary(op: BinaryOp) -> Seq<char> {
    match op { BinaryOp::And => "&"@, BinaryOp::Or => "|"@, BinaryOp::Xor => "^"@, BinaryOp::Imp => "=>"@, BinaryOp::Iff => "<=>"@,
               BinaryOp::EU => "EU"@, BinaryOp::AU => "AU"@, BinaryOp::EW => "EW"@, BinaryOp::AW => "AW"@ }
}
pub open spec fn disp_hybrid(op: HybridOp) -> Seq<char> {
    match op { HybridOp::Bind => "!"@, HybridOp::Exists => "3"@, HybridOp::Forall => "V"@, HybridOp::Jump => "@"@ }
}
pub open spec fn disp_atom(a: SAtom) -> Seq<char> {
    match a { SAtom::Var(n) => "{"@ + n + "}"@, SAtom::Prop(n) => n, SAtom::True => "True"@, SAtom::False => "False"@, SAtom::Wild(n) => "%"@ + n + "%"@ }
}
pub open spec fn render(t: STree) -> Seq<char> decreases t {
    match t {
        STree::Term(a) => disp_atom(a),
        STree::Un(op, c) => if op is Not { "("@ + disp_unary(op) + render(*c) + ")"@ } else { "("@ + disp_unary(op) + " "@ + render(*c) + ")"@ },
        STree::Bin(op, l, r) => "("@ + render(*l) + " "@ + disp_binary(op) + " "@ + render(*r) + ")"@,
        STree::Hyb(op, v, d, c) => "("@ + disp_hybrid(op) + "{"@ + v + "}"@ + (match d { Some(x) => " in %"@ + x + "%"@, None => Seq::<char>::empty() }) + ": "@ + render(*c) + ")"@,
    }
}

pub open spec fn wf(n: HctlTreeNode) -> bool decreases n {
    &&& n.formula_str@ == render(view_tree(n))
    &&& n.height as nat == s_height(view_tree(n))
    &&& match n.node_type {
        NodeType::Terminal(_) => true,
        NodeType::Unary(_, c) => wf(*c),
        NodeType::Binary(_, l, r) => wf(*l) && wf(*r),
        NodeType::Hybrid(_, _, _, c) => wf(*c),
    }
}

// ---- R-fmt-val: generated from the format literals of hctl_tree.rs (trusted: format! = concatenation of Display outputs) ----
#[verifier::external_body] fn fmt_domain_string(domain: &String) -> (r: String)            // format!(" in %{}%", ..)
    ensures r@ == " in %"@ + domain@ + "%"@ { unimplemented!() }
#[verifier::external_body] fn fmt_hybrid(op: &HybridOp, var: &str, domain_string: &String, child: &HctlTreeNode) -> (r: String)   // format!("({op}{{{var}}}{domain_string}: {child})")
    ensures r@ == "("@ + disp_hybrid(*op) + "{"@ + var@ + "}"@ + domain_string@ + ": "@ + child.formula_str@ + ")"@ { unimplemented!() }
#[verifier::external_body] fn fmt_unary_not(op: &UnaryOp, child: &HctlTreeNode) -> (r: String)        // format!("({op}{child})")
    ensures r@ == "("@ + disp_unary(*op) + child.formula_str@ + ")"@ { unimplemented!() }
#[verifier::external_body] fn fmt_unary(op: &UnaryOp, child: &HctlTreeNode) -> (r: String)            // format!("({op} {child})")
    ensures r@ == "("@ + disp_unary(*op) + " "@ + child.formula_str@ + ")"@ { unimplemented!() }
#[verifier::external_body] fn fmt_binary(left: &HctlTreeNode, op: &BinaryOp, right: &HctlTreeNode) -> (r: String)   // format!("({left} {op} {right})")
    ensures r@ == "("@ + left.formula_str@ + " "@ + disp_binary(*op) + " "@ + right.formula_str@ + ")"@ { unimplemented!() }
#[verifier::external_body] fn atom_to_string(atom: &Atomic) -> (r: String)                            // atom.to_string()
    ensures r@ == disp_atom(view_atom(*atom)) { unimplemented!() }
pub assume_specification<T: std::cmp::Ord> [std::cmp::max] (a: T, b: T) -> (r: T)
    ensures r == (if vstd::std_specs::cmp::OrdSpec::cmp_spec(&a, &b) == std::cmp::Ordering::Greater { a } else { b });


impl HctlTreeNode {
    pub fn mk_hybrid(child: HctlTreeNode, var: &str, domain: Option<String>, op: HybridOp) -> (r: HctlTreeNode)
        requires wf(child), child.height < u32::MAX
        ensures wf(r), view_tree(r) == STree::Hyb(op, var@, match domain { Some(x) => Some(x@), None => None }, Box::new(view_tree(child)))
    {
        let domain_string = if domain.is_some() {
            fmt_domain_string(&domain.clone().unwrap())
        } else {
            String::new()
        };
        HctlTreeNode {
            formula_str: fmt_hybrid(&op, var, &domain_string, &child),
            height: child.height + 1,
            node_type: NodeType::Hybrid(op, var.to_string(), domain, Box::new(child)),
        }
    }
    pub fn mk_unary(child: HctlTreeNode, op: UnaryOp) -> (r: HctlTreeNode)
        requires wf(child), child.height < u32::MAX
        ensures wf(r), view_tree(r) == STree::Un(op, Box::new(view_tree(child)))
    {
        let subform_str = if matches!(op, UnaryOp::Not) {
            fmt_unary_not(&op, &child)
        } else {
            fmt_unary(&op, &child)
        };
        HctlTreeNode {
            formula_str: subform_str,
            height: child.height + 1,
            node_type: NodeType::Unary(op, Box::new(child)),
        }
    }
    pub fn mk_binary(left: HctlTreeNode, right: HctlTreeNode, op: BinaryOp) -> (r: HctlTreeNode)
        requires wf(left), wf(right), left.height < u32::MAX, right.height < u32::MAX
        ensures wf(r), view_tree(r) == STree::Bin(op, Box::new(view_tree(left)), Box::new(view_tree(right)))
    {
        HctlTreeNode {
            formula_str: fmt_binary(&left, &op, &right),
            height: cmp::max(left.height, right.height) + 1,
            node_type: NodeType::Binary(op, Box::new(left), Box::new(right)),
        }
    }
    pub fn mk_constant(constant_val: bool) -> (r: HctlTreeNode)
        ensures wf(r), view_tree(r) == STree::Term(if constant_val { SAtom::True } else { SAtom::False })
    {
        Self::mk_atom(Atomic::from(constant_val))
    }
    pub fn mk_variable(var_name: &str) -> (r: HctlTreeNode)
        ensures wf(r), view_tree(r) == STree::Term(SAtom::Var(var_name@))
    {
        Self::mk_atom(Atomic::Var(var_name.to_string()))
    }
    pub fn mk_proposition(prop_name: &str) -> (r: HctlTreeNode)
        ensures wf(r), view_tree(r) == STree::Term(SAtom::Prop(prop_name@))
    {
        Self::mk_atom(Atomic::Prop(prop_name.to_string()))
    }
    pub fn mk_wild_card(prop_name: &str) -> (r: HctlTreeNode)
        ensures wf(r), view_tree(r) == STree::Term(SAtom::Wild(prop_name@))
    {
        Self::mk_atom(Atomic::WildCardProp(prop_name.to_string()))
    }
    fn mk_atom(atom: Atomic) -> (r: HctlTreeNode)
        ensures wf(r), view_tree(r) == STree::Term(view_atom(atom))
    {
        HctlTreeNode {
            formula_str: atom_to_string(&atom),
            height: 0,
            node_type: NodeType::Terminal(atom),
        }
    }
}
impl From<bool> for Atomic {
    fn from(value: bool) -> (r: Self) ensures r == (if value { Atomic::True } else { Atomic::False }) {
        if value { Atomic::True } else { Atomic::False }
    }
}
// ---------- spec: the documented grammar (S-GRAMMAR) ----------

pub open spec fn is_hybrid_tok(t: HctlToken) -> bool { t is Hybrid }
pub open spec fn is_unary_tok(t: HctlToken) -> bool { t is Unary }
pub open spec fn is_bin_temp_tok(t: HctlToken) -> bool {
    t matches HctlToken::Binary(op) && (op is EU || op is AU || op is EW || op is AW)
}
// token classes: -1 hybrid; boolean levels weakest first: 0 <=>, 1 =>, 2 |, 3 ^, 4 & ; 5 temporal binary ; 6 unary
pub open spec fn level_op(level: int) -> BinaryOp {
    if level == 0 { BinaryOp::Iff } else if level == 1 { BinaryOp::Imp } else if level == 2 { BinaryOp::Or } else if level == 3 { BinaryOp::Xor } else { BinaryOp::And }
}
pub open spec fn in_class(t: HctlToken, k: int) -> bool {
    if k == -1 { is_hybrid_tok(t) } else if k == 6 { is_unary_tok(t) } else if k == 5 { is_bin_temp_tok(t) } else { t == HctlToken::Binary(level_op(k)) }
}
pub open spec fn first_at(ts: Seq<HctlToken>, k: int, i: int) -> bool {
    0 <= i < ts.len() && in_class(ts[i], k) && forall|j: int| 0 <= j < i ==> !in_class(#[trigger] ts[j], k)
}
pub open spec fn none_at(ts: Seq<HctlToken>, k: int) -> bool {
    forall|j: int| 0 <= j < ts.len() ==> !in_class(#[trigger] ts[j], k)
}
pub open spec fn first_idx(ts: Seq<HctlToken>, k: int) -> Option<int> {
    if exists|i: int| first_at(ts, k, i) { Some(choose|i: int| first_at(ts, k, i)) } else { None }
}
pub proof fn lemma_first_some(ts: Seq<HctlToken>, k: int, i: int)
    requires first_at(ts, k, i)
    ensures first_idx(ts, k) == Some(i)
{
    let c = choose|c: int| first_at(ts, k, c);
    assert(first_at(ts, k, c));
    if c < i { assert(!in_class(ts[c], k)); }
    if i < c { assert(!in_class(ts[i], k)); }
}
pub proof fn lemma_first_none(ts: Seq<HctlToken>, k: int)
    requires none_at(ts, k)
    ensures first_idx(ts, k) is None
{
    if exists|i: int| first_at(ts, k, i) {
        let c = choose|c: int| first_at(ts, k, c);
        assert(!in_class(ts[c], k));
    }
}
pub proof fn lemma_first(ts: Seq<HctlToken>, k: int, r: Option<usize>)
    requires match r { Some(i) => first_at(ts, k, i as int), None => none_at(ts, k) }
    ensures match r { Some(i) => first_idx(ts, k) == Some(i as int), None => first_idx(ts, k) is None }
{
    match r { Some(i) => lemma_first_some(ts, k, i as int), None => lemma_first_none(ts, k) }
}

pub open spec fn sp_atom(a: Atomic) -> STree {
    match a {
        Atomic::Prop(name) =>
            if name@ == "true"@ || name@ == "True"@ || name@ == "1"@ { STree::Term(SAtom::True) }
            else if name@ == "false"@ || name@ == "False"@ || name@ == "0"@ { STree::Term(SAtom::False) }
            else { STree::Term(SAtom::Prop(name@)) },
        other => STree::Term(view_atom(other)),
    }
}

pub open spec fn sp_formula(ts: Seq<HctlToken>) -> Option<STree> decreases ts, 10int {
    match first_idx(ts, -1) {
        Some(i) => if i != 0 { None } else {
            match ts[0] {
                HctlToken::Hybrid(op, var, dom) => match sp_formula(ts.subrange(1, ts.len() as int)) {
                    Some(c) => Some(STree::Hyb(op, var@, match dom { Some(x) => Some(x@), None => None }, Box::new(c))),
                    None => None,
                },
                _ => None,
            }
        },
        None => sp_level(ts, 0),
    }
}
pub open spec fn sp_level(ts: Seq<HctlToken>, level: int) -> Option<STree> decreases ts, 9 - level {
    if level < 0 || level > 6 { None }
    else if level == 6 { sp_unary(ts) }
    else {
        match first_idx(ts, level) {
            Some(i) => if !(0 <= i < ts.len()) { None } else {
                match (sp_level(ts.subrange(0, i), level + 1), sp_level(ts.subrange(i + 1, ts.len() as int), level), ts[i]) {
                    (Some(l), Some(r), HctlToken::Binary(op)) => Some(STree::Bin(op, Box::new(l), Box::new(r))),
                    _ => None,
                }
            },
            None => sp_level(ts, level + 1),
        }
    }
}
pub open spec fn sp_unary(ts: Seq<HctlToken>) -> Option<STree> decreases ts, 2int {
    match first_idx(ts, 6) {
        Some(i) => if i != 0 { None } else {
            match ts[0] {
                HctlToken::Unary(op) => match sp_unary(ts.subrange(1, ts.len() as int)) {
                    Some(c) => Some(STree::Un(op, Box::new(c))),
                    None => None,
                },
                _ => None,
            }
        },
        None => sp_term(ts),
    }
}
pub open spec fn sp_term(ts: Seq<HctlToken>) -> Option<STree> decreases ts, 1int {
    if ts.len() != 1 { None } else {
        match ts[0] {
            HctlToken::Atom(Atomic::True) => None,   // constants are lexed as propositions; constant *tokens* are not part of the token language
            HctlToken::Atom(Atomic::False) => None,
            HctlToken::Atom(a) => Some(sp_atom(a)),
            HctlToken::Tokens(inner) => sp_formula(inner@),
            _ => None,
        }
    }
}

pub open spec fn agrees(r: Result<HctlTreeNode, String>, s: Option<STree>) -> bool {
    match r {
        Ok(t) => wf(t) && s == Some(view_tree(t)),
        Err(_) => s is None,
    }
}

#[verifier::external_body]
fn verif_msg() -> String { String::new() }

// ---------- extracted from src/preprocessing/parser.rs ----------
#[verifier::external_body]
fn index_of_first(tokens: &[HctlToken], token: HctlToken) -> (r: Option<usize>)
    ensures match r { Some(i) => i < tokens@.len() && i < usize::MAX && tokens@[i as int] == token && (forall|j: int| 0 <= j < i ==> #[trigger] tokens@[j] != token), None => forall|j: int| 0 <= j < tokens@.len() ==> #[trigger] tokens@[j] != token }
{
    tokens.iter().position(|t| *t == token)
}

#[verifier::external_body]
fn index_of_first_hybrid(tokens: &[HctlToken]) -> (r: Option<usize>)
    ensures match r { Some(i) => first_at(tokens@, -1, i as int), None => none_at(tokens@, -1) }
{
    tokens.iter().position(is_hybrid)
}

#[verifier::external_body]
fn index_of_first_binary_temp(tokens: &[HctlToken]) -> (r: Option<usize>)
    ensures match r { Some(i) => first_at(tokens@, 5, i as int), None => none_at(tokens@, 5) }
{
    tokens.iter().position(is_binary_temporal)
}

#[verifier::external_body]
fn index_of_first_unary(tokens: &[HctlToken]) -> (r: Option<usize>)
    ensures match r { Some(i) => first_at(tokens@, 6, i as int), None => none_at(tokens@, 6) }
{
    tokens.iter().position(is_unary)
}

fn is_hybrid(token: &HctlToken) -> (r: bool)
    ensures r == is_hybrid_tok(*token)
{
    matches!(token, HctlToken::Hybrid(..))
}

fn is_binary_temporal(token: &HctlToken) -> (r: bool)
    ensures r == is_bin_temp_tok(*token)
{
    matches!(
        token,
        HctlToken::Binary(BinaryOp::EU)
            | HctlToken::Binary(BinaryOp::AU)
            | HctlToken::Binary(BinaryOp::EW)
            | HctlToken::Binary(BinaryOp::AW)
    )
}

fn is_unary(token: &HctlToken) -> (r: bool)
    ensures r == is_unary_tok(*token)
{
    matches!(token, HctlToken::Unary(_))
}

pub fn parse_hctl_tokens(tokens: &[HctlToken]) -> (r: Result<HctlTreeNode, String>)
    ensures agrees(r, sp_formula(tokens@)) decreases tokens@, 11int
{
    parse_1_hybrid(tokens)
}

fn parse_1_hybrid(tokens: &[HctlToken]) -> (r: Result<HctlTreeNode, String>)
    ensures agrees(r, sp_formula(tokens@)) decreases tokens@, 10int
{
    let hybrid_token = index_of_first_hybrid(tokens);
    proof { lemma_first(tokens@, -1int, hybrid_token); }
    Ok(if let Some(i) = hybrid_token {
        // perform check that hybrid operator is not preceded by other type of operators
        if i > 0 && !matches!(&tokens[i - 1], HctlToken::Hybrid(..)) {
            return Err(verif_msg());
        }
        match &tokens[i] {
            HctlToken::Hybrid(op, var, domain) => HctlTreeNode::mk_hybrid(
                parse_1_hybrid(&tokens[(i + 1)..])?,
                var.as_str(),
                domain.clone(),
                op.clone(),
            ),
            _ => unreachable!(), // we already made sure that this is indeed a hybrid token
        }
    } else {
        parse_2_iff(tokens)?
    })
}

fn parse_2_iff(tokens: &[HctlToken]) -> (r: Result<HctlTreeNode, String>)
    ensures agrees(r, sp_level(tokens@, 0)) decreases tokens@, 9int
{
    let iff_token = index_of_first(tokens, HctlToken::Binary(BinaryOp::Iff));
    proof { lemma_first(tokens@, 0int, iff_token); }
    Ok(if let Some(i) = iff_token {
        HctlTreeNode::mk_binary(
            parse_3_imp(&tokens[..i])?,
            parse_2_iff(&tokens[(i + 1)..])?,
            BinaryOp::Iff,
        )
    } else {
        parse_3_imp(tokens)?
    })
}

fn parse_3_imp(tokens: &[HctlToken]) -> (r: Result<HctlTreeNode, String>)
    ensures agrees(r, sp_level(tokens@, 1)) decreases tokens@, 8int
{
    let imp_token = index_of_first(tokens, HctlToken::Binary(BinaryOp::Imp));
    proof { lemma_first(tokens@, 1int, imp_token); }
    Ok(if let Some(i) = imp_token {
        HctlTreeNode::mk_binary(
            parse_4_or(&tokens[..i])?,
            parse_3_imp(&tokens[(i + 1)..])?,
            BinaryOp::Imp,
        )
    } else {
        parse_4_or(tokens)?
    })
}

fn parse_4_or(tokens: &[HctlToken]) -> (r: Result<HctlTreeNode, String>)
    ensures agrees(r, sp_level(tokens@, 2)) decreases tokens@, 7int
{
    let or_token = index_of_first(tokens, HctlToken::Binary(BinaryOp::Or));
    proof { lemma_first(tokens@, 2int, or_token); }
    Ok(if let Some(i) = or_token {
        HctlTreeNode::mk_binary(
            parse_5_xor(&tokens[..i])?,
            parse_4_or(&tokens[(i + 1)..])?,
            BinaryOp::Or,
        )
    } else {
        parse_5_xor(tokens)?
    })
}

fn parse_5_xor(tokens: &[HctlToken]) -> (r: Result<HctlTreeNode, String>)
    ensures agrees(r, sp_level(tokens@, 3)) decreases tokens@, 6int
{
    let xor_token = index_of_first(tokens, HctlToken::Binary(BinaryOp::Xor));
    proof { lemma_first(tokens@, 3int, xor_token); }
    Ok(if let Some(i) = xor_token {
        HctlTreeNode::mk_binary(
            parse_6_and(&tokens[..i])?,
            parse_5_xor(&tokens[(i + 1)..])?,
            BinaryOp::Xor,
        )
    } else {
        parse_6_and(tokens)?
    })
}

fn parse_6_and(tokens: &[HctlToken]) -> (r: Result<HctlTreeNode, String>)
    ensures agrees(r, sp_level(tokens@, 4)) decreases tokens@, 5int
{
    let and_token = index_of_first(tokens, HctlToken::Binary(BinaryOp::And));
    proof { lemma_first(tokens@, 4int, and_token); }
    Ok(if let Some(i) = and_token {
        HctlTreeNode::mk_binary(
            parse_7_binary_temp(&tokens[..i])?,
            parse_6_and(&tokens[(i + 1)..])?,
            BinaryOp::And,
        )
    } else {
        parse_7_binary_temp(tokens)?
    })
}

fn parse_7_binary_temp(tokens: &[HctlToken]) -> (r: Result<HctlTreeNode, String>)
    ensures agrees(r, sp_level(tokens@, 5)) decreases tokens@, 4int
{
    let binary_token = index_of_first_binary_temp(tokens);
    proof { lemma_first(tokens@, 5int, binary_token); reveal_with_fuel(sp_level, 3); }
    Ok(if let Some(i) = binary_token {
        match &tokens[i] {
            HctlToken::Binary(op) => HctlTreeNode::mk_binary(
                parse_8_unary(&tokens[..i])?,
                parse_7_binary_temp(&tokens[(i + 1)..])?,
                op.clone(),
            ),
            _ => unreachable!(), // we already made sure that this is indeed a binary token
        }
    } else {
        parse_8_unary(tokens)?
    })
}

fn parse_8_unary(tokens: &[HctlToken]) -> (r: Result<HctlTreeNode, String>)
    ensures agrees(r, sp_unary(tokens@)) decreases tokens@, 2int
{
    let unary_token = index_of_first_unary(tokens);
    proof { lemma_first(tokens@, 6int, unary_token); }
    Ok(if let Some(i) = unary_token {
        // perform check that unary operator is not directly preceded by some atomic sub-formula
        if i > 0 {
            return Err(verif_msg());
        }

        match &tokens[i] {
            HctlToken::Unary(op) => {
                HctlTreeNode::mk_unary(parse_8_unary(&tokens[(i + 1)..])?, op.clone())
            }
            _ => unreachable!(), // we already made sure that this is indeed an unary token
        }
    } else {
        parse_9_terminal_and_parentheses(tokens)?
    })
}

fn parse_9_terminal_and_parentheses(tokens: &[HctlToken]) -> (r: Result<HctlTreeNode, String>)
    ensures agrees(r, sp_term(tokens@)) decreases tokens@, 1int
{
    if tokens.is_empty() {
        Err("Expected formula, found nothing.".to_string())
    } else {
        if tokens.len() == 1 {
            // This should be name (var/prop/wild-card prop) or a parenthesis group, anything
            // else does not make sense (constants are tokenized as propositions until now).
            match &tokens[0] {
                HctlToken::Atom(Atomic::Prop(name)) => {
                    return if name.as_str() == "true" || name.as_str() == "True" || name.as_str() == "1" {
                        Ok(HctlTreeNode::mk_constant(true))
                    } else if name.as_str() == "false" || name.as_str() == "False" || name.as_str() == "0" {
                        Ok(HctlTreeNode::mk_constant(false))
                    } else {
                        Ok(HctlTreeNode::mk_proposition(name.as_str()))
                    };
                }
                HctlToken::Atom(Atomic::Var(name)) => {
                    return Ok(HctlTreeNode::mk_variable(name.as_str()));
                }
                HctlToken::Atom(Atomic::WildCardProp(name)) => {
                    return Ok(HctlTreeNode::mk_wild_card(name.as_str()));
                }
                // recursively solve sub-formulae in parentheses
                HctlToken::Tokens(inner) => return parse_hctl_tokens(inner),
                _ => {} // otherwise, fall through to the error at the end.
            }
        }
        Err(verif_msg())
    }
}

fn main() {}
} // verus!
