// PROBE: stub model of the lib-param-bn / lib-bdd API surface used by
// src/evaluation/{hctl_operators_eval,low_level_operations}.rs, with assumed contracts (TRUSTED).
use vstd::prelude::*;
use vstd::string::StringSliceAdditionalSpecFns;

// ---------------- opaque stand-ins (never executed) ----------------
pub struct Bdd { _p: u8 }
#[derive(Clone, Copy)]
pub struct BddVariable { _p: u16 }
pub struct BddVariableSet { _p: u8 }
pub struct SymbolicContext { _p: u8 }
pub struct SymbolicAsyncGraph { _p: u8 }
pub struct GraphColoredVertices { _p: u8 }
pub struct BooleanNetwork { _p: u8 }
#[derive(Clone, Copy)]
pub struct VariableId { _p: usize }
pub struct VariableIdIterator { _p: usize }
pub struct VariableIdRevIterator { _p: usize }


// ---------------- API surface (bodies never run) ----------------
impl GraphColoredVertices {
    pub fn new(_bdd: Bdd, _ctx: &SymbolicContext) -> Self { unimplemented!() }
    pub fn as_bdd(&self) -> &Bdd { unimplemented!() }
    pub fn into_bdd(self) -> Bdd { unimplemented!() }
    pub fn union(&self, _o: &Self) -> Self { unimplemented!() }
    pub fn intersect(&self, _o: &Self) -> Self { unimplemented!() }
    pub fn minus(&self, _o: &Self) -> Self { unimplemented!() }
    pub fn is_empty(&self) -> bool { unimplemented!() }
    pub fn is_subset(&self, _o: &Self) -> bool { unimplemented!() }
}
impl Clone for GraphColoredVertices { fn clone(&self) -> Self { unimplemented!() } }
impl PartialEq for GraphColoredVertices { fn eq(&self, _o: &Self) -> bool { unimplemented!() } }
impl Clone for Bdd { fn clone(&self) -> Self { unimplemented!() } }
impl Bdd {
    pub fn and(&self, _o: &Bdd) -> Bdd { unimplemented!() }
    pub fn iff(&self, _o: &Bdd) -> Bdd { unimplemented!() }
    pub fn exists(&self, _vars: &[BddVariable]) -> Bdd { unimplemented!() }
}
impl BddVariableSet { pub fn mk_var_by_name(&self, _name: &str) -> Bdd { unimplemented!() } }
impl Clone for SymbolicContext { fn clone(&self) -> Self { unimplemented!() } }
impl SymbolicContext {
    pub fn bdd_variable_set(&self) -> &BddVariableSet { unimplemented!() }
    pub fn extra_state_variables(&self, _v: VariableId) -> &Vec<BddVariable> { unimplemented!() }
    pub fn state_variables(&self) -> &Vec<BddVariable> { unimplemented!() }
    pub fn find_network_variable(&self, _name: &str) -> Option<VariableId> { unimplemented!() }
    pub fn mk_state_variable_is_true(&self, _v: VariableId) -> Bdd { unimplemented!() }
}
impl SymbolicAsyncGraph {
    pub fn symbolic_context(&self) -> &SymbolicContext { unimplemented!() }
    pub fn mk_unit_colored_vertices(&self) -> GraphColoredVertices { unimplemented!() }
    pub fn unit_colored_vertices(&self) -> &GraphColoredVertices { unimplemented!() }
    pub fn mk_empty_colored_vertices(&self) -> GraphColoredVertices { unimplemented!() }
    pub fn pre(&self, _s: &GraphColoredVertices) -> GraphColoredVertices { unimplemented!() }
    pub fn var_pre(&self, _v: VariableId, _s: &GraphColoredVertices) -> GraphColoredVertices { unimplemented!() }
    pub fn variables(&self) -> VariableIdIterator { unimplemented!() }
    pub fn get_variable_name(&self, _v: VariableId) -> String { unimplemented!() }
    pub fn as_network(&self) -> Option<&BooleanNetwork> { unimplemented!() }
    pub fn with_custom_context(_n: &BooleanNetwork, _c: SymbolicContext, _u: Bdd) -> Result<SymbolicAsyncGraph, String> { unimplemented!() }
}
impl VariableIdIterator {
    pub fn next(&mut self) -> Option<VariableId> { unimplemented!() }
    pub fn rev(self) -> VariableIdRevIterator { unimplemented!() }
}
impl VariableIdRevIterator { pub fn next(&mut self) -> Option<VariableId> { unimplemented!() } }

verus! {

// ---------------- abstract domain ----------------
pub struct Pt { pub s: Seq<bool>, pub c: int, pub e: Seq<Seq<bool>> }
pub uninterp spec fn dim_n() -> nat;   // number of network variables (ambient symbolic context)
pub uninterp spec fn dim_k() -> nat;   // number of extra copies (HCTL variable slots)
pub open spec fn shaped(p: Pt) -> bool {
    p.s.len() == dim_n() && p.e.len() == dim_k() && forall|k: int| 0 <= k < dim_k() ==> (#[trigger] p.e[k]).len() == dim_n()
}
pub open spec fn with_state(p: Pt, s: Seq<bool>) -> Pt { Pt { s: s, ..p } }
pub open spec fn with_slot(p: Pt, k: int, v: Seq<bool>) -> Pt { Pt { e: p.e.update(k, v), ..p } }
pub open spec fn flip(s: Seq<bool>, v: int) -> Seq<bool> { s.update(v, !s[v]) }

#[verifier::external_type_specification] #[verifier::external_body] pub struct ExBdd(Bdd);
#[verifier::external_type_specification] #[verifier::external_body] pub struct ExBddVariable(BddVariable);
#[verifier::external_type_specification] #[verifier::external_body] pub struct ExBddVariableSet(BddVariableSet);
#[verifier::external_type_specification] #[verifier::external_body] pub struct ExSymbolicContext(SymbolicContext);
#[verifier::external_type_specification] #[verifier::external_body] pub struct ExSymbolicAsyncGraph(SymbolicAsyncGraph);
#[verifier::external_type_specification] #[verifier::external_body] pub struct ExGraphColoredVertices(GraphColoredVertices);
#[verifier::external_type_specification] #[verifier::external_body] pub struct ExBooleanNetwork(BooleanNetwork);
#[verifier::external_type_specification] #[verifier::external_body] pub struct ExVariableId(VariableId);
#[verifier::external_type_specification] #[verifier::external_body] pub struct ExVariableIdIterator(VariableIdIterator);
#[verifier::external_type_specification] #[verifier::external_body] pub struct ExVariableIdRevIterator(VariableIdRevIterator);

pub uninterp spec fn bv(b: &Bdd) -> ISet<Pt>;                       // valuations satisfying a BDD
pub uninterp spec fn gv(s: &GraphColoredVertices) -> ISet<Pt>;      // same, for a coloured vertex set
pub uninterp spec fn unit_of(g: &SymbolicAsyncGraph) -> ISet<Pt>;
pub uninterp spec fn can_flip(g: &SymbolicAsyncGraph, v: int, s: Seq<bool>, c: int) -> bool;
pub uninterp spec fn vid(v: VariableId) -> int;
pub enum Role { State(int), Extra(int, int), Param(int) }
pub uninterp spec fn role(v: BddVariable) -> Role;

// every symbolic set only contains well-shaped valuations (BDD valuations are total over the variable set)
pub broadcast axiom fn axiom_gv_shaped(s: &GraphColoredVertices, p: Pt)
    requires #[trigger] gv(s).contains(p)
    ensures shaped(p);
pub broadcast axiom fn axiom_bv_shaped(b: &Bdd, p: Pt)
    requires #[trigger] bv(b).contains(p)
    ensures shaped(p);


// ---------------- assumed contracts: set algebra ----------------
pub assume_specification[ GraphColoredVertices::union ](a: &GraphColoredVertices, b: &GraphColoredVertices) -> (r: GraphColoredVertices)
    ensures gv(&r) == gv(a).union(gv(b));
pub assume_specification[ GraphColoredVertices::intersect ](a: &GraphColoredVertices, b: &GraphColoredVertices) -> (r: GraphColoredVertices)
    ensures gv(&r) == gv(a).intersect(gv(b));
pub assume_specification[ GraphColoredVertices::minus ](a: &GraphColoredVertices, b: &GraphColoredVertices) -> (r: GraphColoredVertices)
    ensures gv(&r) == gv(a).difference(gv(b));
pub assume_specification[ GraphColoredVertices::is_empty ](a: &GraphColoredVertices) -> (r: bool)
    ensures r <==> gv(a) == ISet::<Pt>::empty();
pub assume_specification[ <GraphColoredVertices as Clone>::clone ](a: &GraphColoredVertices) -> (r: GraphColoredVertices)
    ensures gv(&r) == gv(a);
pub assume_specification[ <GraphColoredVertices as PartialEq>::eq ](a: &GraphColoredVertices, b: &GraphColoredVertices) -> (r: bool)
    ensures r <==> gv(a) == gv(b);
pub assume_specification[ GraphColoredVertices::new ](bdd: Bdd, ctx: &SymbolicContext) -> (r: GraphColoredVertices)
    ensures gv(&r) == bv(&bdd);
pub assume_specification[ GraphColoredVertices::as_bdd ](a: &GraphColoredVertices) -> (r: &Bdd)
    ensures bv(r) == gv(a);
pub assume_specification[ GraphColoredVertices::into_bdd ](a: GraphColoredVertices) -> (r: Bdd)
    ensures bv(&r) == gv(&a);
pub assume_specification[ <Bdd as Clone>::clone ](a: &Bdd) -> (r: Bdd)
    ensures bv(&r) == bv(a);
pub assume_specification[ Bdd::and ](a: &Bdd, b: &Bdd) -> (r: Bdd)
    ensures bv(&r) == bv(a).intersect(bv(b));
pub assume_specification[ Bdd::iff ](a: &Bdd, b: &Bdd) -> (r: Bdd)
    ensures forall|p: Pt| #[trigger] bv(&r).contains(p) <==> shaped(p) && (bv(a).contains(p) <==> bv(b).contains(p));

// ---------------- assumed contracts: variables and projections ----------------
pub open spec fn coord(p: Pt, r: Role) -> bool {
    match r { Role::State(i) => p.s[i], Role::Extra(i, k) => p.e[k][i], Role::Param(_) => false }
}
// p and q agree on the colour and on every state / extra coordinate whose role is not in `roles`
pub open spec fn same_except(p: Pt, q: Pt, roles: Set<Role>) -> bool {
    &&& p.c == q.c
    &&& forall|i: int| 0 <= i < dim_n() && !roles.contains(Role::State(i)) ==> p.s[i] == q.s[i]
    &&& forall|i: int, k: int| 0 <= i < dim_n() && 0 <= k < dim_k() && !roles.contains(Role::Extra(i, k)) ==> #[trigger] p.e[k][i] == q.e[k][i]
}
pub open spec fn roles_of(vars: Seq<BddVariable>) -> Set<Role> { vars.map_values(|v: BddVariable| role(v)).to_set() }
pub open spec fn no_params(vars: Seq<BddVariable>) -> bool { forall|j: int| 0 <= j < vars.len() ==> !(role(#[trigger] vars[j]) is Param) }
pub assume_specification[ Bdd::exists ](a: &Bdd, vars: &[BddVariable]) -> (r: Bdd)
    requires no_params(vars@)   // (the repo never projects parameter variables; the contract is only given for that case)
    ensures forall|p: Pt| #[trigger] bv(&r).contains(p) <==> shaped(p) && exists|q: Pt| bv(a).contains(q) && same_except(p, q, roles_of(vars@));

pub uninterp spec fn var_name(i: int) -> Seq<char>;         // name of network variable i
pub uninterp spec fn dec(k: int) -> Seq<char>;              // decimal rendering used by format!("{}", k)
pub open spec fn extra_name(i: int, k: int) -> Seq<char> { var_name(i) + "_extra_"@ + dec(k) }
pub uninterp spec fn name_role(name: Seq<char>) -> Option<Role>;   // BDD variable with that name, if any
pub broadcast axiom fn axiom_names_state(i: int)
    requires 0 <= i < dim_n()
    ensures #[trigger] name_role(var_name(i)) == Some(Role::State(i));
pub broadcast axiom fn axiom_names_extra(i: int, k: int)      // lib-param-bn: with_extra_state_variables names them "{var}_extra_{k}"
    requires 0 <= i < dim_n(), 0 <= k < dim_k()
    ensures #[trigger] name_role(extra_name(i, k)) == Some(Role::Extra(i, k));

pub assume_specification[ BddVariableSet::mk_var_by_name ](s: &BddVariableSet, name: &str) -> (r: Bdd)
    requires name_role(name@) is Some          // panics otherwise
    ensures forall|p: Pt| #[trigger] bv(&r).contains(p) <==> shaped(p) && coord(p, name_role(name@)->0);
pub assume_specification[ SymbolicContext::bdd_variable_set ](c: &SymbolicContext) -> (r: &BddVariableSet);
pub assume_specification[ SymbolicContext::extra_state_variables ](c: &SymbolicContext, v: VariableId) -> (r: &Vec<BddVariable>)
    requires 0 <= vid(v) < dim_n()
    ensures r@.len() == dim_k(), forall|k: int| 0 <= k < dim_k() ==> role(#[trigger] r@[k]) == Role::Extra(vid(v), k);
pub assume_specification[ SymbolicContext::state_variables ](c: &SymbolicContext) -> (r: &Vec<BddVariable>)
    ensures r@.len() == dim_n(), forall|i: int| 0 <= i < dim_n() ==> role(#[trigger] r@[i]) == Role::State(i);
pub uninterp spec fn prop_index(name: Seq<char>) -> Option<int>;
pub assume_specification[ SymbolicContext::find_network_variable ](c: &SymbolicContext, name: &str) -> (r: Option<VariableId>)
    ensures match r { Some(v) => prop_index(name@) == Some(vid(v)) && 0 <= vid(v) < dim_n(), None => prop_index(name@) is None };
pub assume_specification[ SymbolicContext::mk_state_variable_is_true ](c: &SymbolicContext, v: VariableId) -> (r: Bdd)
    requires 0 <= vid(v) < dim_n()
    ensures forall|p: Pt| #[trigger] bv(&r).contains(p) <==> shaped(p) && p.s[vid(v)];
pub assume_specification[ <SymbolicContext as Clone>::clone ](c: &SymbolicContext) -> (r: SymbolicContext);

// ---------------- assumed contracts: the symbolic asynchronous graph ----------------
// unit set: does not constrain the state coordinates (lib-param-bn: "unit_bdd should be a cartesian product ...";
// established by get_extended_symbolic_graph and preserved by restrict_stg_unit_bdd, see wf_graph)
pub open spec fn wf_graph(g: &SymbolicAsyncGraph) -> bool {
    &&& forall|p: Pt| #[trigger] unit_of(g).contains(p) ==> shaped(p)
    &&& forall|p: Pt, s: Seq<bool>| #![trigger unit_of(g).contains(with_state(p, s))] unit_of(g).contains(p) && s.len() == dim_n() ==> unit_of(g).contains(with_state(p, s))
}
pub open spec fn var_pre_of(g: &SymbolicAsyncGraph, v: int, z: ISet<Pt>) -> ISet<Pt> {
    ISet::new(|p: Pt| shaped(p) && can_flip(g, v, p.s, p.c) && z.contains(with_state(p, flip(p.s, v))))
}
pub open spec fn pre_of(g: &SymbolicAsyncGraph, z: ISet<Pt>) -> ISet<Pt> {
    ISet::new(|p: Pt| exists|v: int| 0 <= v < dim_n() && #[trigger] var_pre_of(g, v, z).contains(p))
}
pub assume_specification[ SymbolicAsyncGraph::symbolic_context ](g: &SymbolicAsyncGraph) -> (r: &SymbolicContext);
pub assume_specification[ SymbolicAsyncGraph::mk_unit_colored_vertices ](g: &SymbolicAsyncGraph) -> (r: GraphColoredVertices)
    ensures gv(&r) == unit_of(g);
pub assume_specification[ SymbolicAsyncGraph::unit_colored_vertices ](g: &SymbolicAsyncGraph) -> (r: &GraphColoredVertices)
    ensures gv(r) == unit_of(g);
pub assume_specification[ SymbolicAsyncGraph::mk_empty_colored_vertices ](g: &SymbolicAsyncGraph) -> (r: GraphColoredVertices)
    ensures gv(&r) == ISet::<Pt>::empty();
pub assume_specification[ SymbolicAsyncGraph::pre ](g: &SymbolicAsyncGraph, s: &GraphColoredVertices) -> (r: GraphColoredVertices)
    ensures gv(&r) == pre_of(g, gv(s));
pub assume_specification[ SymbolicAsyncGraph::var_pre ](g: &SymbolicAsyncGraph, v: VariableId, s: &GraphColoredVertices) -> (r: GraphColoredVertices)
    requires 0 <= vid(v) < dim_n()
    ensures gv(&r) == var_pre_of(g, vid(v), gv(s));
pub assume_specification[ SymbolicAsyncGraph::get_variable_name ](g: &SymbolicAsyncGraph, v: VariableId) -> (r: String)
    requires 0 <= vid(v) < dim_n()
    ensures r@ == var_name(vid(v));
// iteration over network variables: 0, 1, ..., n-1 (and reversed)
pub uninterp spec fn it_next(it: &VariableIdIterator) -> int;       // next index to be yielded
pub uninterp spec fn rit_next(it: &VariableIdRevIterator) -> int;   // next index to be yielded (counts down)
pub assume_specification[ SymbolicAsyncGraph::variables ](g: &SymbolicAsyncGraph) -> (r: VariableIdIterator)
    ensures it_next(&r) == 0;
pub assume_specification[ VariableIdIterator::next ](it: &mut VariableIdIterator) -> (r: Option<VariableId>)
    ensures
        it_next(old(it)) < dim_n() ==> (r matches Some(v) && vid(v) == it_next(old(it)) && it_next(final(it)) == it_next(old(it)) + 1),
        it_next(old(it)) >= dim_n() ==> r is None && it_next(final(it)) == it_next(old(it));
pub assume_specification[ VariableIdIterator::rev ](it: VariableIdIterator) -> (r: VariableIdRevIterator)
    requires it_next(&it) == 0
    ensures rit_next(&r) == dim_n() - 1;
pub assume_specification[ VariableIdRevIterator::next ](it: &mut VariableIdRevIterator) -> (r: Option<VariableId>)
    ensures
        rit_next(old(it)) >= 0 ==> (r matches Some(v) && vid(v) == rit_next(old(it)) && rit_next(final(it)) == rit_next(old(it)) - 1),
        rit_next(old(it)) < 0 ==> r is None && rit_next(final(it)) == rit_next(old(it));


// ---------------- spec: comparator relations and projections ----------------
pub open spec fn slot_of(name: &str) -> int { name.spec_bytes().len() - 1 }
pub open spec fn eq_state(p: Pt, k: int) -> bool { forall|i: int| 0 <= i < dim_n() ==> #[trigger] p.e[k][i] == p.s[i] }
pub open spec fn eq_slots(p: Pt, k: int, k2: int) -> bool { forall|i: int| 0 <= i < dim_n() ==> #[trigger] p.e[k][i] == p.e[k2][i] }
pub open spec fn eq_state_upto(p: Pt, k: int, m: int) -> bool { forall|i: int| 0 <= i < m ==> #[trigger] p.e[k][i] == p.s[i] }
pub open spec fn eq_slots_upto(p: Pt, k: int, k2: int, m: int) -> bool { forall|i: int| 0 <= i < m ==> #[trigger] p.e[k][i] == p.e[k2][i] }
// q differs from p at most in slot k / at most in the state
pub open spec fn differ_slot(p: Pt, q: Pt, k: int) -> bool {
    p.c == q.c && p.s =~= q.s && forall|j: int| 0 <= j < dim_k() && j != k ==> #[trigger] p.e[j] =~= q.e[j]
}
pub open spec fn differ_state(p: Pt, q: Pt) -> bool { p.c == q.c && p.e =~= q.e }
pub open spec fn proj_slot(z: ISet<Pt>, k: int) -> ISet<Pt> { ISet::new(|p: Pt| shaped(p) && exists|q: Pt| z.contains(q) && differ_slot(p, q, k)) }
pub open spec fn proj_state(z: ISet<Pt>) -> ISet<Pt> { ISet::new(|p: Pt| shaped(p) && exists|q: Pt| z.contains(q) && differ_state(p, q)) }
pub open spec fn comparator_state(g: &SymbolicAsyncGraph, k: int) -> ISet<Pt> { ISet::new(|p: Pt| unit_of(g).contains(p) && eq_state(p, k)) }
pub open spec fn comparator_slots(g: &SymbolicAsyncGraph, k: int, k2: int) -> ISet<Pt> { ISet::new(|p: Pt| unit_of(g).contains(p) && eq_slots(p, k, k2)) }
pub open spec fn valid_var_name(name: &str) -> bool { 1 <= name.spec_bytes().len() <= usize::MAX && slot_of(name) < dim_k() }

#[verifier::external_body]
fn fmt_extra_name(network_var_name: &String, id: usize) -> (r: String)     // R-fmt-val: format!("{network_var_name}_extra_{id}")
    ensures r@ == network_var_name@ + "_extra_"@ + dec(id as int)
{ unimplemented!() }
#[verifier::exec_allows_no_decreases_clause]
fn create_equalizer(
    graph: &SymbolicAsyncGraph,
    hctl_var_name: &str,
    other_hctl_var_name: Option<&str>,
) -> (r: GraphColoredVertices)
    requires wf_graph(graph), valid_var_name(hctl_var_name), other_hctl_var_name matches Some(o) ==> valid_var_name(o)
    ensures match other_hctl_var_name {
        None => gv(&r) =~= comparator_state(graph, slot_of(hctl_var_name)),
        Some(o) => gv(&r) =~= comparator_slots(graph, slot_of(hctl_var_name), slot_of(o)),
    }
{
    broadcast use axiom_names_extra, axiom_names_state;
    // TODO: merge both branches to not repeat code
    let mut comparator = graph.mk_unit_colored_vertices().as_bdd().clone();

    // HCTL variables are named x, xx, xxx, ...
    let hctl_var_id = hctl_var_name.len() - 1; // len of var codes its index

    if let Some(other_hctl_var_name) = other_hctl_var_name {
        // do comparator between the two HCTL variables

        // HCTL variables are named x, xx, xxx, ...
        let other_hctl_var_id = other_hctl_var_name.len() - 1; // len of var codes its index

        let mut it_ = graph.variables(); loop 
            invariant
                wf_graph(graph), valid_var_name(hctl_var_name), hctl_var_id == slot_of(hctl_var_name),
                valid_var_name(other_hctl_var_name), other_hctl_var_id == slot_of(other_hctl_var_name),
                0 <= it_next(&it_) <= dim_n(),
                forall|p: Pt| #[trigger] bv(&comparator).contains(p) <==> unit_of(graph).contains(p) && eq_slots_upto(p, hctl_var_id as int, other_hctl_var_id as int, it_next(&it_)),
            ensures it_next(&it_) == dim_n(),
 { let network_var_id = match it_.next() { Some(x_) => x_, None => break };
            let network_var_name = graph.get_variable_name(network_var_id);

            // extra BDD vars are called "{network_variable}_extra_{i}"
            let hctl_var1_component_name = fmt_extra_name(&network_var_name, hctl_var_id);
            let hctl_var2_component_name = fmt_extra_name(&network_var_name, other_hctl_var_id);
            proof {
                axiom_names_extra(vid(network_var_id), hctl_var_id as int);
                axiom_names_extra(vid(network_var_id), other_hctl_var_id as int);
                assert(hctl_var1_component_name@ == extra_name(vid(network_var_id), hctl_var_id as int));
                assert(hctl_var2_component_name@ == extra_name(vid(network_var_id), other_hctl_var_id as int));
            }

            let bdd_hctl_var1_component = graph
                .symbolic_context()
                .bdd_variable_set()
                .mk_var_by_name(hctl_var1_component_name.as_str());
            let bdd_hctl_var2_component = graph
                .symbolic_context()
                .bdd_variable_set()
                .mk_var_by_name(hctl_var2_component_name.as_str());
            comparator = comparator.and(&bdd_hctl_var1_component.iff(&bdd_hctl_var2_component));
        }
    } else {
        // do comparator between network vars and a HCTL variable

        let mut it_ = graph.variables(); loop 
            invariant
                wf_graph(graph), valid_var_name(hctl_var_name), hctl_var_id == slot_of(hctl_var_name),
                0 <= it_next(&it_) <= dim_n(),
                forall|p: Pt| #[trigger] bv(&comparator).contains(p) <==> unit_of(graph).contains(p) && eq_state_upto(p, hctl_var_id as int, it_next(&it_)),
            ensures it_next(&it_) == dim_n(),
 { let network_var_id = match it_.next() { Some(x_) => x_, None => break };
            let network_var_name = graph.get_variable_name(network_var_id);
            let hctl_component_name = fmt_extra_name(&network_var_name, hctl_var_id);
            proof {
                axiom_names_extra(vid(network_var_id), hctl_var_id as int);
                axiom_names_state(vid(network_var_id));
                assert(hctl_component_name@ == extra_name(vid(network_var_id), hctl_var_id as int));
            }
            let bdd_network_var = graph
                .symbolic_context()
                .bdd_variable_set()
                .mk_var_by_name(network_var_name.as_str());
            let bdd_hctl_component = graph
                .symbolic_context()
                .bdd_variable_set()
                .mk_var_by_name(hctl_component_name.as_str());
            comparator = comparator.and(&bdd_hctl_component.iff(&bdd_network_var));
        }
    }

    // do intersection with the unit bdd (static constraints) to be sure its valid
    GraphColoredVertices::new(comparator, graph.symbolic_context())
        .intersect(graph.unit_colored_vertices())
}

pub proof fn axiom_all_shaped_gv(s: &GraphColoredVertices)
    ensures forall|p: Pt| gv(s).contains(p) ==> shaped(p)
{
    assert forall|p: Pt| gv(s).contains(p) implies shaped(p) by { axiom_gv_shaped(s, p); }
}
pub open spec fn slot_roles(k: int) -> Set<Role> { Set::new(|r: Role| r matches Role::Extra(i, kk) && kk == k && 0 <= i < dim_n()).unwrap_or(Set::empty()) }
pub proof fn lemma_roles_slot(vars: Seq<BddVariable>, k: int)
    requires vars.len() == dim_n(), forall|i: int| 0 <= i < dim_n() ==> role(#[trigger] vars[i]) == Role::Extra(i, k)
    ensures
        no_params(vars),
        forall|i: int| 0 <= i < dim_n() ==> roles_of(vars).contains(Role::Extra(i, k)),
        forall|r: Role| roles_of(vars).contains(r) ==> (r matches Role::Extra(i, kk) && kk == k && 0 <= i < dim_n()),
{
    let m = vars.map_values(|v: BddVariable| role(v));
    assert forall|i: int| 0 <= i < dim_n() implies roles_of(vars).contains(Role::Extra(i, k)) by {
        assert(m[i] == Role::Extra(i, k));
        assert(m.contains(m[i]));
    }
    assert forall|r: Role| roles_of(vars).contains(r) implies (r matches Role::Extra(i, kk) && kk == k && 0 <= i < dim_n()) by {
        let j = choose|j: int| 0 <= j < m.len() && m[j] == r;
        assert(m[j] == role(vars[j]));
    }
}
pub proof fn lemma_proj_slot(a: ISet<Pt>, r: ISet<Pt>, vars: Seq<BddVariable>, k: int)
    requires
        0 <= k < dim_k(),
        forall|p: Pt| a.contains(p) ==> shaped(p),
        forall|i: int| 0 <= i < dim_n() ==> roles_of(vars).contains(Role::Extra(i, k)),
        forall|r: Role| roles_of(vars).contains(r) ==> (r matches Role::Extra(i, kk) && kk == k && 0 <= i < dim_n()),
        forall|p: Pt| #[trigger] r.contains(p) <==> shaped(p) && exists|q: Pt| a.contains(q) && same_except(p, q, roles_of(vars)),
    ensures r =~= proj_slot(a, k)
{
    assert forall|p: Pt| r.contains(p) <==> proj_slot(a, k).contains(p) by {
        if r.contains(p) {
            let q = choose|q: Pt| a.contains(q) && same_except(p, q, roles_of(vars));
            assert(shaped(p) && shaped(q));
            assert(differ_slot(p, q, k)) by {
                assert forall|i: int| 0 <= i < dim_n() implies p.s[i] == q.s[i] by { assert(!roles_of(vars).contains(Role::State(i))); }
                assert(p.s.len() == q.s.len());
                assert forall|j: int| 0 <= j < dim_k() && j != k implies #[trigger] p.e[j] =~= q.e[j] by {
                    assert forall|i: int| 0 <= i < dim_n() implies p.e[j][i] == q.e[j][i] by { assert(!roles_of(vars).contains(Role::Extra(i, j))); }
                    assert(p.e[j].len() == q.e[j].len());
                }
            }
        }
        if proj_slot(a, k).contains(p) {
            let q = choose|q: Pt| a.contains(q) && differ_slot(p, q, k);
            assert(same_except(p, q, roles_of(vars)));
        }
    }
}

#[verifier::exec_allows_no_decreases_clause]
pub fn project_out_hctl_var(
    graph: &SymbolicAsyncGraph,
    colored_state_set: &GraphColoredVertices,
    hctl_var_name: &str,
) -> (r: GraphColoredVertices)
    requires valid_var_name(hctl_var_name)
    ensures gv(&r) == proj_slot(gv(colored_state_set), slot_of(hctl_var_name))
{
    let hctl_var_id = hctl_var_name.len() - 1; // len of var codes its index

    // collect all BDD vars that encode the HCTL var
    let mut bdd_vars_to_project: Vec<BddVariable> = Vec::new();
    let mut it_ = graph.variables(); loop
        invariant
            valid_var_name(hctl_var_name), hctl_var_id == slot_of(hctl_var_name),
            0 <= it_next(&it_) <= dim_n(),
            bdd_vars_to_project@.len() == it_next(&it_),
            forall|i: int| 0 <= i < it_next(&it_) ==> role(#[trigger] bdd_vars_to_project@[i]) == Role::Extra(i, hctl_var_id as int),
        ensures it_next(&it_) == dim_n(),
    { let network_var = match it_.next() { Some(x_) => x_, None => break };
        let extra_vars = graph.symbolic_context().extra_state_variables(network_var);
        bdd_vars_to_project.push(*extra_vars.get(hctl_var_id).unwrap());
    }

    // project these bdd vars out
    let result_bdd = colored_state_set.as_bdd().exists(&bdd_vars_to_project);

    proof { axiom_all_shaped_gv(colored_state_set); lemma_roles_slot(bdd_vars_to_project@, hctl_var_id as int); lemma_proj_slot(gv(colored_state_set), bv(&result_bdd), bdd_vars_to_project@, hctl_var_id as int); }
    // after projection we do not need to intersect with unit bdd
    GraphColoredVertices::new(result_bdd, graph.symbolic_context())
}
fn main() {}
} // verus!
