use vstd::prelude::*;

// stand-ins for external crate types (in the real machinery they'd come from the prelude too)
pub struct GraphColoredVertices { x: u64 }
pub struct SymbolicAsyncGraph { y: u64 }
impl GraphColoredVertices {
    pub fn union(&self, o: &Self) -> Self { GraphColoredVertices{x: self.x | o.x} }
    pub fn intersect(&self, o: &Self) -> Self { GraphColoredVertices{x: self.x & o.x} }
    pub fn minus(&self, o: &Self) -> Self { GraphColoredVertices{x: self.x & !o.x} }
    pub fn is_empty(&self) -> bool { self.x == 0 }
}
impl Clone for GraphColoredVertices { fn clone(&self) -> Self { GraphColoredVertices{x: self.x} } }
impl PartialEq for GraphColoredVertices { fn eq(&self, o: &Self) -> bool { self.x == o.x } }
impl SymbolicAsyncGraph {
    pub fn mk_unit_colored_vertices(&self) -> GraphColoredVertices { GraphColoredVertices{x: self.y} }
    pub fn mk_empty_colored_vertices(&self) -> GraphColoredVertices { GraphColoredVertices{x: 0} }
    pub fn pre(&self, s: &GraphColoredVertices) -> GraphColoredVertices { GraphColoredVertices{x: s.x >> 1} }
}

verus! {

pub struct Pt { pub a: int }  // abstract point (state, colour, extra valuation)

#[verifier::external_type_specification]
#[verifier::external_body]
pub struct ExGCV(GraphColoredVertices);

#[verifier::external_type_specification]
#[verifier::external_body]
pub struct ExSAG(SymbolicAsyncGraph);

pub uninterp spec fn gcv_view(s: &GraphColoredVertices) -> ISet<Pt>;
pub uninterp spec fn unit_of(g: &SymbolicAsyncGraph) -> ISet<Pt>;
pub uninterp spec fn pre_of(g: &SymbolicAsyncGraph, s: ISet<Pt>) -> ISet<Pt>;

pub assume_specification[ GraphColoredVertices::union ](a: &GraphColoredVertices, b: &GraphColoredVertices) -> (r: GraphColoredVertices)
    ensures gcv_view(&r) == gcv_view(a).union(gcv_view(b));
pub assume_specification[ GraphColoredVertices::intersect ](a: &GraphColoredVertices, b: &GraphColoredVertices) -> (r: GraphColoredVertices)
    ensures gcv_view(&r) == gcv_view(a).intersect(gcv_view(b));
pub assume_specification[ GraphColoredVertices::minus ](a: &GraphColoredVertices, b: &GraphColoredVertices) -> (r: GraphColoredVertices)
    ensures gcv_view(&r) == gcv_view(a).difference(gcv_view(b));
pub assume_specification[ <GraphColoredVertices as Clone>::clone ](a: &GraphColoredVertices) -> (r: GraphColoredVertices)
    ensures gcv_view(&r) == gcv_view(a);
pub assume_specification[ <GraphColoredVertices as PartialEq>::eq ](a: &GraphColoredVertices, b: &GraphColoredVertices) -> (r: bool)
    ensures r <==> gcv_view(a) == gcv_view(b);
pub assume_specification[ SymbolicAsyncGraph::mk_unit_colored_vertices ](g: &SymbolicAsyncGraph) -> (r: GraphColoredVertices)
    ensures gcv_view(&r) == unit_of(g);
pub assume_specification[ SymbolicAsyncGraph::mk_empty_colored_vertices ](g: &SymbolicAsyncGraph) -> (r: GraphColoredVertices)
    ensures gcv_view(&r) == ISet::<Pt>::empty();
pub assume_specification[ SymbolicAsyncGraph::pre ](g: &SymbolicAsyncGraph, s: &GraphColoredVertices) -> (r: GraphColoredVertices)
    ensures gcv_view(&r) == pre_of(g, gcv_view(s));

pub fn eval_neg(graph: &SymbolicAsyncGraph, set: &GraphColoredVertices) -> (r: GraphColoredVertices)
    ensures gcv_view(&r) == unit_of(graph).difference(gcv_view(set))
{
    let unit_set = graph.mk_unit_colored_vertices();
    unit_set.minus(set)
}

pub fn eval_ex(
    graph: &SymbolicAsyncGraph,
    phi: &GraphColoredVertices,
    self_loop_states: &GraphColoredVertices,
) -> (r: GraphColoredVertices)
    ensures gcv_view(&r) == pre_of(graph, gcv_view(phi)).union(gcv_view(phi).intersect(gcv_view(self_loop_states)))
{
    graph.pre(phi).union(&phi.intersect(self_loop_states))
}

pub open spec fn ex_s(g: &SymbolicAsyncGraph, z: ISet<Pt>, l: ISet<Pt>) -> ISet<Pt> { pre_of(g, z).union(z.intersect(l)) }
pub open spec fn is_post_fix(g: &SymbolicAsyncGraph, phi: ISet<Pt>, l: ISet<Pt>, z: ISet<Pt>) -> bool {
    z.subset_of(phi) && z.subset_of(ex_s(g, z, l))
}
pub open spec fn pre_monotone(g: &SymbolicAsyncGraph) -> bool {
    forall|a: ISet<Pt>, b: ISet<Pt>| a.subset_of(b) ==> #[trigger] pre_of(g, a).subset_of(pre_of(g, b))
}

#[verifier::exec_allows_no_decreases_clause]
pub fn eval_eg(
    graph: &SymbolicAsyncGraph,
    phi: &GraphColoredVertices,
    self_loop_states: &GraphColoredVertices,
) -> (r: GraphColoredVertices)
    requires pre_monotone(graph)
    ensures
        is_post_fix(graph, gcv_view(phi), gcv_view(self_loop_states), gcv_view(&r)),
        forall|z: ISet<Pt>| is_post_fix(graph, gcv_view(phi), gcv_view(self_loop_states), z) ==> z.subset_of(gcv_view(&r)),
{
    let mut old_set = phi.clone();
    let mut new_set = graph.mk_empty_colored_vertices();

    while old_set != new_set
        invariant
            pre_monotone(graph),
            gcv_view(&old_set).subset_of(gcv_view(phi)),
            forall|z: ISet<Pt>| is_post_fix(graph, gcv_view(phi), gcv_view(self_loop_states), z) ==> z.subset_of(gcv_view(&old_set)),
            // either first iteration or old = new ∩ EX(new)
            gcv_view(&old_set) == gcv_view(phi) || gcv_view(&old_set) == gcv_view(&new_set).intersect(ex_s(graph, gcv_view(&new_set), gcv_view(self_loop_states))),
            gcv_view(&old_set) == gcv_view(phi) ==> (gcv_view(&new_set) == ISet::<Pt>::empty() || gcv_view(&old_set) == gcv_view(&new_set).intersect(ex_s(graph, gcv_view(&new_set), gcv_view(self_loop_states)))),
    {
        new_set = old_set.clone();
        let ghost prev = gcv_view(&old_set);
        old_set = old_set.intersect(&eval_ex(graph, &old_set, self_loop_states));
        proof {
            assert forall|z: ISet<Pt>| is_post_fix(graph, gcv_view(phi), gcv_view(self_loop_states), z) implies z.subset_of(gcv_view(&old_set)) by {
                assert(z.subset_of(prev));
                assert(pre_of(graph, z).subset_of(pre_of(graph, prev)));
            }
        }
    }
    proof {
        // exit: old == new
    }
    old_set
}

fn main() {}
} // verus!
