// PROBE: stub model of the lib-param-bn / lib-bdd API surface used by
// src/evaluation/{hctl_operators_eval,low_level_operations}.rs, with assumed contracts (TRUSTED).
use vstd::prelude::*;

// ---------------- opaque stand-ins (never executed) ----------------
pub struct Bdd { _p: u8 }
#[derive(Clone, Copy)]
pub struct BddVariable { _p: u16 }
pub struct BddVariableSet { _p: u8 }
pub struct SymbolicContext { _p: u8 }
pub struct SymbolicAsyncGraph { _p: u8 }
pub struct GraphColoredVertices { _p: u8 }
pub struct BooleanNetwork { _p: u8 }
#[derive(Clone, Copy)]
pub struct VariableId { _p: usize }
pub struct VariableIdIterator { _p: usize }
pub struct VariableIdRevIterator { _p: usize }


// ---------------- API surface (bodies never run) ----------------
impl GraphColoredVertices {
    pub fn new(_bdd: Bdd, _ctx: &SymbolicContext) -> Self { unimplemented!() }
    pub fn as_bdd(&self) -> &Bdd { unimplemented!() }
    pub fn into_bdd(self) -> Bdd { unimplemented!() }
    pub fn union(&self, _o: &Self) -> Self { unimplemented!() }
    pub fn intersect(&self, _o: &Self) -> Self { unimplemented!() }
    pub fn minus(&self, _o: &Self) -> Self { unimplemented!() }
    pub fn is_empty(&self) -> bool { unimplemented!() }
    pub fn is_subset(&self, _o: &Self) -> bool { unimplemented!() }
}
impl Clone for GraphColoredVertices { fn clone(&self) -> Self { unimplemented!() } }
impl PartialEq for GraphColoredVertices { fn eq(&self, _o: &Self) -> bool { unimplemented!() } }
impl Clone for Bdd { fn clone(&self) -> Self { unimplemented!() } }
impl Bdd {
    pub fn and(&self, _o: &Bdd) -> Bdd { unimplemented!() }
    pub fn iff(&self, _o: &Bdd) -> Bdd { unimplemented!() }
    pub fn exists(&self, _vars: &[BddVariable]) -> Bdd { unimplemented!() }
}
impl BddVariableSet { pub fn mk_var_by_name(&self, _name: &str) -> Bdd { unimplemented!() } }
impl Clone for SymbolicContext { fn clone(&self) -> Self { unimplemented!() } }
impl SymbolicContext {
    pub fn bdd_variable_set(&self) -> &BddVariableSet { unimplemented!() }
    pub fn extra_state_variables(&self, _v: VariableId) -> &Vec<BddVariable> { unimplemented!() }
    pub fn state_variables(&self) -> &Vec<BddVariable> { unimplemented!() }
    pub fn find_network_variable(&self, _name: &str) -> Option<VariableId> { unimplemented!() }
    pub fn mk_state_variable_is_true(&self, _v: VariableId) -> Bdd { unimplemented!() }
}
impl SymbolicAsyncGraph {
    pub fn symbolic_context(&self) -> &SymbolicContext { unimplemented!() }
    pub fn mk_unit_colored_vertices(&self) -> GraphColoredVertices { unimplemented!() }
    pub fn unit_colored_vertices(&self) -> &GraphColoredVertices { unimplemented!() }
    pub fn mk_empty_colored_vertices(&self) -> GraphColoredVertices { unimplemented!() }
    pub fn pre(&self, _s: &GraphColoredVertices) -> GraphColoredVertices { unimplemented!() }
    pub fn var_pre(&self, _v: VariableId, _s: &GraphColoredVertices) -> GraphColoredVertices { unimplemented!() }
    pub fn variables(&self) -> VariableIdIterator { unimplemented!() }
    pub fn get_variable_name(&self, _v: VariableId) -> String { unimplemented!() }
    pub fn as_network(&self) -> Option<&BooleanNetwork> { unimplemented!() }
    pub fn with_custom_context(_n: &BooleanNetwork, _c: SymbolicContext, _u: Bdd) -> Result<SymbolicAsyncGraph, String> { unimplemented!() }
}
impl VariableIdIterator {
    pub fn next(&mut self) -> Option<VariableId> { unimplemented!() }
    pub fn rev(self) -> VariableIdRevIterator { unimplemented!() }
}
impl VariableIdRevIterator { pub fn next(&mut self) -> Option<VariableId> { unimplemented!() } }

verus! {

// ---------------- abstract domain ----------------
pub struct Pt { pub s: Seq<bool>, pub c: int, pub e: Seq<Seq<bool>> }
pub uninterp spec fn dim_n() -> nat;   // number of network variables (ambient symbolic context)
pub uninterp spec fn dim_k() -> nat;   // number of extra copies (HCTL variable slots)
pub open spec fn shaped(p: Pt) -> bool {
    p.s.len() == dim_n() && p.e.len() == dim_k() && forall|k: int| 0 <= k < dim_k() ==> (#[trigger] p.e[k]).len() == dim_n()
}
pub open spec fn with_state(p: Pt, s: Seq<bool>) -> Pt { Pt { s: s, ..p } }
pub open spec fn with_slot(p: Pt, k: int, v: Seq<bool>) -> Pt { Pt { e: p.e.update(k, v), ..p } }
pub open spec fn flip(s: Seq<bool>, v: int) -> Seq<bool> { s.update(v, !s[v]) }

#[verifier::external_type_specification] #[verifier::external_body] pub struct ExBdd(Bdd);
#[verifier::external_type_specification] #[verifier::external_body] pub struct ExBddVariable(BddVariable);
#[verifier::external_type_specification] #[verifier::external_body] pub struct ExBddVariableSet(BddVariableSet);
#[verifier::external_type_specification] #[verifier::external_body] pub struct ExSymbolicContext(SymbolicContext);
#[verifier::external_type_specification] #[verifier::external_body] pub struct ExSymbolicAsyncGraph(SymbolicAsyncGraph);
#[verifier::external_type_specification] #[verifier::external_body] pub struct ExGraphColoredVertices(GraphColoredVertices);
#[verifier::external_type_specification] #[verifier::external_body] pub struct ExBooleanNetwork(BooleanNetwork);
#[verifier::external_type_specification] #[verifier::external_body] pub struct ExVariableId(VariableId);
#[verifier::external_type_specification] #[verifier::external_body] pub struct ExVariableIdIterator(VariableIdIterator);
#[verifier::external_type_specification] #[verifier::external_body] pub struct ExVariableIdRevIterator(VariableIdRevIterator);

pub uninterp spec fn bv(b: &Bdd) -> ISet<Pt>;                       // valuations satisfying a BDD
pub uninterp spec fn gv(s: &GraphColoredVertices) -> ISet<Pt>;      // same, for a coloured vertex set
pub uninterp spec fn unit_of(g: &SymbolicAsyncGraph) -> ISet<Pt>;
pub uninterp spec fn can_flip(g: &SymbolicAsyncGraph, v: int, s: Seq<bool>, c: int) -> bool;
pub uninterp spec fn vid(v: VariableId) -> int;
pub enum Role { State(int), Extra(int, int), Param(int) }
pub uninterp spec fn role(v: BddVariable) -> Role;

// every symbolic set only contains well-shaped valuations (BDD valuations are total over the variable set)
pub broadcast axiom fn axiom_gv_shaped(s: &GraphColoredVertices, p: Pt)
    requires #[trigger] gv(s).contains(p)
    ensures shaped(p);
pub broadcast axiom fn axiom_bv_shaped(b: &Bdd, p: Pt)
    requires #[trigger] bv(b).contains(p)
    ensures shaped(p);


// ---------------- assumed contracts: set algebra ----------------
pub assume_specification[ GraphColoredVertices::union ](a: &GraphColoredVertices, b: &GraphColoredVertices) -> (r: GraphColoredVertices)
    ensures gv(&r) == gv(a).union(gv(b));
pub assume_specification[ GraphColoredVertices::intersect ](a: &GraphColoredVertices, b: &GraphColoredVertices) -> (r: GraphColoredVertices)
    ensures gv(&r) == gv(a).intersect(gv(b));
pub assume_specification[ GraphColoredVertices::minus ](a: &GraphColoredVertices, b: &GraphColoredVertices) -> (r: GraphColoredVertices)
    ensures gv(&r) == gv(a).difference(gv(b));
pub assume_specification[ GraphColoredVertices::is_empty ](a: &GraphColoredVertices) -> (r: bool)
    ensures r <==> gv(a) == ISet::<Pt>::empty();
pub assume_specification[ <GraphColoredVertices as Clone>::clone ](a: &GraphColoredVertices) -> (r: GraphColoredVertices)
    ensures gv(&r) == gv(a);
pub assume_specification[ <GraphColoredVertices as PartialEq>::eq ](a: &GraphColoredVertices, b: &GraphColoredVertices) -> (r: bool)
    ensures r <==> gv(a) == gv(b);
pub assume_specification[ GraphColoredVertices::new ](bdd: Bdd, ctx: &SymbolicContext) -> (r: GraphColoredVertices)
    ensures gv(&r) == bv(&bdd);
pub assume_specification[ GraphColoredVertices::as_bdd ](a: &GraphColoredVertices) -> (r: &Bdd)
    ensures bv(r) == gv(a);
pub assume_specification[ GraphColoredVertices::into_bdd ](a: GraphColoredVertices) -> (r: Bdd)
    ensures bv(&r) == gv(&a);
pub assume_specification[ <Bdd as Clone>::clone ](a: &Bdd) -> (r: Bdd)
    ensures bv(&r) == bv(a);
pub assume_specification[ Bdd::and ](a: &Bdd, b: &Bdd) -> (r: Bdd)
    ensures bv(&r) == bv(a).intersect(bv(b));
pub assume_specification[ Bdd::iff ](a: &Bdd, b: &Bdd) -> (r: Bdd)
    ensures forall|p: Pt| #[trigger] bv(&r).contains(p) <==> shaped(p) && (bv(a).contains(p) <==> bv(b).contains(p));

// ---------------- assumed contracts: variables and projections ----------------
pub open spec fn coord(p: Pt, r: Role) -> bool {
    match r { Role::State(i) => p.s[i], Role::Extra(i, k) => p.e[k][i], Role::Param(_) => false }
}
// p and q agree on the colour and on every state / extra coordinate whose role is not in `roles`
pub open spec fn same_except(p: Pt, q: Pt, roles: Set<Role>) -> bool {
    &&& p.c == q.c
    &&& forall|i: int| 0 <= i < dim_n() && !roles.contains(Role::State(i)) ==> p.s[i] == q.s[i]
    &&& forall|i: int, k: int| 0 <= i < dim_n() && 0 <= k < dim_k() && !roles.contains(Role::Extra(i, k)) ==> #[trigger] p.e[k][i] == q.e[k][i]
}
pub open spec fn roles_of(vars: Seq<BddVariable>) -> Set<Role> { vars.map_values(|v: BddVariable| role(v)).to_set() }
pub open spec fn no_params(vars: Seq<BddVariable>) -> bool { forall|j: int| 0 <= j < vars.len() ==> !(role(#[trigger] vars[j]) is Param) }
pub assume_specification[ Bdd::exists ](a: &Bdd, vars: &[BddVariable]) -> (r: Bdd)
    requires no_params(vars@)   // (the repo never projects parameter variables; the contract is only given for that case)
    ensures forall|p: Pt| #[trigger] bv(&r).contains(p) <==> shaped(p) && exists|q: Pt| bv(a).contains(q) && same_except(p, q, roles_of(vars@));

pub uninterp spec fn var_name(i: int) -> Seq<char>;         // name of network variable i
pub uninterp spec fn dec(k: int) -> Seq<char>;              // decimal rendering used by format!("{}", k)
pub open spec fn extra_name(i: int, k: int) -> Seq<char> { var_name(i) + "_extra_"@ + dec(k) }
pub uninterp spec fn name_role(name: Seq<char>) -> Option<Role>;   // BDD variable with that name, if any
pub broadcast axiom fn axiom_names_state(i: int)
    requires 0 <= i < dim_n()
    ensures #[trigger] name_role(var_name(i)) == Some(Role::State(i));
pub broadcast axiom fn axiom_names_extra(i: int, k: int)      // lib-param-bn: with_extra_state_variables names them "{var}_extra_{k}"
    requires 0 <= i < dim_n(), 0 <= k < dim_k()
    ensures #[trigger] name_role(extra_name(i, k)) == Some(Role::Extra(i, k));

pub assume_specification[ BddVariableSet::mk_var_by_name ](s: &BddVariableSet, name: &str) -> (r: Bdd)
    requires name_role(name@) is Some          // panics otherwise
    ensures forall|p: Pt| #[trigger] bv(&r).contains(p) <==> shaped(p) && coord(p, name_role(name@)->0);
pub assume_specification[ SymbolicContext::bdd_variable_set ](c: &SymbolicContext) -> (r: &BddVariableSet);
pub assume_specification[ SymbolicContext::extra_state_variables ](c: &SymbolicContext, v: VariableId) -> (r: &Vec<BddVariable>)
    requires 0 <= vid(v) < dim_n()
    ensures r@.len() == dim_k(), forall|k: int| 0 <= k < dim_k() ==> role(#[trigger] r@[k]) == Role::Extra(vid(v), k);
pub assume_specification[ SymbolicContext::state_variables ](c: &SymbolicContext) -> (r: &Vec<BddVariable>)
    ensures r@.len() == dim_n(), forall|i: int| 0 <= i < dim_n() ==> role(#[trigger] r@[i]) == Role::State(i);
pub uninterp spec fn prop_index(name: Seq<char>) -> Option<int>;
pub assume_specification[ SymbolicContext::find_network_variable ](c: &SymbolicContext, name: &str) -> (r: Option<VariableId>)
    ensures match r { Some(v) => prop_index(name@) == Some(vid(v)) && 0 <= vid(v) < dim_n(), None => prop_index(name@) is None };
pub assume_specification[ SymbolicContext::mk_state_variable_is_true ](c: &SymbolicContext, v: VariableId) -> (r: Bdd)
    requires 0 <= vid(v) < dim_n()
    ensures forall|p: Pt| #[trigger] bv(&r).contains(p) <==> shaped(p) && p.s[vid(v)];
pub assume_specification[ <SymbolicContext as Clone>::clone ](c: &SymbolicContext) -> (r: SymbolicContext);

// ---------------- assumed contracts: the symbolic asynchronous graph ----------------
// unit set: does not constrain the state coordinates (lib-param-bn: "unit_bdd should be a cartesian product ...";
// established by get_extended_symbolic_graph and preserved by restrict_stg_unit_bdd, see wf_graph)
pub open spec fn wf_graph(g: &SymbolicAsyncGraph) -> bool {
    &&& forall|p: Pt| #[trigger] unit_of(g).contains(p) ==> shaped(p)
    &&& forall|p: Pt, s: Seq<bool>| #![trigger unit_of(g).contains(with_state(p, s))] unit_of(g).contains(p) && s.len() == dim_n() ==> unit_of(g).contains(with_state(p, s))
}
pub open spec fn var_pre_of(g: &SymbolicAsyncGraph, v: int, z: ISet<Pt>) -> ISet<Pt> {
    ISet::new(|p: Pt| shaped(p) && can_flip(g, v, p.s, p.c) && z.contains(with_state(p, flip(p.s, v))))
}
pub open spec fn pre_of(g: &SymbolicAsyncGraph, z: ISet<Pt>) -> ISet<Pt> {
    ISet::new(|p: Pt| exists|v: int| 0 <= v < dim_n() && #[trigger] var_pre_of(g, v, z).contains(p))
}
pub assume_specification[ SymbolicAsyncGraph::symbolic_context ](g: &SymbolicAsyncGraph) -> (r: &SymbolicContext);
pub assume_specification[ SymbolicAsyncGraph::mk_unit_colored_vertices ](g: &SymbolicAsyncGraph) -> (r: GraphColoredVertices)
    ensures gv(&r) == unit_of(g);
pub assume_specification[ SymbolicAsyncGraph::unit_colored_vertices ](g: &SymbolicAsyncGraph) -> (r: &GraphColoredVertices)
    ensures gv(r) == unit_of(g);
pub assume_specification[ SymbolicAsyncGraph::mk_empty_colored_vertices ](g: &SymbolicAsyncGraph) -> (r: GraphColoredVertices)
    ensures gv(&r) == ISet::<Pt>::empty();
pub assume_specification[ SymbolicAsyncGraph::pre ](g: &SymbolicAsyncGraph, s: &GraphColoredVertices) -> (r: GraphColoredVertices)
    ensures gv(&r) == pre_of(g, gv(s));
pub assume_specification[ SymbolicAsyncGraph::var_pre ](g: &SymbolicAsyncGraph, v: VariableId, s: &GraphColoredVertices) -> (r: GraphColoredVertices)
    requires 0 <= vid(v) < dim_n()
    ensures gv(&r) == var_pre_of(g, vid(v), gv(s));
pub assume_specification[ SymbolicAsyncGraph::get_variable_name ](g: &SymbolicAsyncGraph, v: VariableId) -> (r: String)
    requires 0 <= vid(v) < dim_n()
    ensures r@ == var_name(vid(v));
// iteration over network variables: 0, 1, ..., n-1 (and reversed)
pub uninterp spec fn it_next(it: &VariableIdIterator) -> int;       // next index to be yielded
pub uninterp spec fn rit_next(it: &VariableIdRevIterator) -> int;   // next index to be yielded (counts down)
pub assume_specification[ SymbolicAsyncGraph::variables ](g: &SymbolicAsyncGraph) -> (r: VariableIdIterator)
    ensures it_next(&r) == 0;
pub assume_specification[ VariableIdIterator::next ](it: &mut VariableIdIterator) -> (r: Option<VariableId>)
    ensures
        it_next(old(it)) < dim_n() ==> (r matches Some(v) && vid(v) == it_next(old(it)) && it_next(final(it)) == it_next(old(it)) + 1),
        it_next(old(it)) >= dim_n() ==> r is None && it_next(final(it)) == it_next(old(it));
pub assume_specification[ VariableIdIterator::rev ](it: VariableIdIterator) -> (r: VariableIdRevIterator)
    requires it_next(&it) == 0
    ensures rit_next(&r) == dim_n() - 1;
pub assume_specification[ VariableIdRevIterator::next ](it: &mut VariableIdRevIterator) -> (r: Option<VariableId>)
    ensures
        rit_next(old(it)) >= 0 ==> (r matches Some(v) && vid(v) == rit_next(old(it)) && rit_next(final(it)) == rit_next(old(it)) - 1),
        rit_next(old(it)) < 0 ==> r is None && rit_next(final(it)) == rit_next(old(it));

// ---------------- spec layer: CTL operators over an abstract coloured transition system ----------------
pub open spec fn neg(g: &SymbolicAsyncGraph, z: ISet<Pt>) -> ISet<Pt> { unit_of(g).difference(z) }
pub open spec fn ex_l(g: &SymbolicAsyncGraph, z: ISet<Pt>, l: ISet<Pt>) -> ISet<Pt> { pre_of(g, z).union(z.intersect(l)) }
pub open spec fn ax_l(g: &SymbolicAsyncGraph, z: ISet<Pt>, l: ISet<Pt>) -> ISet<Pt> { neg(g, ex_l(g, neg(g, z), l)) }
// E[a U b]: least z with  b ∪ (a ∩ pre(z)) ⊆ z
pub open spec fn eu_closed(g: &SymbolicAsyncGraph, a: ISet<Pt>, b: ISet<Pt>, z: ISet<Pt>) -> bool {
    b.subset_of(z) && a.intersect(pre_of(g, z)).subset_of(z)
}
pub open spec fn eu_of(g: &SymbolicAsyncGraph, a: ISet<Pt>, b: ISet<Pt>) -> ISet<Pt> {
    ISet::new(|p: Pt| forall|z: ISet<Pt>| eu_closed(g, a, b, z) ==> #[trigger] z.contains(p))
}
// EG a (self-loops l): greatest z with z ⊆ a ∩ EX_l(z)
pub open spec fn eg_dense(g: &SymbolicAsyncGraph, a: ISet<Pt>, l: ISet<Pt>, z: ISet<Pt>) -> bool {
    z.subset_of(a) && z.subset_of(ex_l(g, z, l))
}
pub open spec fn eg_of(g: &SymbolicAsyncGraph, a: ISet<Pt>, l: ISet<Pt>) -> ISet<Pt> {
    ISet::new(|p: Pt| exists|z: ISet<Pt>| eg_dense(g, a, l, z) && #[trigger] z.contains(p))
}
// A[a U b] (self-loops l): least z with b ∪ (a ∩ AX_l(z)) ⊆ z
pub open spec fn au_closed(g: &SymbolicAsyncGraph, a: ISet<Pt>, b: ISet<Pt>, l: ISet<Pt>, z: ISet<Pt>) -> bool {
    b.subset_of(z) && a.intersect(ax_l(g, z, l)).subset_of(z)
}
pub open spec fn au_of(g: &SymbolicAsyncGraph, a: ISet<Pt>, b: ISet<Pt>, l: ISet<Pt>) -> ISet<Pt> {
    ISet::new(|p: Pt| forall|z: ISet<Pt>| au_closed(g, a, b, l, z) ==> #[trigger] z.contains(p))
}
pub open spec fn ef_of(g: &SymbolicAsyncGraph, a: ISet<Pt>) -> ISet<Pt> { eu_of(g, unit_of(g), a) }
pub open spec fn ag_of(g: &SymbolicAsyncGraph, a: ISet<Pt>) -> ISet<Pt> { neg(g, ef_of(g, neg(g, a))) }
pub open spec fn af_of(g: &SymbolicAsyncGraph, a: ISet<Pt>, l: ISet<Pt>) -> ISet<Pt> { neg(g, eg_of(g, neg(g, a), l)) }
// weak until, as the property states it
pub open spec fn ew_of(g: &SymbolicAsyncGraph, a: ISet<Pt>, b: ISet<Pt>, l: ISet<Pt>) -> ISet<Pt> { eu_of(g, a, b).union(eg_of(g, a, l)) }
pub open spec fn aw_of(g: &SymbolicAsyncGraph, a: ISet<Pt>, b: ISet<Pt>) -> ISet<Pt> { neg(g, eu_of(g, neg(g, b), neg(g, a).intersect(neg(g, b)))) }

pub proof fn lemma_var_pre_mono(g: &SymbolicAsyncGraph, v: int, x: ISet<Pt>, y: ISet<Pt>)
    requires x.subset_of(y)
    ensures var_pre_of(g, v, x).subset_of(var_pre_of(g, v, y))
{}
pub proof fn lemma_var_pre_in_pre(g: &SymbolicAsyncGraph, v: int, z: ISet<Pt>)
    requires 0 <= v < dim_n()
    ensures var_pre_of(g, v, z).subset_of(pre_of(g, z))
{}
pub proof fn lemma_ax_mono(g: &SymbolicAsyncGraph, x: ISet<Pt>, y: ISet<Pt>, l: ISet<Pt>)
    requires x.subset_of(y)
    ensures ax_l(g, x, l).subset_of(ax_l(g, y, l))
{
    lemma_pre_mono(g, neg(g, y), neg(g, x));
}
pub proof fn lemma_pre_mono(g: &SymbolicAsyncGraph, x: ISet<Pt>, y: ISet<Pt>)
    requires x.subset_of(y)
    ensures pre_of(g, x).subset_of(pre_of(g, y))
{
    assert forall|p: Pt| pre_of(g, x).contains(p) implies pre_of(g, y).contains(p) by {
        let v = choose|v: int| 0 <= v < dim_n() && #[trigger] var_pre_of(g, v, x).contains(p);
        assert(var_pre_of(g, v, y).contains(p));
    }
}


// ---------- weak-until duality (C13) ----------
pub open spec fn loops_total(g: &SymbolicAsyncGraph, l: ISet<Pt>) -> bool { unit_of(g).subset_of(ex_l(g, unit_of(g), l)) }
pub proof fn lemma_total_ax_empty(g: &SymbolicAsyncGraph, l: ISet<Pt>)
    requires loops_total(g, l)
    ensures ax_l(g, ISet::<Pt>::empty(), l) =~= ISet::<Pt>::empty()
{
    assert(neg(g, ISet::<Pt>::empty()) =~= unit_of(g));
}
pub open spec fn within(g: &SymbolicAsyncGraph, z: ISet<Pt>) -> ISet<Pt> { z.intersect(unit_of(g)) }
pub open spec fn ew_spec(g: &SymbolicAsyncGraph, a: ISet<Pt>, b: ISet<Pt>, l: ISet<Pt>) -> ISet<Pt> {
    eu_of(g, within(g, a), within(g, b)).union(eg_of(g, within(g, a), l))
}
pub open spec fn aw_spec(g: &SymbolicAsyncGraph, a: ISet<Pt>, b: ISet<Pt>) -> ISet<Pt> {
    neg(g, eu_of(g, neg(g, b), neg(g, a).intersect(neg(g, b))))
}
pub proof fn lemma_eu_fixed(g: &SymbolicAsyncGraph, a: ISet<Pt>, b: ISet<Pt>)
    ensures
        eu_closed(g, a, b, eu_of(g, a, b)),
        eu_of(g, a, b).subset_of(b.union(a.intersect(pre_of(g, eu_of(g, a, b))))),
{
    let e = eu_of(g, a, b);
    // closed
    assert forall|p: Pt| b.contains(p) implies e.contains(p) by {}
    assert forall|p: Pt| a.intersect(pre_of(g, e)).contains(p) implies e.contains(p) by {
        assert forall|z: ISet<Pt>| eu_closed(g, a, b, z) implies #[trigger] z.contains(p) by {
            assert(e.subset_of(z));
            lemma_pre_mono(g, e, z);
        }
    }
    // F(e) is closed, hence e ⊆ F(e)
    let f = b.union(a.intersect(pre_of(g, e)));
    assert(eu_closed(g, a, b, f)) by {
        assert(f.subset_of(e));
        lemma_pre_mono(g, f, e);
    }
}
pub proof fn lemma_eg_dense(g: &SymbolicAsyncGraph, a: ISet<Pt>, l: ISet<Pt>)
    ensures eg_dense(g, a, l, eg_of(g, a, l))
{
    let e = eg_of(g, a, l);
    assert forall|p: Pt| e.contains(p) implies a.contains(p) && ex_l(g, e, l).contains(p) by {
        let z = choose|z: ISet<Pt>| eg_dense(g, a, l, z) && #[trigger] z.contains(p);
        assert(z.subset_of(e));
        lemma_pre_mono(g, z, e);
        assert(ex_l(g, z, l).contains(p));
    }
}
pub proof fn lemma_ew_duality(g: &SymbolicAsyncGraph, a0: ISet<Pt>, b0: ISet<Pt>, l: ISet<Pt>)
    requires wf_graph(g)
    ensures neg(g, au_of(g, neg(g, b0), neg(g, a0).intersect(neg(g, b0)), l)) =~= ew_spec(g, a0, b0, l)
{
    let u = unit_of(g);
    let a = within(g, a0);
    let b = within(g, b0);
    let na = neg(g, a0);
    let nb = neg(g, b0);
    let x = au_of(g, nb, na.intersect(nb), l);
    let eu = eu_of(g, a, b);
    let eg = eg_of(g, a, l);
    lemma_eu_fixed(g, a, b);
    lemma_eg_dense(g, a, l);
    // eu ⊆ a ∪ b ⊆ u
    assert(eu_closed(g, a, b, a.union(b)));
    assert(eu.subset_of(a.union(b)));
    // (1) y := u \ (eu ∪ eg) is au-closed, hence x ⊆ y
    let y = u.difference(eu.union(eg));
    assert(au_closed(g, nb, na.intersect(nb), l, y)) by {
        assert forall|p: Pt| nb.intersect(ax_l(g, y, l)).contains(p) implies y.contains(p) by {
            // p ∈ u, p ∉ b0, p ∉ EX_L(u \ y)
            assert(neg(g, y) =~= eu.union(eg));
            assert(!ex_l(g, eu.union(eg), l).contains(p));
            if eu.contains(p) {
                assert(a.intersect(pre_of(g, eu)).contains(p));
                lemma_pre_mono(g, eu, eu.union(eg));
            }
            if eg.contains(p) {
                assert(ex_l(g, eg, l).contains(p));
                lemma_pre_mono(g, eg, eu.union(eg));
            }
        }
    }
    assert(x.subset_of(y));
    // (2) t := (u \ x) \ eu is dense for EG a
    let w = u.difference(x);
    let t = w.difference(eu);
    assert(au_closed(g, nb, na.intersect(nb), l, x)) by {
        assert forall|p: Pt| na.intersect(nb).contains(p) implies x.contains(p) by {}
        assert forall|p: Pt| nb.intersect(ax_l(g, x, l)).contains(p) implies x.contains(p) by {
            assert forall|z: ISet<Pt>| au_closed(g, nb, na.intersect(nb), l, z) implies #[trigger] z.contains(p) by {
                assert(x.subset_of(z));
                lemma_ax_mono(g, x, z, l);
            }
        }
    }
    assert(eg_dense(g, a, l, t)) by {
        assert forall|p: Pt| t.contains(p) implies a.contains(p) && ex_l(g, t, l).contains(p) by {
            assert(u.contains(p) && !x.contains(p) && !eu.contains(p));
            assert(!b.contains(p));
            assert(nb.contains(p));
            assert(!na.intersect(nb).contains(p));
            assert(a.contains(p));
            // p ∉ AX_L(x)  ==>  p ∈ EX_L(u \ x)
            assert(!ax_l(g, x, l).contains(p));
            assert(neg(g, x) =~= w);
            assert(ex_l(g, w, l).contains(p));
            if pre_of(g, w).contains(p) {
                let v = choose|v: int| 0 <= v < dim_n() && #[trigger] var_pre_of(g, v, w).contains(p);
                let q = with_state(p, flip(p.s, v));
                assert(w.contains(q));
                if eu.contains(q) {
                    assert(var_pre_of(g, v, eu).contains(p));
                    assert(pre_of(g, eu).contains(p));
                    assert(a.intersect(pre_of(g, eu)).contains(p));
                }
                assert(t.contains(q));
                assert(var_pre_of(g, v, t).contains(p));
                assert(pre_of(g, t).contains(p));
            } else {
                assert(w.intersect(l).contains(p));
                assert(t.intersect(l).contains(p));
            }
        }
    }
    assert(t.subset_of(eg));
    assert forall|p: Pt| neg(g, x).contains(p) <==> ew_spec(g, a0, b0, l).contains(p) by {
        if neg(g, x).contains(p) {
            if !eu.contains(p) { assert(t.contains(p)); }
        }
        if eu.union(eg).contains(p) {
            assert(u.contains(p));
            assert(!y.contains(p));
        }
    }
}

// extracted: src/evaluation/hctl_operators_eval.rs :: eval_neg
#[verifier::exec_allows_no_decreases_clause]
pub fn eval_neg(graph: &SymbolicAsyncGraph, set: &GraphColoredVertices) -> (r: GraphColoredVertices)
    ensures gv(&r) == neg(graph, gv(set))
{
    let unit_set = graph.mk_unit_colored_vertices();
    unit_set.minus(set)
}

// extracted: src/evaluation/hctl_operators_eval.rs :: eval_imp
#[verifier::exec_allows_no_decreases_clause]
pub fn eval_imp(
    graph: &SymbolicAsyncGraph,
    left: &GraphColoredVertices,
    right: &GraphColoredVertices,
) -> (r: GraphColoredVertices)
    ensures gv(&r) == neg(graph, gv(left)).union(gv(right))
{
    eval_neg(graph, left).union(right)
}

// extracted: src/evaluation/hctl_operators_eval.rs :: eval_equiv
#[verifier::exec_allows_no_decreases_clause]
pub fn eval_equiv(
    graph: &SymbolicAsyncGraph,
    left: &GraphColoredVertices,
    right: &GraphColoredVertices,
) -> (r: GraphColoredVertices)
    ensures gv(&r) == gv(left).intersect(gv(right)).union(neg(graph, gv(left)).intersect(neg(graph, gv(right))))
{
    left.intersect(right)
        .union(&eval_neg(graph, left).intersect(&eval_neg(graph, right)))
}

// extracted: src/evaluation/hctl_operators_eval.rs :: eval_xor
#[verifier::exec_allows_no_decreases_clause]
pub fn eval_xor(
    graph: &SymbolicAsyncGraph,
    left: &GraphColoredVertices,
    right: &GraphColoredVertices,
) -> (r: GraphColoredVertices)
    ensures gv(&r) == neg(graph, gv(left).intersect(gv(right)).union(neg(graph, gv(left)).intersect(neg(graph, gv(right)))))
{
    eval_neg(graph, &eval_equiv(graph, left, right))
}

// extracted: src/evaluation/hctl_operators_eval.rs :: eval_ex
#[verifier::exec_allows_no_decreases_clause]
pub fn eval_ex(
    graph: &SymbolicAsyncGraph,
    phi: &GraphColoredVertices,
    self_loop_states: &GraphColoredVertices,
) -> (r: GraphColoredVertices)
    ensures gv(&r) == ex_l(graph, gv(phi), gv(self_loop_states))
{
    graph.pre(phi).union(&phi.intersect(self_loop_states))
}

// extracted: src/evaluation/hctl_operators_eval.rs :: eval_ax
#[verifier::exec_allows_no_decreases_clause]
pub fn eval_ax(
    graph: &SymbolicAsyncGraph,
    phi: &GraphColoredVertices,
    self_loop_states: &GraphColoredVertices,
) -> (r: GraphColoredVertices)
    ensures gv(&r) == ax_l(graph, gv(phi), gv(self_loop_states))
{
    eval_neg(
        graph,
        &eval_ex(graph, &eval_neg(graph, phi), self_loop_states),
    )
}

// extracted: src/evaluation/hctl_operators_eval.rs :: eval_eg
#[verifier::exec_allows_no_decreases_clause]
pub fn eval_eg(
    graph: &SymbolicAsyncGraph,
    phi: &GraphColoredVertices,
    self_loop_states: &GraphColoredVertices,
) -> (r: GraphColoredVertices)
    ensures gv(&r) == eg_of(graph, gv(phi), gv(self_loop_states))
{
    let mut old_set = phi.clone();
    let mut new_set = graph.mk_empty_colored_vertices();

    while old_set != new_set
        invariant
            gv(&old_set).subset_of(gv(phi)),
            forall|z: ISet<Pt>| eg_dense(graph, gv(phi), gv(self_loop_states), z) ==> z.subset_of(gv(&old_set)),
            gv(&old_set) == gv(phi) || gv(&old_set) == gv(&new_set).intersect(ex_l(graph, gv(&new_set), gv(self_loop_states))),
            gv(&old_set) == gv(phi) ==> (gv(&new_set) == ISet::<Pt>::empty() || gv(&old_set) == gv(&new_set).intersect(ex_l(graph, gv(&new_set), gv(self_loop_states)))),
    {
        new_set = old_set.clone();
        let ghost prev = gv(&old_set);
        old_set = old_set.intersect(&eval_ex(graph, &old_set, self_loop_states));
        proof {
            assert forall|z: ISet<Pt>| eg_dense(graph, gv(phi), gv(self_loop_states), z) implies z.subset_of(gv(&old_set)) by {
                assert(z.subset_of(prev));
                lemma_pre_mono(graph, z, prev);
            }
        }
    }
    proof {
        assert forall|p: Pt| gv(&old_set).contains(p) <==> eg_of(graph, gv(phi), gv(self_loop_states)).contains(p) by {
            if gv(&old_set).contains(p) {
                assert(eg_dense(graph, gv(phi), gv(self_loop_states), gv(&old_set)));
            }
            if eg_of(graph, gv(phi), gv(self_loop_states)).contains(p) {
                let z = choose|z: ISet<Pt>| eg_dense(graph, gv(phi), gv(self_loop_states), z) && #[trigger] z.contains(p);
                assert(z.subset_of(gv(&old_set)));
            }
        }
        assert(gv(&old_set) =~= eg_of(graph, gv(phi), gv(self_loop_states)));
    }
    old_set
}

// extracted: src/evaluation/hctl_operators_eval.rs :: eval_af
#[verifier::exec_allows_no_decreases_clause]
pub fn eval_af(
    graph: &SymbolicAsyncGraph,
    phi: &GraphColoredVertices,
    self_loop_states: &GraphColoredVertices,
) -> (r: GraphColoredVertices)
    ensures gv(&r) == af_of(graph, gv(phi), gv(self_loop_states))
{
    eval_neg(
        graph,
        &eval_eg(
            graph,
            &eval_neg(graph, phi),
            self_loop_states),
    )
}

// extracted: src/evaluation/hctl_operators_eval.rs :: eval_eu_saturated
#[verifier::exec_allows_no_decreases_clause]
pub fn eval_eu_saturated(
    graph: &SymbolicAsyncGraph,
    phi1: &GraphColoredVertices,
    phi2: &GraphColoredVertices,
) -> (r: GraphColoredVertices)
    ensures gv(&r) == eu_of(graph, gv(phi1), gv(phi2))
{
    // TODO: for generating predecessors, check if including self-loops really is not needed
    let mut result = phi2.clone();
    let mut done = false;
    while !done
        invariant
            gv(phi2).subset_of(gv(&result)),
            forall|z: ISet<Pt>| eu_closed(graph, gv(phi1), gv(phi2), z) ==> gv(&result).subset_of(z),
            done ==> (forall|v: int| 0 <= v < dim_n() ==> gv(phi1).intersect(#[trigger] var_pre_of(graph, v, gv(&result))).subset_of(gv(&result))),
    {
        done = true;
        let mut it_ = graph.variables().rev();
        loop
            invariant
                gv(phi2).subset_of(gv(&result)),
                forall|z: ISet<Pt>| eu_closed(graph, gv(phi1), gv(phi2), z) ==> gv(&result).subset_of(z),
                -1 <= rit_next(&it_) < dim_n(),
                done ==> (forall|v: int| rit_next(&it_) < v < dim_n() ==> gv(phi1).intersect(#[trigger] var_pre_of(graph, v, gv(&result))).subset_of(gv(&result))),
            ensures
                done ==> (forall|v: int| 0 <= v < dim_n() ==> gv(phi1).intersect(#[trigger] var_pre_of(graph, v, gv(&result))).subset_of(gv(&result))),
        {
            let var = match it_.next() { Some(x_) => x_, None => break };
            let update = phi1.intersect(&graph.var_pre(var, &result)).minus(&result);
            if !update.is_empty() {
                proof {
                    let ghost res0 = gv(&result);
                    assert forall|z: ISet<Pt>| eu_closed(graph, gv(phi1), gv(phi2), z) implies gv(&result).union(gv(&update)).subset_of(z) by {
                        assert(gv(&result).subset_of(z));
                        lemma_var_pre_mono(graph, vid(var), gv(&result), z);
                        lemma_var_pre_in_pre(graph, vid(var), z);
                    }
                }
                result = result.union(&update);
                done = false;
                break;
            }
            proof {
                assert(gv(&update) == ISet::<Pt>::empty());
                assert(gv(phi1).intersect(var_pre_of(graph, vid(var), gv(&result))).subset_of(gv(&result))) by {
                    assert forall|p: Pt| gv(phi1).intersect(var_pre_of(graph, vid(var), gv(&result))).contains(p) implies gv(&result).contains(p) by {
                        if !gv(&result).contains(p) { assert(gv(&update).contains(p)); }
                    }
                }
            }
        }
    }
    proof {
        // result is closed, hence contains the least closed set; and it is below every closed set
        assert(eu_closed(graph, gv(phi1), gv(phi2), gv(&result))) by {
            assert forall|p: Pt| gv(phi1).intersect(pre_of(graph, gv(&result))).contains(p) implies gv(&result).contains(p) by {
                let v = choose|v: int| 0 <= v < dim_n() && #[trigger] var_pre_of(graph, v, gv(&result)).contains(p);
                assert(gv(phi1).intersect(var_pre_of(graph, v, gv(&result))).contains(p));
            }
        }
        assert forall|p: Pt| gv(&result).contains(p) <==> eu_of(graph, gv(phi1), gv(phi2)).contains(p) by {
            if gv(&result).contains(p) {
                assert forall|z: ISet<Pt>| eu_closed(graph, gv(phi1), gv(phi2), z) implies #[trigger] z.contains(p) by {
                    assert(gv(&result).subset_of(z));
                }
            }
            if eu_of(graph, gv(phi1), gv(phi2)).contains(p) {
                assert(gv(&result).contains(p));
            }
        }
        assert(gv(&result) =~= eu_of(graph, gv(phi1), gv(phi2)));
    }
    result
}

// extracted: src/evaluation/hctl_operators_eval.rs :: eval_ef_saturated
#[verifier::exec_allows_no_decreases_clause]
pub fn eval_ef_saturated(
    graph: &SymbolicAsyncGraph,
    phi: &GraphColoredVertices,
) -> (r: GraphColoredVertices)
    ensures gv(&r) == ef_of(graph, gv(phi))
{
    let unit_set = graph.mk_unit_colored_vertices();
    eval_eu_saturated(graph, &unit_set, phi)
}

// extracted: src/evaluation/hctl_operators_eval.rs :: eval_ag
#[verifier::exec_allows_no_decreases_clause]
pub fn eval_ag(
    graph: &SymbolicAsyncGraph,
    phi: &GraphColoredVertices,
) -> (r: GraphColoredVertices)
    ensures gv(&r) == ag_of(graph, gv(phi))
{
    eval_neg(
        graph,
        &eval_ef_saturated(graph, &eval_neg(graph, phi)),
    )
}

// extracted: src/evaluation/hctl_operators_eval.rs :: eval_au
#[verifier::exec_allows_no_decreases_clause]
pub fn eval_au(
    graph: &SymbolicAsyncGraph,
    phi1: &GraphColoredVertices,
    phi2: &GraphColoredVertices,
    self_loop_states: &GraphColoredVertices,
) -> (r: GraphColoredVertices)
    requires gv(phi2) != ISet::<Pt>::empty() || gv(phi1).intersect(ax_l(graph, ISet::<Pt>::empty(), gv(self_loop_states))) == ISet::<Pt>::empty()
    ensures gv(&r) == au_of(graph, gv(phi1), gv(phi2), gv(self_loop_states))
{
    let mut old_set = phi2.clone();
    let mut new_set = graph.mk_empty_colored_vertices();

    while old_set != new_set
        invariant
            gv(phi2).subset_of(gv(&old_set)),
            forall|z: ISet<Pt>| au_closed(graph, gv(phi1), gv(phi2), gv(self_loop_states), z) ==> gv(&old_set).subset_of(z),
            gv(&old_set) == gv(phi2) || gv(&old_set) == gv(&new_set).union(gv(phi1).intersect(ax_l(graph, gv(&new_set), gv(self_loop_states)))),
            gv(&old_set) == gv(phi2) ==> (gv(&new_set) == ISet::<Pt>::empty() || gv(&old_set) == gv(&new_set).union(gv(phi1).intersect(ax_l(graph, gv(&new_set), gv(self_loop_states))))),
    {
        new_set = old_set.clone();
        let ghost prev = gv(&old_set);
        old_set = old_set.union(&phi1.intersect(&eval_ax(graph, &old_set, self_loop_states)));
        proof {
            assert forall|z: ISet<Pt>| au_closed(graph, gv(phi1), gv(phi2), gv(self_loop_states), z) implies gv(&old_set).subset_of(z) by {
                assert(prev.subset_of(z));
                lemma_ax_mono(graph, prev, z, gv(self_loop_states));
            }
        }
    }
    proof {
        let l = gv(self_loop_states);
        if gv(&old_set) == gv(phi2) && gv(&new_set) == ISet::<Pt>::empty() {
        }
        assert(au_closed(graph, gv(phi1), gv(phi2), l, gv(&old_set)));
        assert forall|p: Pt| gv(&old_set).contains(p) <==> au_of(graph, gv(phi1), gv(phi2), l).contains(p) by {
            if gv(&old_set).contains(p) {
                assert forall|z: ISet<Pt>| au_closed(graph, gv(phi1), gv(phi2), l, z) implies #[trigger] z.contains(p) by {
                    assert(gv(&old_set).subset_of(z));
                }
            }
            if au_of(graph, gv(phi1), gv(phi2), l).contains(p) {
                assert(au_closed(graph, gv(phi1), gv(phi2), l, gv(&old_set)));
            }
        }
        assert(gv(&old_set) =~= au_of(graph, gv(phi1), gv(phi2), l));
    }
    old_set
}

// extracted: src/evaluation/hctl_operators_eval.rs :: eval_ew
#[verifier::exec_allows_no_decreases_clause]
pub fn eval_ew(
    graph: &SymbolicAsyncGraph,
    phi1: &GraphColoredVertices,
    phi2: &GraphColoredVertices,
    self_loop_states: &GraphColoredVertices,
) -> (r: GraphColoredVertices)
    requires wf_graph(graph), loops_total(graph, gv(self_loop_states))
    ensures gv(&r) == ew_spec(graph, gv(phi1), gv(phi2), gv(self_loop_states))
{
    proof { lemma_ew_duality(graph, gv(phi1), gv(phi2), gv(self_loop_states)); lemma_total_ax_empty(graph, gv(self_loop_states)); assert forall|x: ISet<Pt>| #[trigger] x.intersect(ax_l(graph, ISet::<Pt>::empty(), gv(self_loop_states))) == ISet::<Pt>::empty() by { assert(x.intersect(ISet::<Pt>::empty()) =~= ISet::<Pt>::empty()); } }
    eval_neg(
        graph,
        &eval_au(
            graph,
            &eval_neg(graph, phi2),
            &eval_neg(graph, phi1).intersect(&eval_neg(graph, phi2)),
            self_loop_states),
    )
}

// extracted: src/evaluation/hctl_operators_eval.rs :: eval_aw
#[verifier::exec_allows_no_decreases_clause]
pub fn eval_aw(
    graph: &SymbolicAsyncGraph,
    phi1: &GraphColoredVertices,
    phi2: &GraphColoredVertices,
) -> (r: GraphColoredVertices)
    ensures gv(&r) == aw_spec(graph, gv(phi1), gv(phi2))
{
    eval_neg(
        graph,
        &eval_eu_saturated(
            graph,
            &eval_neg(graph, phi2),
            &eval_neg(graph, phi1).intersect(&eval_neg(graph, phi2))),
    )
}

fn main() {}
} // verus!
