// ---------------- spec layer: CTL operators over an abstract coloured transition system ----------------
pub open spec fn neg(g: &SymbolicAsyncGraph, z: ISet<Pt>) -> ISet<Pt> { unit_of(g).difference(z) }
pub open spec fn ex_l(g: &SymbolicAsyncGraph, z: ISet<Pt>, l: ISet<Pt>) -> ISet<Pt> { pre_of(g, z).union(z.intersect(l)) }
pub open spec fn ax_l(g: &SymbolicAsyncGraph, z: ISet<Pt>, l: ISet<Pt>) -> ISet<Pt> { neg(g, ex_l(g, neg(g, z), l)) }
// E[a U b]: least z with  b ∪ (a ∩ pre(z)) ⊆ z
pub open spec fn eu_closed(g: &SymbolicAsyncGraph, a: ISet<Pt>, b: ISet<Pt>, z: ISet<Pt>) -> bool {
    b.subset_of(z) && a.intersect(pre_of(g, z)).subset_of(z)
}
pub open spec fn eu_of(g: &SymbolicAsyncGraph, a: ISet<Pt>, b: ISet<Pt>) -> ISet<Pt> {
    ISet::new(|p: Pt| forall|z: ISet<Pt>| eu_closed(g, a, b, z) ==> #[trigger] z.contains(p))
}
// EG a (self-loops l): greatest z with z ⊆ a ∩ EX_l(z)
pub open spec fn eg_dense(g: &SymbolicAsyncGraph, a: ISet<Pt>, l: ISet<Pt>, z: ISet<Pt>) -> bool {
    z.subset_of(a) && z.subset_of(ex_l(g, z, l))
}
pub open spec fn eg_of(g: &SymbolicAsyncGraph, a: ISet<Pt>, l: ISet<Pt>) -> ISet<Pt> {
    ISet::new(|p: Pt| exists|z: ISet<Pt>| eg_dense(g, a, l, z) && #[trigger] z.contains(p))
}
// A[a U b] (self-loops l): least z with b ∪ (a ∩ AX_l(z)) ⊆ z
pub open spec fn au_closed(g: &SymbolicAsyncGraph, a: ISet<Pt>, b: ISet<Pt>, l: ISet<Pt>, z: ISet<Pt>) -> bool {
    b.subset_of(z) && a.intersect(ax_l(g, z, l)).subset_of(z)
}
pub open spec fn au_of(g: &SymbolicAsyncGraph, a: ISet<Pt>, b: ISet<Pt>, l: ISet<Pt>) -> ISet<Pt> {
    ISet::new(|p: Pt| forall|z: ISet<Pt>| au_closed(g, a, b, l, z) ==> #[trigger] z.contains(p))
}
pub open spec fn ef_of(g: &SymbolicAsyncGraph, a: ISet<Pt>) -> ISet<Pt> { eu_of(g, unit_of(g), a) }
pub open spec fn ag_of(g: &SymbolicAsyncGraph, a: ISet<Pt>) -> ISet<Pt> { neg(g, ef_of(g, neg(g, a))) }
pub open spec fn af_of(g: &SymbolicAsyncGraph, a: ISet<Pt>, l: ISet<Pt>) -> ISet<Pt> { neg(g, eg_of(g, neg(g, a), l)) }
// weak until, as the property states it
pub open spec fn ew_of(g: &SymbolicAsyncGraph, a: ISet<Pt>, b: ISet<Pt>, l: ISet<Pt>) -> ISet<Pt> { eu_of(g, a, b).union(eg_of(g, a, l)) }
pub open spec fn aw_of(g: &SymbolicAsyncGraph, a: ISet<Pt>, b: ISet<Pt>) -> ISet<Pt> { neg(g, eu_of(g, neg(g, b), neg(g, a).intersect(neg(g, b)))) }

pub proof fn lemma_pre_mono(g: &SymbolicAsyncGraph, x: ISet<Pt>, y: ISet<Pt>)
    requires x.subset_of(y)
    ensures pre_of(g, x).subset_of(pre_of(g, y))
{
    assert forall|p: Pt| pre_of(g, x).contains(p) implies pre_of(g, y).contains(p) by {
        let v = choose|v: int| 0 <= v < dim_n() && #[trigger] var_pre_of(g, v, x).contains(p);
        assert(var_pre_of(g, v, y).contains(p));
    }
}
