// PROBE: stub model of the lib-param-bn / lib-bdd API surface used by
// src/evaluation/{hctl_operators_eval,low_level_operations}.rs, with assumed contracts (TRUSTED).
use vstd::prelude::*;

// ---------------- opaque stand-ins (never executed) ----------------
pub struct Bdd { _p: u8 }
#[derive(Clone, Copy)]
pub struct BddVariable { _p: u16 }
pub struct BddVariableSet { _p: u8 }
pub struct SymbolicContext { _p: u8 }
pub struct SymbolicAsyncGraph { _p: u8 }
pub struct GraphColoredVertices { _p: u8 }
pub struct BooleanNetwork { _p: u8 }
#[derive(Clone, Copy)]
pub struct VariableId { _p: usize }
pub struct VariableIdIterator { _p: usize }
pub struct VariableIdRevIterator { _p: usize }


// ---------------- API surface (bodies never run) ----------------
impl GraphColoredVertices {
    pub fn new(_bdd: Bdd, _ctx: &SymbolicContext) -> Self { unimplemented!() }
    pub fn as_bdd(&self) -> &Bdd { unimplemented!() }
    pub fn into_bdd(self) -> Bdd { unimplemented!() }
    pub fn union(&self, _o: &Self) -> Self { unimplemented!() }
    pub fn intersect(&self, _o: &Self) -> Self { unimplemented!() }
    pub fn minus(&self, _o: &Self) -> Self { unimplemented!() }
    pub fn is_empty(&self) -> bool { unimplemented!() }
    pub fn is_subset(&self, _o: &Self) -> bool { unimplemented!() }
}
impl Clone for GraphColoredVertices { fn clone(&self) -> Self { unimplemented!() } }
impl PartialEq for GraphColoredVertices { fn eq(&self, _o: &Self) -> bool { unimplemented!() } }
impl Clone for Bdd { fn clone(&self) -> Self { unimplemented!() } }
impl Bdd {
    pub fn and(&self, _o: &Bdd) -> Bdd { unimplemented!() }
    pub fn iff(&self, _o: &Bdd) -> Bdd { unimplemented!() }
    pub fn exists(&self, _vars: &[BddVariable]) -> Bdd { unimplemented!() }
}
impl BddVariableSet { pub fn mk_var_by_name(&self, _name: &str) -> Bdd { unimplemented!() } }
impl Clone for SymbolicContext { fn clone(&self) -> Self { unimplemented!() } }
impl SymbolicContext {
    pub fn bdd_variable_set(&self) -> &BddVariableSet { unimplemented!() }
    pub fn extra_state_variables(&self, _v: VariableId) -> &Vec<BddVariable> { unimplemented!() }
    pub fn state_variables(&self) -> &Vec<BddVariable> { unimplemented!() }
    pub fn find_network_variable(&self, _name: &str) -> Option<VariableId> { unimplemented!() }
    pub fn mk_state_variable_is_true(&self, _v: VariableId) -> Bdd { unimplemented!() }
}
impl SymbolicAsyncGraph {
    pub fn symbolic_context(&self) -> &SymbolicContext { unimplemented!() }
    pub fn mk_unit_colored_vertices(&self) -> GraphColoredVertices { unimplemented!() }
    pub fn unit_colored_vertices(&self) -> &GraphColoredVertices { unimplemented!() }
    pub fn mk_empty_colored_vertices(&self) -> GraphColoredVertices { unimplemented!() }
    pub fn pre(&self, _s: &GraphColoredVertices) -> GraphColoredVertices { unimplemented!() }
    pub fn var_pre(&self, _v: VariableId, _s: &GraphColoredVertices) -> GraphColoredVertices { unimplemented!() }
    pub fn variables(&self) -> VariableIdIterator { unimplemented!() }
    pub fn get_variable_name(&self, _v: VariableId) -> String { unimplemented!() }
    pub fn as_network(&self) -> Option<&BooleanNetwork> { unimplemented!() }
    pub fn with_custom_context(_n: &BooleanNetwork, _c: SymbolicContext, _u: Bdd) -> Result<SymbolicAsyncGraph, String> { unimplemented!() }
}
impl VariableIdIterator {
    pub fn next(&mut self) -> Option<VariableId> { unimplemented!() }
    pub fn rev(self) -> VariableIdRevIterator { unimplemented!() }
}
impl VariableIdRevIterator { pub fn next(&mut self) -> Option<VariableId> { unimplemented!() } }

verus! {

// ---------------- abstract domain ----------------
pub struct Pt { pub s: Seq<bool>, pub c: int, pub e: Seq<Seq<bool>> }
pub uninterp spec fn dim_n() -> nat;   // number of network variables (ambient symbolic context)
pub uninterp spec fn dim_k() -> nat;   // number of extra copies (HCTL variable slots)
pub open spec fn shaped(p: Pt) -> bool {
    p.s.len() == dim_n() && p.e.len() == dim_k() && forall|k: int| 0 <= k < dim_k() ==> (#[trigger] p.e[k]).len() == dim_n()
}
pub open spec fn with_state(p: Pt, s: Seq<bool>) -> Pt { Pt { s: s, ..p } }
pub open spec fn with_slot(p: Pt, k: int, v: Seq<bool>) -> Pt { Pt { e: p.e.update(k, v), ..p } }
pub open spec fn flip(s: Seq<bool>, v: int) -> Seq<bool> { s.update(v, !s[v]) }

#[verifier::external_type_specification] #[verifier::external_body] pub struct ExBdd(Bdd);
#[verifier::external_type_specification] #[verifier::external_body] pub struct ExBddVariable(BddVariable);
#[verifier::external_type_specification] #[verifier::external_body] pub struct ExBddVariableSet(BddVariableSet);
#[verifier::external_type_specification] #[verifier::external_body] pub struct ExSymbolicContext(SymbolicContext);
#[verifier::external_type_specification] #[verifier::external_body] pub struct ExSymbolicAsyncGraph(SymbolicAsyncGraph);
#[verifier::external_type_specification] #[verifier::external_body] pub struct ExGraphColoredVertices(GraphColoredVertices);
#[verifier::external_type_specification] #[verifier::external_body] pub struct ExBooleanNetwork(BooleanNetwork);
#[verifier::external_type_specification] #[verifier::external_body] pub struct ExVariableId(VariableId);
#[verifier::external_type_specification] #[verifier::external_body] pub struct ExVariableIdIterator(VariableIdIterator);
#[verifier::external_type_specification] #[verifier::external_body] pub struct ExVariableIdRevIterator(VariableIdRevIterator);

pub uninterp spec fn bv(b: &Bdd) -> ISet<Pt>;                       // valuations satisfying a BDD
pub uninterp spec fn gv(s: &GraphColoredVertices) -> ISet<Pt>;      // same, for a coloured vertex set
pub uninterp spec fn unit_of(g: &SymbolicAsyncGraph) -> ISet<Pt>;
pub uninterp spec fn can_flip(g: &SymbolicAsyncGraph, v: int, s: Seq<bool>, c: int) -> bool;
pub uninterp spec fn vid(v: VariableId) -> int;
pub enum Role { State(int), Extra(int, int), Param(int) }
pub uninterp spec fn role(v: BddVariable) -> Role;

// every symbolic set only contains well-shaped valuations (BDD valuations are total over the variable set)
pub broadcast axiom fn axiom_gv_shaped(s: &GraphColoredVertices, p: Pt)
    requires #[trigger] gv(s).contains(p)
    ensures shaped(p);
pub broadcast axiom fn axiom_bv_shaped(b: &Bdd, p: Pt)
    requires #[trigger] bv(b).contains(p)
    ensures shaped(p);


// ---------------- assumed contracts: set algebra ----------------
pub assume_specification[ GraphColoredVertices::union ](a: &GraphColoredVertices, b: &GraphColoredVertices) -> (r: GraphColoredVertices)
    ensures gv(&r) == gv(a).union(gv(b));
pub assume_specification[ GraphColoredVertices::intersect ](a: &GraphColoredVertices, b: &GraphColoredVertices) -> (r: GraphColoredVertices)
    ensures gv(&r) == gv(a).intersect(gv(b));
pub assume_specification[ GraphColoredVertices::minus ](a: &GraphColoredVertices, b: &GraphColoredVertices) -> (r: GraphColoredVertices)
    ensures gv(&r) == gv(a).difference(gv(b));
pub assume_specification[ GraphColoredVertices::is_empty ](a: &GraphColoredVertices) -> (r: bool)
    ensures r <==> gv(a) == ISet::<Pt>::empty();
pub assume_specification[ <GraphColoredVertices as Clone>::clone ](a: &GraphColoredVertices) -> (r: GraphColoredVertices)
    ensures gv(&r) == gv(a);
pub assume_specification[ <GraphColoredVertices as PartialEq>::eq ](a: &GraphColoredVertices, b: &GraphColoredVertices) -> (r: bool)
    ensures r <==> gv(a) == gv(b);
pub assume_specification[ GraphColoredVertices::new ](bdd: Bdd, ctx: &SymbolicContext) -> (r: GraphColoredVertices)
    ensures gv(&r) == bv(&bdd);
pub assume_specification[ GraphColoredVertices::as_bdd ](a: &GraphColoredVertices) -> (r: &Bdd)
    ensures bv(r) == gv(a);
pub assume_specification[ GraphColoredVertices::into_bdd ](a: GraphColoredVertices) -> (r: Bdd)
    ensures bv(&r) == gv(&a);
pub assume_specification[ <Bdd as Clone>::clone ](a: &Bdd) -> (r: Bdd)
    ensures bv(&r) == bv(a);
pub assume_specification[ Bdd::and ](a: &Bdd, b: &Bdd) -> (r: Bdd)
    ensures bv(&r) == bv(a).intersect(bv(b));
pub assume_specification[ Bdd::iff ](a: &Bdd, b: &Bdd) -> (r: Bdd)
    ensures forall|p: Pt| #[trigger] bv(&r).contains(p) <==> shaped(p) && (bv(a).contains(p) <==> bv(b).contains(p));

// ---------------- assumed contracts: variables and projections ----------------
pub open spec fn coord(p: Pt, r: Role) -> bool {
    match r { Role::State(i) => p.s[i], Role::Extra(i, k) => p.e[k][i], Role::Param(_) => false }
}
// p and q agree on the colour and on every state / extra coordinate whose role is not in `roles`
pub open spec fn same_except(p: Pt, q: Pt, roles: Set<Role>) -> bool {
    &&& p.c == q.c
    &&& forall|i: int| 0 <= i < dim_n() && !roles.contains(Role::State(i)) ==> p.s[i] == q.s[i]
    &&& forall|i: int, k: int| 0 <= i < dim_n() && 0 <= k < dim_k() && !roles.contains(Role::Extra(i, k)) ==> #[trigger] p.e[k][i] == q.e[k][i]
}
pub open spec fn roles_of(vars: Seq<BddVariable>) -> Set<Role> { vars.map_values(|v: BddVariable| role(v)).to_set() }
pub open spec fn no_params(vars: Seq<BddVariable>) -> bool { forall|j: int| 0 <= j < vars.len() ==> !(role(#[trigger] vars[j]) is Param) }
pub assume_specification[ Bdd::exists ](a: &Bdd, vars: &[BddVariable]) -> (r: Bdd)
    requires no_params(vars@)   // (the repo never projects parameter variables; the contract is only given for that case)
    ensures forall|p: Pt| #[trigger] bv(&r).contains(p) <==> shaped(p) && exists|q: Pt| bv(a).contains(q) && same_except(p, q, roles_of(vars@));

pub uninterp spec fn var_name(i: int) -> Seq<char>;         // name of network variable i
pub uninterp spec fn dec(k: int) -> Seq<char>;              // decimal rendering used by format!("{}", k)
pub open spec fn extra_name(i: int, k: int) -> Seq<char> { var_name(i) + "_extra_"@ + dec(k) }
pub uninterp spec fn name_role(name: Seq<char>) -> Option<Role>;   // BDD variable with that name, if any
pub broadcast axiom fn axiom_names_state(i: int)
    requires 0 <= i < dim_n()
    ensures #[trigger] name_role(var_name(i)) == Some(Role::State(i));
pub broadcast axiom fn axiom_names_extra(i: int, k: int)      // lib-param-bn: with_extra_state_variables names them "{var}_extra_{k}"
    requires 0 <= i < dim_n(), 0 <= k < dim_k()
    ensures #[trigger] name_role(extra_name(i, k)) == Some(Role::Extra(i, k));

pub assume_specification[ BddVariableSet::mk_var_by_name ](s: &BddVariableSet, name: &str) -> (r: Bdd)
    requires name_role(name@) is Some          // panics otherwise
    ensures forall|p: Pt| #[trigger] bv(&r).contains(p) <==> shaped(p) && coord(p, name_role(name@)->0);
pub assume_specification[ SymbolicContext::bdd_variable_set ](c: &SymbolicContext) -> (r: &BddVariableSet);
pub assume_specification[ SymbolicContext::extra_state_variables ](c: &SymbolicContext, v: VariableId) -> (r: &Vec<BddVariable>)
    requires 0 <= vid(v) < dim_n()
    ensures r@.len() == dim_k(), forall|k: int| 0 <= k < dim_k() ==> role(#[trigger] r@[k]) == Role::Extra(vid(v), k);
pub assume_specification[ SymbolicContext::state_variables ](c: &SymbolicContext) -> (r: &Vec<BddVariable>)
    ensures r@.len() == dim_n(), forall|i: int| 0 <= i < dim_n() ==> role(#[trigger] r@[i]) == Role::State(i);
pub uninterp spec fn prop_index(name: Seq<char>) -> Option<int>;
pub assume_specification[ SymbolicContext::find_network_variable ](c: &SymbolicContext, name: &str) -> (r: Option<VariableId>)
    ensures match r { Some(v) => prop_index(name@) == Some(vid(v)) && 0 <= vid(v) < dim_n(), None => prop_index(name@) is None };
pub assume_specification[ SymbolicContext::mk_state_variable_is_true ](c: &SymbolicContext, v: VariableId) -> (r: Bdd)
    requires 0 <= vid(v) < dim_n()
    ensures forall|p: Pt| #[trigger] bv(&r).contains(p) <==> shaped(p) && p.s[vid(v)];
pub assume_specification[ <SymbolicContext as Clone>::clone ](c: &SymbolicContext) -> (r: SymbolicContext);

// ---------------- assumed contracts: the symbolic asynchronous graph ----------------
// unit set: does not constrain the state coordinates (lib-param-bn: "unit_bdd should be a cartesian product ...";
// established by get_extended_symbolic_graph and preserved by restrict_stg_unit_bdd, see wf_graph)
pub open spec fn wf_graph(g: &SymbolicAsyncGraph) -> bool {
    &&& forall|p: Pt| #[trigger] unit_of(g).contains(p) ==> shaped(p)
    &&& forall|p: Pt, s: Seq<bool>| #![trigger unit_of(g).contains(with_state(p, s))] unit_of(g).contains(p) && s.len() == dim_n() ==> unit_of(g).contains(with_state(p, s))
}
pub open spec fn var_pre_of(g: &SymbolicAsyncGraph, v: int, z: ISet<Pt>) -> ISet<Pt> {
    ISet::new(|p: Pt| shaped(p) && can_flip(g, v, p.s, p.c) && z.contains(with_state(p, flip(p.s, v))))
}
pub open spec fn pre_of(g: &SymbolicAsyncGraph, z: ISet<Pt>) -> ISet<Pt> {
    ISet::new(|p: Pt| exists|v: int| 0 <= v < dim_n() && #[trigger] var_pre_of(g, v, z).contains(p))
}
pub assume_specification[ SymbolicAsyncGraph::symbolic_context ](g: &SymbolicAsyncGraph) -> (r: &SymbolicContext);
pub assume_specification[ SymbolicAsyncGraph::mk_unit_colored_vertices ](g: &SymbolicAsyncGraph) -> (r: GraphColoredVertices)
    ensures gv(&r) == unit_of(g);
pub assume_specification[ SymbolicAsyncGraph::unit_colored_vertices ](g: &SymbolicAsyncGraph) -> (r: &GraphColoredVertices)
    ensures gv(r) == unit_of(g);
pub assume_specification[ SymbolicAsyncGraph::mk_empty_colored_vertices ](g: &SymbolicAsyncGraph) -> (r: GraphColoredVertices)
    ensures gv(&r) == ISet::<Pt>::empty();
pub assume_specification[ SymbolicAsyncGraph::pre ](g: &SymbolicAsyncGraph, s: &GraphColoredVertices) -> (r: GraphColoredVertices)
    ensures gv(&r) == pre_of(g, gv(s));
pub assume_specification[ SymbolicAsyncGraph::var_pre ](g: &SymbolicAsyncGraph, v: VariableId, s: &GraphColoredVertices) -> (r: GraphColoredVertices)
    requires 0 <= vid(v) < dim_n()
    ensures gv(&r) == var_pre_of(g, vid(v), gv(s));
pub assume_specification[ SymbolicAsyncGraph::get_variable_name ](g: &SymbolicAsyncGraph, v: VariableId) -> (r: String)
    requires 0 <= vid(v) < dim_n()
    ensures r@ == var_name(vid(v));
// iteration over network variables: 0, 1, ..., n-1 (and reversed)
pub uninterp spec fn it_next(it: &VariableIdIterator) -> int;       // next index to be yielded
pub uninterp spec fn rit_next(it: &VariableIdRevIterator) -> int;   // next index to be yielded (counts down)
pub assume_specification[ SymbolicAsyncGraph::variables ](g: &SymbolicAsyncGraph) -> (r: VariableIdIterator)
    ensures it_next(&r) == 0;
pub assume_specification[ VariableIdIterator::next ](it: &mut VariableIdIterator) -> (r: Option<VariableId>)
    ensures
        it_next(old(it)) < dim_n() ==> (r matches Some(v) && vid(v) == it_next(old(it)) && it_next(final(it)) == it_next(old(it)) + 1),
        it_next(old(it)) >= dim_n() ==> r is None && it_next(final(it)) == it_next(old(it));
pub assume_specification[ VariableIdIterator::rev ](it: VariableIdIterator) -> (r: VariableIdRevIterator)
    requires it_next(&it) == 0
    ensures rit_next(&r) == dim_n() - 1;
pub assume_specification[ VariableIdRevIterator::next ](it: &mut VariableIdRevIterator) -> (r: Option<VariableId>)
    ensures
        rit_next(old(it)) >= 0 ==> (r matches Some(v) && vid(v) == rit_next(old(it)) && rit_next(final(it)) == rit_next(old(it)) - 1),
        rit_next(old(it)) < 0 ==> r is None && rit_next(final(it)) == rit_next(old(it));

// ---------------- spec layer: CTL operators over an abstract coloured transition system ----------------
pub open spec fn neg(g: &SymbolicAsyncGraph, z: ISet<Pt>) -> ISet<Pt> { unit_of(g).difference(z) }
pub open spec fn ex_l(g: &SymbolicAsyncGraph, z: ISet<Pt>, l: ISet<Pt>) -> ISet<Pt> { pre_of(g, z).union(z.intersect(l)) }
pub open spec fn ax_l(g: &SymbolicAsyncGraph, z: ISet<Pt>, l: ISet<Pt>) -> ISet<Pt> { neg(g, ex_l(g, neg(g, z), l)) }
// E[a U b]: least z with  b ∪ (a ∩ pre(z)) ⊆ z
pub open spec fn eu_closed(g: &SymbolicAsyncGraph, a: ISet<Pt>, b: ISet<Pt>, z: ISet<Pt>) -> bool {
    b.subset_of(z) && a.intersect(pre_of(g, z)).subset_of(z)
}
pub open spec fn eu_of(g: &SymbolicAsyncGraph, a: ISet<Pt>, b: ISet<Pt>) -> ISet<Pt> {
    ISet::new(|p: Pt| forall|z: ISet<Pt>| eu_closed(g, a, b, z) ==> #[trigger] z.contains(p))
}
// EG a (self-loops l): greatest z with z ⊆ a ∩ EX_l(z)
pub open spec fn eg_dense(g: &SymbolicAsyncGraph, a: ISet<Pt>, l: ISet<Pt>, z: ISet<Pt>) -> bool {
    z.subset_of(a) && z.subset_of(ex_l(g, z, l))
}
pub open spec fn eg_of(g: &SymbolicAsyncGraph, a: ISet<Pt>, l: ISet<Pt>) -> ISet<Pt> {
    ISet::new(|p: Pt| exists|z: ISet<Pt>| eg_dense(g, a, l, z) && #[trigger] z.contains(p))
}
// A[a U b] (self-loops l): least z with b ∪ (a ∩ AX_l(z)) ⊆ z
pub open spec fn au_closed(g: &SymbolicAsyncGraph, a: ISet<Pt>, b: ISet<Pt>, l: ISet<Pt>, z: ISet<Pt>) -> bool {
    b.subset_of(z) && a.intersect(ax_l(g, z, l)).subset_of(z)
}
pub open spec fn au_of(g: &SymbolicAsyncGraph, a: ISet<Pt>, b: ISet<Pt>, l: ISet<Pt>) -> ISet<Pt> {
    ISet::new(|p: Pt| forall|z: ISet<Pt>| au_closed(g, a, b, l, z) ==> #[trigger] z.contains(p))
}
pub open spec fn ef_of(g: &SymbolicAsyncGraph, a: ISet<Pt>) -> ISet<Pt> { eu_of(g, unit_of(g), a) }
pub open spec fn ag_of(g: &SymbolicAsyncGraph, a: ISet<Pt>) -> ISet<Pt> { neg(g, ef_of(g, neg(g, a))) }
pub open spec fn af_of(g: &SymbolicAsyncGraph, a: ISet<Pt>, l: ISet<Pt>) -> ISet<Pt> { neg(g, eg_of(g, neg(g, a), l)) }
// weak until, as the property states it
pub open spec fn ew_of(g: &SymbolicAsyncGraph, a: ISet<Pt>, b: ISet<Pt>, l: ISet<Pt>) -> ISet<Pt> { eu_of(g, a, b).union(eg_of(g, a, l)) }
pub open spec fn aw_of(g: &SymbolicAsyncGraph, a: ISet<Pt>, b: ISet<Pt>) -> ISet<Pt> { neg(g, eu_of(g, neg(g, b), neg(g, a).intersect(neg(g, b)))) }

pub proof fn lemma_pre_mono(g: &SymbolicAsyncGraph, x: ISet<Pt>, y: ISet<Pt>)
    requires x.subset_of(y)
    ensures pre_of(g, x).subset_of(pre_of(g, y))
{
    assert forall|p: Pt| pre_of(g, x).contains(p) implies pre_of(g, y).contains(p) by {
        let v = choose|v: int| 0 <= v < dim_n() && #[trigger] var_pre_of(g, v, x).contains(p);
        assert(var_pre_of(g, v, y).contains(p));
    }
}

pub open spec fn eq_state(p: Pt, k: int) -> bool { forall|i: int| 0 <= i < dim_n() ==> #[trigger] p.e[k][i] == p.s[i] }
pub open spec fn differ_slot(p: Pt, q: Pt, k: int) -> bool {
    p.c == q.c && p.s =~= q.s && forall|j: int| 0 <= j < dim_k() && j != k ==> #[trigger] p.e[j] =~= q.e[j]
}
pub open spec fn differ_state(p: Pt, q: Pt) -> bool { p.c == q.c && p.e =~= q.e }
pub open spec fn proj_slot(z: ISet<Pt>, k: int) -> ISet<Pt> { ISet::new(|p: Pt| shaped(p) && exists|q: Pt| z.contains(q) && differ_slot(p, q, k)) }
pub open spec fn proj_state(z: ISet<Pt>) -> ISet<Pt> { ISet::new(|p: Pt| shaped(p) && exists|q: Pt| z.contains(q) && differ_state(p, q)) }
pub open spec fn comparator_state(g: &SymbolicAsyncGraph, k: int) -> ISet<Pt> { ISet::new(|p: Pt| unit_of(g).contains(p) && eq_state(p, k)) }

// ---------------- "agree inside the universe" and the transfer lemmas ----------------
pub open spec fn agree(r: ISet<Pt>, s: ISet<Pt>, u: ISet<Pt>) -> bool { r.intersect(u) =~= s.intersect(u) }
pub open spec fn all_pts() -> ISet<Pt> { ISet::new(|p: Pt| shaped(p)) }
pub open spec fn co(z: ISet<Pt>) -> ISet<Pt> { all_pts().difference(z) }          // semantic complement
// the unit set does not constrain slot k (k is not a restricted in-scope variable)
pub open spec fn slot_free(g: &SymbolicAsyncGraph, k: int) -> bool {
    forall|p: Pt, q: Pt| #![trigger unit_of(g).contains(p), differ_slot(p, q, k)] unit_of(g).contains(p) && shaped(q) && differ_slot(p, q, k) ==> unit_of(g).contains(q)
}
// semantic operators (independent of any unit set)
pub open spec fn bind_sem(z: ISet<Pt>, k: int) -> ISet<Pt> { ISet::new(|p: Pt| shaped(p) && z.contains(with_slot(p, k, p.s))) }
pub open spec fn jump_sem(z: ISet<Pt>, k: int) -> ISet<Pt> { ISet::new(|p: Pt| shaped(p) && z.contains(with_state(p, p.e[k]))) }
pub open spec fn exists_sem(z: ISet<Pt>, k: int) -> ISet<Pt> { ISet::new(|p: Pt| shaped(p) && exists|v: Seq<bool>| v.len() == dim_n() && z.contains(with_slot(p, k, v))) }
pub open spec fn exists_dom_sem(z: ISet<Pt>, k: int, d: ISet<Pt>) -> ISet<Pt> {
    ISet::new(|p: Pt| shaped(p) && exists|v: Seq<bool>| v.len() == dim_n() && d.contains(with_state(p, v)) && z.contains(with_slot(p, k, v)))
}

pub proof fn lemma_shaped_with_slot(p: Pt, k: int, v: Seq<bool>)
    requires shaped(p), 0 <= k < dim_k(), v.len() == dim_n()
    ensures shaped(with_slot(p, k, v)), differ_slot(p, with_slot(p, k, v), k), with_slot(p, k, v).e[k] == v
{
    let q = with_slot(p, k, v);
    assert forall|j: int| 0 <= j < dim_k() implies (#[trigger] q.e[j]).len() == dim_n() by {
        if j == k { } else { assert(q.e[j] == p.e[j]); }
    }
}

pub proof fn lemma_neg_agree(g: &SymbolicAsyncGraph, r: ISet<Pt>, s: ISet<Pt>)
    requires wf_graph(g), agree(r, s, unit_of(g))
    ensures agree(neg(g, r), co(s), unit_of(g))
{
    let u = unit_of(g);
    assert forall|p: Pt| neg(g, r).intersect(u).contains(p) <==> co(s).intersect(u).contains(p) by {
        if u.contains(p) {
            assert(r.intersect(u).contains(p) <==> s.intersect(u).contains(p));
        }
    }
}

pub proof fn lemma_pre_agree(g: &SymbolicAsyncGraph, r: ISet<Pt>, s: ISet<Pt>)
    requires wf_graph(g), agree(r, s, unit_of(g))
    ensures agree(pre_of(g, r), pre_of(g, s), unit_of(g))
{
    let u = unit_of(g);
    assert forall|p: Pt| u.contains(p) implies (pre_of(g, r).contains(p) <==> pre_of(g, s).contains(p)) by {
        if pre_of(g, r).contains(p) {
            let v = choose|v: int| 0 <= v < dim_n() && #[trigger] var_pre_of(g, v, r).contains(p);
            let q = with_state(p, flip(p.s, v));
            assert(u.contains(q));
            assert(r.intersect(u).contains(q));
            assert(s.intersect(u).contains(q));
            assert(var_pre_of(g, v, s).contains(p));
        }
        if pre_of(g, s).contains(p) {
            let v = choose|v: int| 0 <= v < dim_n() && #[trigger] var_pre_of(g, v, s).contains(p);
            let q = with_state(p, flip(p.s, v));
            assert(u.contains(q));
            assert(s.intersect(u).contains(q));
            assert(r.intersect(u).contains(q));
            assert(var_pre_of(g, v, r).contains(p));
        }
    }
    assert forall|p: Pt| pre_of(g, r).intersect(u).contains(p) <==> pre_of(g, s).intersect(u).contains(p) by {}
}

pub proof fn lemma_eu_agree_half(g: &SymbolicAsyncGraph, r1: ISet<Pt>, r2: ISet<Pt>, s1: ISet<Pt>, s2: ISet<Pt>)
    requires wf_graph(g), agree(r1, s1, unit_of(g)), agree(r2, s2, unit_of(g))
    ensures eu_of(g, r1, r2).intersect(unit_of(g)).subset_of(eu_of(g, s1, s2))
{
    let u = unit_of(g);
    assert forall|p: Pt| eu_of(g, r1, r2).intersect(u).contains(p) implies eu_of(g, s1, s2).contains(p) by {
        assert forall|z: ISet<Pt>| eu_closed(g, s1, s2, z) implies #[trigger] z.contains(p) by {
            // z' = { q | q in u ==> q in z } is closed for (r1, r2)
            let z2 = ISet::new(|q: Pt| u.contains(q) ==> z.contains(q));
            assert(eu_closed(g, r1, r2, z2)) by {
                assert forall|q: Pt| r2.contains(q) implies z2.contains(q) by {
                    if u.contains(q) { assert(r2.intersect(u).contains(q)); assert(s2.intersect(u).contains(q)); }
                }
                assert forall|q: Pt| r1.intersect(pre_of(g, z2)).contains(q) implies z2.contains(q) by {
                    if u.contains(q) {
                        let v = choose|v: int| 0 <= v < dim_n() && #[trigger] var_pre_of(g, v, z2).contains(q);
                        let q2 = with_state(q, flip(q.s, v));
                        assert(u.contains(q2));
                        assert(z.contains(q2));
                        assert(var_pre_of(g, v, z).contains(q));
                        assert(pre_of(g, z).contains(q));
                        assert(r1.intersect(u).contains(q)); assert(s1.intersect(u).contains(q));
                        assert(s1.intersect(pre_of(g, z)).contains(q));
                    }
                }
            }
            assert(z2.contains(p));
        }
    }
}
pub proof fn lemma_eu_agree(g: &SymbolicAsyncGraph, r1: ISet<Pt>, r2: ISet<Pt>, s1: ISet<Pt>, s2: ISet<Pt>)
    requires wf_graph(g), agree(r1, s1, unit_of(g)), agree(r2, s2, unit_of(g))
    ensures agree(eu_of(g, r1, r2), eu_of(g, s1, s2), unit_of(g))
{
    lemma_eu_agree_half(g, r1, r2, s1, s2);
    lemma_eu_agree_half(g, s1, s2, r1, r2);
}

pub proof fn lemma_eg_agree_half(g: &SymbolicAsyncGraph, r: ISet<Pt>, s: ISet<Pt>, l: ISet<Pt>)
    requires wf_graph(g), agree(r, s, unit_of(g))
    ensures eg_of(g, r, l).intersect(unit_of(g)).subset_of(eg_of(g, s, l))
{
    let u = unit_of(g);
    assert forall|p: Pt| eg_of(g, r, l).intersect(u).contains(p) implies eg_of(g, s, l).contains(p) by {
        let z = choose|z: ISet<Pt>| eg_dense(g, r, l, z) && #[trigger] z.contains(p);
        let z2 = z.intersect(u);
        assert(eg_dense(g, s, l, z2)) by {
            assert forall|q: Pt| z2.contains(q) implies s.contains(q) && ex_l(g, z2, l).contains(q) by {
                assert(r.intersect(u).contains(q)); assert(s.intersect(u).contains(q));
                assert(ex_l(g, z, l).contains(q));
                if pre_of(g, z).contains(q) {
                    let v = choose|v: int| 0 <= v < dim_n() && #[trigger] var_pre_of(g, v, z).contains(q);
                    let q2 = with_state(q, flip(q.s, v));
                    assert(u.contains(q2));
                    assert(var_pre_of(g, v, z2).contains(q));
                    assert(pre_of(g, z2).contains(q));
                }
            }
        }
        assert(z2.contains(p));
    }
}

pub proof fn lemma_bind_agree(g: &SymbolicAsyncGraph, r: ISet<Pt>, s: ISet<Pt>, k: int)
    requires wf_graph(g), 0 <= k < dim_k(), slot_free(g, k), agree(r, s, unit_of(g))
    ensures agree(proj_slot(comparator_state(g, k).intersect(r), k), bind_sem(s, k), unit_of(g))
{
    let u = unit_of(g);
    assert forall|p: Pt| u.contains(p) implies (proj_slot(comparator_state(g, k).intersect(r), k).contains(p) <==> bind_sem(s, k).contains(p)) by {
        let p2 = with_slot(p, k, p.s);
        lemma_shaped_with_slot(p, k, p.s);
        assert(u.contains(p2));
        if proj_slot(comparator_state(g, k).intersect(r), k).contains(p) {
            let q = choose|q: Pt| comparator_state(g, k).intersect(r).contains(q) && differ_slot(p, q, k);
            assert(shaped(q));
            assert(q.e[k] =~= p.s);
            assert(q.e =~= p2.e) by {
                assert forall|j: int| 0 <= j < dim_k() implies q.e[j] == p2.e[j] by { if j != k { assert(p.e[j] =~= q.e[j]); } }
            }
            assert(q == p2);
            assert(r.intersect(u).contains(p2)); assert(s.intersect(u).contains(p2));
        }
        if bind_sem(s, k).contains(p) {
            assert(s.intersect(u).contains(p2)); assert(r.intersect(u).contains(p2));
            assert(eq_state(p2, k));
            assert(comparator_state(g, k).intersect(r).contains(p2));
        }
    }
    assert forall|p: Pt| proj_slot(comparator_state(g, k).intersect(r), k).intersect(u).contains(p) <==> bind_sem(s, k).intersect(u).contains(p) by {}
}

pub proof fn lemma_exists_agree(g: &SymbolicAsyncGraph, r: ISet<Pt>, s: ISet<Pt>, k: int)
    requires wf_graph(g), 0 <= k < dim_k(), slot_free(g, k), agree(r, s, unit_of(g)), forall|p: Pt| r.contains(p) ==> shaped(p)
    ensures agree(proj_slot(r, k), exists_sem(s, k), unit_of(g))
{
    let u = unit_of(g);
    assert forall|p: Pt| u.contains(p) implies (proj_slot(r, k).contains(p) <==> exists_sem(s, k).contains(p)) by {
        if proj_slot(r, k).contains(p) {
            let q = choose|q: Pt| r.contains(q) && differ_slot(p, q, k);
            assert(shaped(q));
            let v = q.e[k];
            let p2 = with_slot(p, k, v);
            lemma_shaped_with_slot(p, k, v);
            assert(q.e =~= p2.e) by {
                assert forall|j: int| 0 <= j < dim_k() implies q.e[j] == p2.e[j] by { if j != k { assert(p.e[j] =~= q.e[j]); } }
            }
            assert(q == p2);
            assert(u.contains(p2));
            assert(r.intersect(u).contains(p2)); assert(s.intersect(u).contains(p2));
        }
        if exists_sem(s, k).contains(p) {
            let v = choose|v: Seq<bool>| v.len() == dim_n() && s.contains(with_slot(p, k, v));
            let p2 = with_slot(p, k, v);
            lemma_shaped_with_slot(p, k, v);
            assert(u.contains(p2));
            assert(s.intersect(u).contains(p2)); assert(r.intersect(u).contains(p2));
        }
    }
    assert forall|p: Pt| proj_slot(r, k).intersect(u).contains(p) <==> exists_sem(s, k).intersect(u).contains(p) by {}
}

fn main() {}
} // verus!
