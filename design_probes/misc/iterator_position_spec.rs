use vstd::prelude::*;
use vstd::std_specs::iter::IteratorSpec;
verus! {
pub enum Tok { U(u8), A(u8) }

pub assume_specification<'a, T, P> [<std::slice::Iter<'a, T> as std::iter::Iterator>::position] (it: &mut std::slice::Iter<'a, T>, p: P) -> (r: std::option::Option<usize>)
    where P: std::ops::FnMut(&'a T) -> bool, std::slice::Iter<'a, T>: std::marker::Sized
    requires forall|x: &'a T| call_requires(p, (x,)),
    ensures match r {
        Some(i) => i < old(it).remaining().len()
            && call_ensures(p, (&old(it).remaining()[i as int],), true)
            && forall|j: int| 0 <= j < i ==> call_ensures(p, (&#[trigger] old(it).remaining()[j],), false),
        None => forall|j: int| 0 <= j < old(it).remaining().len() ==> call_ensures(p, (&#[trigger] old(it).remaining()[j],), false),
    };

fn is_unary(token: &Tok) -> (r: bool) ensures r == (token is U) { matches!(token, Tok::U(_)) }

fn index_of_first_unary(tokens: &[Tok]) -> (r: Option<usize>)
    ensures match r {
        Some(i) => i < tokens@.len() && tokens@[i as int] is U && forall|j: int| 0 <= j < i ==> !(#[trigger] tokens@[j] is U),
        None => forall|j: int| 0 <= j < tokens@.len() ==> !(#[trigger] tokens@[j] is U),
    }
{
    let mut it = tokens.iter();
    assert(it.remaining().len() == tokens@.len());
    assert(forall|j: int| 0 <= j < tokens@.len() ==> *(#[trigger] it.remaining()[j]) == tokens@[j]);
    let ghost rem = it.remaining();
    let r = it.position(is_unary);
    proof {
        match r {
            Some(i) => {
                assert(call_ensures(is_unary, (rem[i as int],), true));
                assert(*rem[i as int] is U);
                assert forall|j: int| 0 <= j < i implies !(#[trigger] tokens@[j] is U) by {
                    assert(call_ensures(is_unary, (rem[j],), false));
                }
            }
            None => {
                assert forall|j: int| 0 <= j < tokens@.len() implies !(#[trigger] tokens@[j] is U) by {
                    assert(call_ensures(is_unary, (rem[j],), false));
                }
            }
        }
    }
    r
}
fn main() {}
}
