#![feature(allocator_api)]
use vstd::prelude::*;
use std::iter::Peekable;
use std::str::Chars;
use std::collections::HashMap;
verus! {
#[verifier::external_body] fn chars_peekable<'a>(s: &'a str) -> (r: Peekable<Chars<'a>>) ensures rest(&r) == s@ { s.chars().peekable() }
pub type VarRenameMap = HashMap<String, String>;
#[verifier::external_type_specification]
#[verifier::external_body]
#[verifier::reject_recursive_types(I)]
pub struct ExPeekable<I: Iterator>(Peekable<I>);
pub uninterp spec fn rest<I: Iterator>(p: &Peekable<I>) -> Seq<I::Item>;
pub assume_specification<I: Iterator>[ <Peekable<I> as Iterator>::next ](p: &mut Peekable<I>) -> (r: Option<I::Item>)
    ensures
        rest(old(p)).len() == 0 ==> r is None && rest(final(p)) == rest(old(p)),
        rest(old(p)).len() > 0 ==> r == Some(rest(old(p))[0]) && rest(final(p)) == rest(old(p)).drop_first();
pub assume_specification<I: Iterator>[ Peekable::<I>::peek ](p: &mut Peekable<I>) -> (r: Option<&I::Item>)
    ensures rest(final(p)) == rest(old(p)),
        rest(old(p)).len() == 0 ==> r is None,
        rest(old(p)).len() > 0 ==> r == Some(&rest(old(p))[0]);

#[verifier::exec_allows_no_decreases_clause]
pub fn canonize_subform(
    mut subform_chars: Peekable<Chars>,
    mut renaming_map: VarRenameMap,
    mut canonical: String,
    mut stack_len: i32,
) -> (Peekable<Chars>, String, VarRenameMap, i32) {
    while let Some(ch) = subform_chars.next() {
        let mut should_return = false;
        match ch {
            // dive deeper by one level
            '(' => {
                canonical.push(ch);
                let tuple = canonize_subform(subform_chars, renaming_map, canonical, stack_len);
                subform_chars = tuple.0;
                canonical = tuple.1;
                renaming_map = tuple.2;
                stack_len = tuple.3;
            }
            // emerge back to upper level
            ')' => {
                canonical.push(ch);
                should_return = true;
            }
            // introduce new 'quantified' var (jump is not listed as it does not introduce vars)
            // distinguish situations where '3' or 'V' is quantifier and when part of some prop name
            '!' if subform_chars.peek() == Some(&'{') => {
                // move to the beginning of the var name (skip '{')
                subform_chars.next();
                let mut var_name = String::new();
                loop { let name_char = match subform_chars.next() { Some(x_) => x_, None => break };
                    if name_char == '}' {
                        break;
                    }
                    var_name.push(name_char);
                }

                // the rest of the quantifier-related characters (domain label, or just ':') are
                // handled as everything else in following iterations

                // insert new mapping to dict and push it all to canonical string
                renaming_map.insert(var_name.clone(), format!("var{stack_len}"));
                canonical.push_str(format!("{ch}{{var{stack_len}}}").as_str());
                stack_len += 1;
            }
            '3' if subform_chars.peek() == Some(&'{') => {
                // move to the beginning of the var name (skip '{')
                subform_chars.next();
                let mut var_name = String::new();
                loop { let name_char = match subform_chars.next() { Some(x_) => x_, None => break };
                    if name_char == '}' {
                        break;
                    }
                    var_name.push(name_char);
                }

                // the rest of the quantifier-related characters (domain label, or just ':') are
                // handled as everything else in following iterations

                // insert new mapping to dict and push it all to canonical string
                renaming_map.insert(var_name.clone(), format!("var{stack_len}"));
                canonical.push_str(format!("{ch}{{var{stack_len}}}").as_str());
                stack_len += 1;
            }
            'V' if subform_chars.peek() == Some(&'{') => {
                // move to the beginning of the var name (skip '{')
                subform_chars.next();
                let mut var_name = String::new();
                loop { let name_char = match subform_chars.next() { Some(x_) => x_, None => break };
                    if name_char == '}' {
                        break;
                    }
                    var_name.push(name_char);
                }

                // the rest of the quantifier-related characters (domain label, or just ':') are
                // handled as everything else in following iterations

                // insert new mapping to dict and push it all to canonical string
                renaming_map.insert(var_name.clone(), format!("var{stack_len}"));
                canonical.push_str(format!("{ch}{{var{stack_len}}}").as_str());
                stack_len += 1;
            }
            
            // rename existing var to canonical form, or handle free variables
            // this includes variable names which are part of the "jump operator"
            '{' => {
                let mut var_name = String::new();
                loop { let name_char = match subform_chars.next() { Some(x_) => x_, None => break };
                    if name_char == '}' {
                        break;
                    }
                    var_name.push(name_char);
                }

                // we must be prepared for free vars to appear (not bounded by hybrid operators)
                // it is because we are canonizing all subformulas in the tree
                if !renaming_map.contains_key(var_name.as_str()) {
                    renaming_map.insert(var_name.clone(), format!("var{stack_len}"));
                    stack_len += 1;
                }

                if let Some(canonical_name) = renaming_map.get(var_name.as_str()) {
                    canonical.push_str(format!("{{{canonical_name}}}").as_str());
                } else {
                    // This branch should never happen
                    
                }
            }
            // all the other characters, including boolean+temporal operators, '@', prop names
            _ => {
                canonical.push(ch);
            }
        }
        if should_return {
            break;
        }
    }
    (subform_chars, canonical, renaming_map, stack_len)
}

#[verifier::exec_allows_no_decreases_clause]
pub fn get_canonical(subform_string: String) -> String {
    let canonized_tuple = canonize_subform(
        chars_peekable(subform_string.as_str()),
        HashMap::new(),
        String::new(),
        0,
    );
    canonized_tuple.1
}

#[verifier::exec_allows_no_decreases_clause]
pub fn get_canonical_and_renaming(subform_string: String) -> (String, VarRenameMap) {
    let canonized_tuple = canonize_subform(
        chars_peekable(subform_string.as_str()),
        HashMap::new(),
        String::new(),
        0,
    );
    (canonized_tuple.1, canonized_tuple.2)
}
fn main() {}
}
