# minimal Rust-aware scanner (probe): skips strings, raw strings, chars, lifetimes, comments
import re
def scan_tokens(src, start=0):
    """yield (pos, kind, text) for structural chars; kind in {'punct','str','char','comment','other'}"""
    i=start; n=len(src)
    while i<n:
        c=src[i]
        if src.startswith('//',i):
            j=src.find('\n',i); j=n if j<0 else j
            yield (i,'comment',src[i:j]); i=j; continue
        if src.startswith('/*',i):
            d=1; j=i+2
            while j<n and d>0:
                if src.startswith('/*',j): d+=1; j+=2
                elif src.startswith('*/',j): d-=1; j+=2
                else: j+=1
            yield (i,'comment',src[i:j]); i=j; continue
        if c=='"':
            j=i+1
            while j<n and src[j]!='"':
                j+= 2 if src[j]=='\\' else 1
            yield (i,'str',src[i:j+1]); i=j+1; continue
        m=re.match(r'r(#*)"',src[i:])
        if m and (i==0 or not (src[i-1].isalnum() or src[i-1]=='_')):
            h=m.group(1); end=src.find('"'+h,i+len(m.group(0)))
            yield (i,'str',src[i:end+1+len(h)]); i=end+1+len(h); continue
        if c=="'":
            # char literal or lifetime
            m=re.match(r"'(\\.[^']*|[^\\'])'",src[i:])
            if m:
                yield (i,'char',m.group(0)); i+=len(m.group(0)); continue
            m=re.match(r"'[A-Za-z_][A-Za-z0-9_]*",src[i:])
            if m:
                yield (i,'other',m.group(0)); i+=len(m.group(0)); continue
        if c in '{}()[];,':
            yield (i,'punct',c); i+=1; continue
        i+=1
def find_fn(src,name):
    for m in re.finditer(r'(?:pub(?:\(crate\))? )?fn '+re.escape(name)+r'\b', src):
        # make sure not inside comment/string: cheap check by scanning from file start
        ok=True
        for pos,kind,text in scan_tokens(src):
            if pos>m.start(): break
            if kind in('comment','str') and pos<=m.start()<pos+len(text): ok=False
        if not ok: continue
        depth=0; body_start=None
        for pos,kind,text in scan_tokens(src,m.end()):
            if kind!='punct': continue
            if text=='{':
                if depth==0 and body_start is None: body_start=pos
                depth+=1
            elif text=='}':
                depth-=1
                if depth==0: return m.start(), body_start, pos+1
        return None
    return None
def replace_macro_calls(body, macro, repl):
    """replace `macro!( ... )` (balanced, string-aware) by repl"""
    out=[]; i=0
    while True:
        j=body.find(macro+'!(',i)
        if j<0: out.append(body[i:]); break
        out.append(body[i:j])
        depth=0; end=None
        for pos,kind,text in scan_tokens(body,j+len(macro)+1):
            if kind!='punct': continue
            if text=='(': depth+=1
            elif text==')':
                depth-=1
                if depth==0: end=pos+1; break
        out.append(repl); i=end
    return ''.join(out)
