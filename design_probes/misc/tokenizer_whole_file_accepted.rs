use vstd::prelude::*;
use std::iter::Peekable;
use std::str::Chars;
verus! {

pub enum UnaryOp { Not, EX, AX, EF, AF, EG, AG }
pub enum BinaryOp { And, Or, Xor, Imp, Iff, EU, AU, EW, AW }
pub enum HybridOp { Bind, Jump, Exists, Forall }
pub enum Atomic { Prop(String), Var(String), True, False, WildCardProp(String) }
pub enum HctlToken { Unary(UnaryOp), Binary(BinaryOp), Hybrid(HybridOp, String, Option<String>), Atom(Atomic), Tokens(Vec<HctlToken>) }

#[verifier::external_type_specification]
#[verifier::external_body]
#[verifier::reject_recursive_types(I)]
pub struct ExPeekable<I: Iterator>(Peekable<I>);
pub uninterp spec fn rest<I: Iterator>(p: &Peekable<I>) -> Seq<I::Item>;
pub assume_specification<I: Iterator>[ <Peekable<I> as Iterator>::next ](p: &mut Peekable<I>) -> (r: Option<I::Item>)
    ensures
        rest(old(p)).len() == 0 ==> r is None && rest(final(p)) == rest(old(p)),
        rest(old(p)).len() > 0 ==> r == Some(rest(old(p))[0]) && rest(final(p)) == rest(old(p)).drop_first();
pub assume_specification<I: Iterator>[ Peekable::<I>::peek ](p: &mut Peekable<I>) -> (r: Option<&I::Item>)
    ensures rest(final(p)) == rest(old(p)),
        rest(old(p)).len() == 0 ==> r is None,
        rest(old(p)).len() > 0 ==> r == Some(&rest(old(p))[0]);
pub uninterp spec fn alnum(c: char) -> bool;
pub assume_specification[ char::is_alphanumeric ](c: char) -> (r: bool) ensures r == alnum(c);
#[verifier::external_body] fn verif_msg() -> String { String::new() }
#[verifier::external_body] fn strcat3(c: char, c2: char, name: &String) -> (r: String) ensures r@ == seq![c, c2] + name@ { c.to_string() + c2.to_string().as_str() + name }
#[verifier::external_body] fn strcat2(c: char, name: &String) -> (r: String) ensures r@ == seq![c] + name@ { c.to_string() + name }

#[verifier::exec_allows_no_decreases_clause]
fn try_tokenize_recursive(
    input_chars: &mut Peekable<Chars>,
    top_level: bool,
    parse_wild_cards: bool,
) -> Result<Vec<HctlToken>, String> {
    let mut output = Vec::new();

    while let Some(c) = input_chars.next() {
        match c {
            c if c.is_whitespace() => {} // skip whitespace
            '~' => output.push(HctlToken::Unary(UnaryOp::Not)),
            '&' => output.push(HctlToken::Binary(BinaryOp::And)),
            '|' => output.push(HctlToken::Binary(BinaryOp::Or)),
            '^' => output.push(HctlToken::Binary(BinaryOp::Xor)),
            '=' => {
                if Some('>') == input_chars.next() {
                    output.push(HctlToken::Binary(BinaryOp::Imp));
                } else {
                    return Err(verif_msg());
                }
            }
            '<' => {
                if Some('=') == input_chars.next() {
                    if Some('>') == input_chars.next() {
                        output.push(HctlToken::Binary(BinaryOp::Iff));
                    } else {
                        return Err(verif_msg());
                    }
                } else {
                    return Err(verif_msg());
                }
            }
            // '>' is invalid as a start of a token
            '>' => return Err(verif_msg()),

            // pattern E{temporal}, must not be just a part of some proposition name
            'E' if is_valid_temp_op(input_chars.peek()) => {
                if let Some(c2) = input_chars.next() {
                    // check that it is not just a part of some proposition name
                    if let Some(c3) = input_chars.peek() { if is_valid_in_name(*c3) {
                        let name = collect_name(input_chars)?;
                        output.push(HctlToken::Atom(Atomic::Prop(
                            strcat3(c, c2, &name),
                        )));
                        continue;
} }

                    match c2 {
                        'X' => output.push(HctlToken::Unary(UnaryOp::EX)),
                        'F' => output.push(HctlToken::Unary(UnaryOp::EF)),
                        'G' => output.push(HctlToken::Unary(UnaryOp::EG)),
                        'U' => output.push(HctlToken::Binary(BinaryOp::EU)),
                        'W' => output.push(HctlToken::Binary(BinaryOp::EW)),
                        _ => return Err(verif_msg()),
                    }
                } else {
                    return Err(verif_msg());
                }
            }

            // pattern A{temporal}, must not be just a part of some proposition name
            'A' if is_valid_temp_op(input_chars.peek()) => {
                if let Some(c2) = input_chars.next() {
                    // check that it is not just a part of some proposition name
                    if let Some(c3) = input_chars.peek() { if is_valid_in_name(*c3) {
                        let name = collect_name(input_chars)?;
                        output.push(HctlToken::Atom(Atomic::Prop(
                            strcat3(c, c2, &name),
                        )));
                        continue;
} }
                    match c2 {
                        'X' => output.push(HctlToken::Unary(UnaryOp::AX)),
                        'F' => output.push(HctlToken::Unary(UnaryOp::AF)),
                        'G' => output.push(HctlToken::Unary(UnaryOp::AG)),
                        'U' => output.push(HctlToken::Binary(BinaryOp::AU)),
                        'W' => output.push(HctlToken::Binary(BinaryOp::AW)),
                        _ => return Err(verif_msg()),
                    }
                } else {
                    return Err(verif_msg());
                }
            }
            '!' => {
                // collect the variable name via inside helper function
                let (name, domain) =
                    collect_var_and_dom_from_operator(input_chars, '!', parse_wild_cards)?;
                output.push(HctlToken::Hybrid(HybridOp::Bind, name, domain));
            }
            // "3" can be either exist quantifier or part of some proposition
            '3' if !is_valid_in_name_optional(input_chars.peek()) => {
                // collect the variable name via inside helper function
                let (name, domain) =
                    collect_var_and_dom_from_operator(input_chars, '3', parse_wild_cards)?;
                output.push(HctlToken::Hybrid(HybridOp::Exists, name, domain));
            }
            // "V" can be either forall quantifier or part of some proposition
            'V' if !is_valid_in_name_optional(input_chars.peek()) => {
                // collect the variable name via inside helper function
                let (name, domain) =
                    collect_var_and_dom_from_operator(input_chars, 'V', parse_wild_cards)?;
                output.push(HctlToken::Hybrid(HybridOp::Forall, name, domain));
            }
            '@' => {
                // collect the variable name via inside helper function
                let (name, domain) = collect_var_and_dom_from_operator(input_chars, '@', false)?;
                if domain.is_some() {
                    return Err(verif_msg());
                }
                output.push(HctlToken::Hybrid(HybridOp::Jump, name, None));
            }
            // long name for hybrid operators (\bind, \exists, \forall, \jump)
            '\\' => {
                // collect the name of the operator, and its variable/domain
                let operator_name = collect_name(input_chars)?;
                if &operator_name == "exists" {
                    let (name, domain) =
                        collect_var_and_dom_from_operator(input_chars, '3', parse_wild_cards)?;
                    output.push(HctlToken::Hybrid(HybridOp::Exists, name, domain));
                } else if operator_name == "forall" {
                    let (name, domain) =
                        collect_var_and_dom_from_operator(input_chars, 'V', parse_wild_cards)?;
                    output.push(HctlToken::Hybrid(HybridOp::Forall, name, domain));
                } else if operator_name == "bind" {
                    let (name, domain) =
                        collect_var_and_dom_from_operator(input_chars, '!', parse_wild_cards)?;
                    output.push(HctlToken::Hybrid(HybridOp::Bind, name, domain));
                } else if operator_name == "jump" {
                    let (name, domain) =
                        collect_var_and_dom_from_operator(input_chars, '@', false)?;
                    if domain.is_some() {
                        return Err(verif_msg());
                    }
                    output.push(HctlToken::Hybrid(HybridOp::Jump, name, None));
                } else {
                    return Err(verif_msg());
                }
            }
            ')' => {
                return if !top_level {
                    Ok(output)
                } else {
                    Err(verif_msg())
                };
            }
            '(' => {
                // start a nested token group
                let token_group = try_tokenize_recursive(input_chars, false, parse_wild_cards)?;
                output.push(HctlToken::Tokens(token_group));
            }
            // variable name
            '{' => {
                let name = collect_name(input_chars)?;
                if name.is_empty() {
                    return Err(verif_msg());
                }
                output.push(HctlToken::Atom(Atomic::Var(name)));
                if Some('}') != input_chars.next() {
                    return Err(verif_msg());
                }
            }
            // wild-card proposition name
            '%' if parse_wild_cards => {
                let name = collect_name(input_chars)?;
                if name.is_empty() {
                    return Err(verif_msg());
                }
                output.push(HctlToken::Atom(Atomic::WildCardProp(name)));
                if Some('%') != input_chars.next() {
                    return Err(verif_msg());
                }
            }
            // proposition name or constant
            // these 2 are NOT distinguished now but later during parsing
            c if is_valid_in_name(c) => {
                let name = collect_name(input_chars)?;
                output.push(HctlToken::Atom(Atomic::Prop(strcat2(c, &name))));
            }
            _ => return Err(verif_msg()),
        }
    }

    if top_level {
        Ok(output)
    } else {
        Err(verif_msg())
    }
}

#[verifier::exec_allows_no_decreases_clause]
fn skip_whitespaces(chars: &mut Peekable<Chars>) {
    while let Some(c_) = chars.peek() { let c = *c_;
        if c.is_whitespace() {
            chars.next(); // Skip the whitespace character
        } else {
            break; // Stop skipping when a non-whitespace character is found
        }
    }
}

#[verifier::exec_allows_no_decreases_clause]
fn is_valid_in_name(c: char) -> bool {
    c.is_alphanumeric() || c == '_'
}

#[verifier::exec_allows_no_decreases_clause]
fn is_valid_in_name_optional(option_char: Option<&char>) -> bool {
    if let Some(c) = option_char {
        return is_valid_in_name(*c);
    }
    false
}

#[verifier::exec_allows_no_decreases_clause]
fn is_valid_temp_op(option_char: Option<&char>) -> bool {
    if let Some(c) = option_char {
        return matches!(c, 'X' | 'F' | 'G' | 'U' | 'W');
    }
    false
}

#[verifier::exec_allows_no_decreases_clause]
fn collect_name(input_chars: &mut Peekable<Chars>) -> Result<String, String> {
    let mut name = Vec::new();
    while let Some(c) = input_chars.peek() {
        if !is_valid_in_name(*c) {
            break;
        } else {
            name.push(*c);
            input_chars.next(); // advance iterator
        }
    }
    Ok(name.into_iter().collect())
}

#[verifier::exec_allows_no_decreases_clause]
fn collect_var_and_dom_from_operator(
    input_chars: &mut Peekable<Chars>,
    operator: char,
    parse_domains: bool,
) -> Result<(String, Option<String>), String> {
    // there might be few spaces first
    skip_whitespaces(input_chars);
    // now collect the variable name itself- it is in the form {var_name} for now
    if Some('{') != input_chars.next() {
        return Err(verif_msg());
    }
    let name = collect_name(input_chars)?;
    if name.is_empty() {
        return Err(verif_msg());
    }
    if Some('}') != input_chars.next() {
        return Err(verif_msg());
    }
    skip_whitespaces(input_chars);

    let mut domain = None;
    if parse_domains {
        // there are 2 options:
        // a) domain is specified and thus relevant chars form "in %domain%:"
        // b) domain is not specified and thus next char must be ":"
        if let Some('i') = input_chars.peek() {
            // the "in" part
            input_chars.next();
            if Some('n') != input_chars.next() {
                return Err(verif_msg());
            }
            skip_whitespaces(input_chars);

            // the "%domain%" part
            if Some('%') != input_chars.next() {
                return Err(verif_msg());
            }
            let domain_name = collect_name(input_chars)?;
            if domain_name.is_empty() {
                return Err(verif_msg());
            }
            domain = Some(domain_name);
            if Some('%') != input_chars.next() {
                return Err(verif_msg());
            }
            skip_whitespaces(input_chars);
        }
    }
    if Some(':') != input_chars.next() {
        return Err(verif_msg());
    }
    Ok((name, domain))
}
fn main() {}
}
