use vstd::prelude::*;
use std::iter::Peekable;
use std::str::Chars;
verus! {

#[verifier::external_type_specification]
#[verifier::external_body]
#[verifier::reject_recursive_types(I)]
pub struct ExPeekable<I: Iterator>(Peekable<I>);

pub uninterp spec fn rest<I: Iterator>(p: &Peekable<I>) -> Seq<I::Item>;

pub assume_specification<I: Iterator>[ <Peekable<I> as Iterator>::next ](p: &mut Peekable<I>) -> (r: Option<I::Item>)
    ensures
        rest(old(p)).len() == 0 ==> r is None && rest(final(p)) == rest(old(p)),
        rest(old(p)).len() > 0 ==> r == Some(rest(old(p))[0]) && rest(final(p)) == rest(old(p)).drop_first(),
;
pub assume_specification<I: Iterator>[ Peekable::<I>::peek ](p: &mut Peekable<I>) -> (r: Option<&I::Item>)
    ensures
        rest(final(p)) == rest(old(p)),
        rest(old(p)).len() == 0 ==> r is None,
        rest(old(p)).len() > 0 ==> r == Some(&rest(old(p))[0]),
;
pub uninterp spec fn alnum(c: char) -> bool;
pub assume_specification[ char::is_alphanumeric ](c: char) -> (r: bool) ensures r == alnum(c);

pub open spec fn name_char(c: char) -> bool { alnum(c) || c == '_' }
pub open spec fn take_name(s: Seq<char>) -> Seq<char> decreases s.len() {
    if s.len() > 0 && name_char(s[0]) { seq![s[0]] + take_name(s.drop_first()) } else { seq![] }
}
pub open spec fn drop_name(s: Seq<char>) -> Seq<char> decreases s.len() {
    if s.len() > 0 && name_char(s[0]) { drop_name(s.drop_first()) } else { s }
}

fn is_valid_in_name(c: char) -> (r: bool) ensures r == name_char(c) {
    c.is_alphanumeric() || c == '_'
}

fn collect_name(input_chars: &mut Peekable<Chars>) -> (r: Result<String, String>)
    ensures r is Ok,
 rest(final(input_chars)) == drop_name(rest(old(input_chars))),
 r matches Ok(s) && s@ == take_name(rest(old(input_chars)))
{
    let mut name = Vec::new();
    while let Some(c) = input_chars.peek()
        invariant
            name@ + take_name(rest(input_chars)) == take_name(rest(old(input_chars))),
            drop_name(rest(input_chars)) == drop_name(rest(old(input_chars))),
        decreases rest(input_chars).len()
    {
        if !is_valid_in_name(*c) {
            break;
        } else {
            name.push(*c);
            input_chars.next(); // advance iterator
        }
    }
    assert(name@ == take_name(rest(old(input_chars))));
    Ok(name.into_iter().collect())
}
fn main() {}
}
