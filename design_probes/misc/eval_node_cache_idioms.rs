#![feature(allocator_api)]
use vstd::prelude::*;
use std::collections::{BTreeMap, HashMap};
verus! {
pub type VarDomainMap = BTreeMap<String, Option<String>>;
pub type FormulaWithDomains = (String, VarDomainMap);
pub type VarRenameMap = HashMap<String, String>;
pub struct GCV { pub x: u64 }
impl Clone for GCV { #[verifier::external_body] fn clone(&self) -> (r: Self) ensures r == *self { unimplemented!() } }

pub assume_specification<'a, K, V, S, A, Q> [std::collections::HashMap::<K, V, S, A>::get_mut] (m: &'a mut std::collections::HashMap<K, V, S, A>, k: &Q) -> (r: std::option::Option<&'a mut V>)
           where
           A: std::alloc::Allocator,
           K: std::cmp::Eq + std::hash::Hash + std::borrow::Borrow<Q>,
           Q: std::marker::MetaSized + std::hash::Hash + std::cmp::Eq + ?Sized,
           S: std::hash::BuildHasher,;

pub struct EvalContext {
    pub duplicates: HashMap<FormulaWithDomains, i32>,
    pub cache: HashMap<FormulaWithDomains, (GCV, VarRenameMap)>,
    pub free_var_domains: VarDomainMap,
}

fn lookup(eval_context: &mut EvalContext, canonized_form: String, renaming: VarRenameMap) -> Option<GCV>
{
    let mut canonical_domains: VarDomainMap = VarDomainMap::new();
    for (variable, domain) in &eval_context.free_var_domains {
        if renaming.contains_key(variable) {
            canonical_domains.insert(renaming.get(variable).unwrap().clone(), domain.clone());
        }
    }
    let canonized_formula_with_domains = (canonized_form.clone(), canonical_domains.clone());
    if eval_context
        .duplicates
        .contains_key(&canonized_formula_with_domains)
    {
        if eval_context
            .cache
            .contains_key(&canonized_formula_with_domains)
        {
            *eval_context
                .duplicates
                .get_mut(&canonized_formula_with_domains)
                .unwrap() -= 1;
            let cached_ref = eval_context
                .cache
                .get(&canonized_formula_with_domains)
                .unwrap();
            let (mut result, result_renaming) = (cached_ref.0.clone(), cached_ref.1.clone());
            if eval_context.duplicates[&canonized_formula_with_domains] == 0 {
                eval_context
                    .duplicates
                    .remove(&canonized_formula_with_domains);
                eval_context.cache.remove(&canonized_formula_with_domains);
            }
            let mut reverse_renaming: VarRenameMap = VarRenameMap::new();
            for (var_curr, var_canon) in renaming.iter() {
                reverse_renaming.insert(var_canon.clone(), var_curr.clone());
            }
            return Some(result);
        }
    }
    None
}
fn main() {}
}
