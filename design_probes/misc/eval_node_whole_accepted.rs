#![feature(allocator_api)]
// PROBE: stub model of the lib-param-bn / lib-bdd API surface used by
// src/evaluation/{hctl_operators_eval,low_level_operations}.rs, with assumed contracts (TRUSTED).
use vstd::prelude::*;
use std::collections::{BTreeMap, HashMap};

// ---------------- opaque stand-ins (never executed) ----------------
pub struct Bdd { _p: u8 }
#[derive(Clone, Copy)]
pub struct BddVariable { _p: u16 }
pub struct BddVariableSet { _p: u8 }
pub struct SymbolicContext { _p: u8 }
pub struct SymbolicAsyncGraph { _p: u8 }
pub struct GraphColoredVertices { _p: u8 }
pub struct BooleanNetwork { _p: u8 }
#[derive(Clone, Copy)]
pub struct VariableId { _p: usize }
pub struct VariableIdIterator { _p: usize }
pub struct VariableIdRevIterator { _p: usize }


// ---------------- API surface (bodies never run) ----------------
impl GraphColoredVertices {
    pub fn new(_bdd: Bdd, _ctx: &SymbolicContext) -> Self { unimplemented!() }
    pub fn as_bdd(&self) -> &Bdd { unimplemented!() }
    pub fn into_bdd(self) -> Bdd { unimplemented!() }
    pub fn union(&self, _o: &Self) -> Self { unimplemented!() }
    pub fn intersect(&self, _o: &Self) -> Self { unimplemented!() }
    pub fn minus(&self, _o: &Self) -> Self { unimplemented!() }
    pub fn is_empty(&self) -> bool { unimplemented!() }
    pub fn is_subset(&self, _o: &Self) -> bool { unimplemented!() }
}
impl Clone for GraphColoredVertices { fn clone(&self) -> Self { unimplemented!() } }
impl PartialEq for GraphColoredVertices { fn eq(&self, _o: &Self) -> bool { unimplemented!() } }
impl Clone for Bdd { fn clone(&self) -> Self { unimplemented!() } }
impl Bdd {
    pub fn and(&self, _o: &Bdd) -> Bdd { unimplemented!() }
    pub fn iff(&self, _o: &Bdd) -> Bdd { unimplemented!() }
    pub fn exists(&self, _vars: &[BddVariable]) -> Bdd { unimplemented!() }
}
impl BddVariableSet { pub fn mk_var_by_name(&self, _name: &str) -> Bdd { unimplemented!() } }
impl Clone for SymbolicContext { fn clone(&self) -> Self { unimplemented!() } }
impl SymbolicContext {
    pub fn bdd_variable_set(&self) -> &BddVariableSet { unimplemented!() }
    pub fn extra_state_variables(&self, _v: VariableId) -> &Vec<BddVariable> { unimplemented!() }
    pub fn state_variables(&self) -> &Vec<BddVariable> { unimplemented!() }
    pub fn find_network_variable(&self, _name: &str) -> Option<VariableId> { unimplemented!() }
    pub fn mk_state_variable_is_true(&self, _v: VariableId) -> Bdd { unimplemented!() }
}
impl SymbolicAsyncGraph {
    pub fn symbolic_context(&self) -> &SymbolicContext { unimplemented!() }
    pub fn mk_unit_colored_vertices(&self) -> GraphColoredVertices { unimplemented!() }
    pub fn unit_colored_vertices(&self) -> &GraphColoredVertices { unimplemented!() }
    pub fn mk_empty_colored_vertices(&self) -> GraphColoredVertices { unimplemented!() }
    pub fn pre(&self, _s: &GraphColoredVertices) -> GraphColoredVertices { unimplemented!() }
    pub fn var_pre(&self, _v: VariableId, _s: &GraphColoredVertices) -> GraphColoredVertices { unimplemented!() }
    pub fn variables(&self) -> VariableIdIterator { unimplemented!() }
    pub fn get_variable_name(&self, _v: VariableId) -> String { unimplemented!() }
    pub fn as_network(&self) -> Option<&BooleanNetwork> { unimplemented!() }
    pub fn with_custom_context(_n: &BooleanNetwork, _c: SymbolicContext, _u: Bdd) -> Result<SymbolicAsyncGraph, String> { unimplemented!() }
}
impl VariableIdIterator {
    pub fn next(&mut self) -> Option<VariableId> { unimplemented!() }
    pub fn rev(self) -> VariableIdRevIterator { unimplemented!() }
}
impl VariableIdRevIterator { pub fn next(&mut self) -> Option<VariableId> { unimplemented!() } }

verus! {

// ---------------- abstract domain ----------------
pub struct Pt { pub s: Seq<bool>, pub c: int, pub e: Seq<Seq<bool>> }
pub uninterp spec fn dim_n() -> nat;   // number of network variables (ambient symbolic context)
pub uninterp spec fn dim_k() -> nat;   // number of extra copies (HCTL variable slots)
pub open spec fn shaped(p: Pt) -> bool {
    p.s.len() == dim_n() && p.e.len() == dim_k() && forall|k: int| 0 <= k < dim_k() ==> (#[trigger] p.e[k]).len() == dim_n()
}
pub open spec fn with_state(p: Pt, s: Seq<bool>) -> Pt { Pt { s: s, ..p } }
pub open spec fn with_slot(p: Pt, k: int, v: Seq<bool>) -> Pt { Pt { e: p.e.update(k, v), ..p } }
pub open spec fn flip(s: Seq<bool>, v: int) -> Seq<bool> { s.update(v, !s[v]) }

#[verifier::external_type_specification] #[verifier::external_body] pub struct ExBdd(Bdd);
#[verifier::external_type_specification] #[verifier::external_body] pub struct ExBddVariable(BddVariable);
#[verifier::external_type_specification] #[verifier::external_body] pub struct ExBddVariableSet(BddVariableSet);
#[verifier::external_type_specification] #[verifier::external_body] pub struct ExSymbolicContext(SymbolicContext);
#[verifier::external_type_specification] #[verifier::external_body] pub struct ExSymbolicAsyncGraph(SymbolicAsyncGraph);
#[verifier::external_type_specification] #[verifier::external_body] pub struct ExGraphColoredVertices(GraphColoredVertices);
#[verifier::external_type_specification] #[verifier::external_body] pub struct ExBooleanNetwork(BooleanNetwork);
#[verifier::external_type_specification] #[verifier::external_body] pub struct ExVariableId(VariableId);
#[verifier::external_type_specification] #[verifier::external_body] pub struct ExVariableIdIterator(VariableIdIterator);
#[verifier::external_type_specification] #[verifier::external_body] pub struct ExVariableIdRevIterator(VariableIdRevIterator);

pub uninterp spec fn bv(b: &Bdd) -> ISet<Pt>;                       // valuations satisfying a BDD
pub uninterp spec fn gv(s: &GraphColoredVertices) -> ISet<Pt>;      // same, for a coloured vertex set
pub uninterp spec fn unit_of(g: &SymbolicAsyncGraph) -> ISet<Pt>;
pub uninterp spec fn can_flip(g: &SymbolicAsyncGraph, v: int, s: Seq<bool>, c: int) -> bool;
pub uninterp spec fn vid(v: VariableId) -> int;
pub enum Role { State(int), Extra(int, int), Param(int) }
pub uninterp spec fn role(v: BddVariable) -> Role;

// every symbolic set only contains well-shaped valuations (BDD valuations are total over the variable set)
pub broadcast axiom fn axiom_gv_shaped(s: &GraphColoredVertices, p: Pt)
    requires #[trigger] gv(s).contains(p)
    ensures shaped(p);
pub broadcast axiom fn axiom_bv_shaped(b: &Bdd, p: Pt)
    requires #[trigger] bv(b).contains(p)
    ensures shaped(p);


// ---------------- assumed contracts: set algebra ----------------
pub assume_specification[ GraphColoredVertices::union ](a: &GraphColoredVertices, b: &GraphColoredVertices) -> (r: GraphColoredVertices)
    ensures gv(&r) == gv(a).union(gv(b));
pub assume_specification[ GraphColoredVertices::intersect ](a: &GraphColoredVertices, b: &GraphColoredVertices) -> (r: GraphColoredVertices)
    ensures gv(&r) == gv(a).intersect(gv(b));
pub assume_specification[ GraphColoredVertices::minus ](a: &GraphColoredVertices, b: &GraphColoredVertices) -> (r: GraphColoredVertices)
    ensures gv(&r) == gv(a).difference(gv(b));
pub assume_specification[ GraphColoredVertices::is_empty ](a: &GraphColoredVertices) -> (r: bool)
    ensures r <==> gv(a) == ISet::<Pt>::empty();
pub assume_specification[ <GraphColoredVertices as Clone>::clone ](a: &GraphColoredVertices) -> (r: GraphColoredVertices)
    ensures gv(&r) == gv(a);
pub assume_specification[ <GraphColoredVertices as PartialEq>::eq ](a: &GraphColoredVertices, b: &GraphColoredVertices) -> (r: bool)
    ensures r <==> gv(a) == gv(b);
pub assume_specification[ GraphColoredVertices::new ](bdd: Bdd, ctx: &SymbolicContext) -> (r: GraphColoredVertices)
    ensures gv(&r) == bv(&bdd);
pub assume_specification[ GraphColoredVertices::as_bdd ](a: &GraphColoredVertices) -> (r: &Bdd)
    ensures bv(r) == gv(a);
pub assume_specification[ GraphColoredVertices::into_bdd ](a: GraphColoredVertices) -> (r: Bdd)
    ensures bv(&r) == gv(&a);
pub assume_specification[ <Bdd as Clone>::clone ](a: &Bdd) -> (r: Bdd)
    ensures bv(&r) == bv(a);
pub assume_specification[ Bdd::and ](a: &Bdd, b: &Bdd) -> (r: Bdd)
    ensures bv(&r) == bv(a).intersect(bv(b));
pub assume_specification[ Bdd::iff ](a: &Bdd, b: &Bdd) -> (r: Bdd)
    ensures forall|p: Pt| #[trigger] bv(&r).contains(p) <==> shaped(p) && (bv(a).contains(p) <==> bv(b).contains(p));

// ---------------- assumed contracts: variables and projections ----------------
pub open spec fn coord(p: Pt, r: Role) -> bool {
    match r { Role::State(i) => p.s[i], Role::Extra(i, k) => p.e[k][i], Role::Param(_) => false }
}
// p and q agree on the colour and on every state / extra coordinate whose role is not in `roles`
pub open spec fn same_except(p: Pt, q: Pt, roles: Set<Role>) -> bool {
    &&& p.c == q.c
    &&& forall|i: int| 0 <= i < dim_n() && !roles.contains(Role::State(i)) ==> p.s[i] == q.s[i]
    &&& forall|i: int, k: int| 0 <= i < dim_n() && 0 <= k < dim_k() && !roles.contains(Role::Extra(i, k)) ==> #[trigger] p.e[k][i] == q.e[k][i]
}
pub open spec fn roles_of(vars: Seq<BddVariable>) -> Set<Role> { vars.map_values(|v: BddVariable| role(v)).to_set() }
pub open spec fn no_params(vars: Seq<BddVariable>) -> bool { forall|j: int| 0 <= j < vars.len() ==> !(role(#[trigger] vars[j]) is Param) }
pub assume_specification[ Bdd::exists ](a: &Bdd, vars: &[BddVariable]) -> (r: Bdd)
    requires no_params(vars@)   // (the repo never projects parameter variables; the contract is only given for that case)
    ensures forall|p: Pt| #[trigger] bv(&r).contains(p) <==> shaped(p) && exists|q: Pt| bv(a).contains(q) && same_except(p, q, roles_of(vars@));

pub uninterp spec fn var_name(i: int) -> Seq<char>;         // name of network variable i
pub uninterp spec fn dec(k: int) -> Seq<char>;              // decimal rendering used by format!("{}", k)
pub open spec fn extra_name(i: int, k: int) -> Seq<char> { var_name(i) + "_extra_"@ + dec(k) }
pub uninterp spec fn name_role(name: Seq<char>) -> Option<Role>;   // BDD variable with that name, if any
pub broadcast axiom fn axiom_names_state(i: int)
    requires 0 <= i < dim_n()
    ensures #[trigger] name_role(var_name(i)) == Some(Role::State(i));
pub broadcast axiom fn axiom_names_extra(i: int, k: int)      // lib-param-bn: with_extra_state_variables names them "{var}_extra_{k}"
    requires 0 <= i < dim_n(), 0 <= k < dim_k()
    ensures #[trigger] name_role(extra_name(i, k)) == Some(Role::Extra(i, k));

pub assume_specification[ BddVariableSet::mk_var_by_name ](s: &BddVariableSet, name: &str) -> (r: Bdd)
    requires name_role(name@) is Some          // panics otherwise
    ensures forall|p: Pt| #[trigger] bv(&r).contains(p) <==> shaped(p) && coord(p, name_role(name@)->0);
pub assume_specification[ SymbolicContext::bdd_variable_set ](c: &SymbolicContext) -> (r: &BddVariableSet);
pub assume_specification[ SymbolicContext::extra_state_variables ](c: &SymbolicContext, v: VariableId) -> (r: &Vec<BddVariable>)
    requires 0 <= vid(v) < dim_n()
    ensures r@.len() == dim_k(), forall|k: int| 0 <= k < dim_k() ==> role(#[trigger] r@[k]) == Role::Extra(vid(v), k);
pub assume_specification[ SymbolicContext::state_variables ](c: &SymbolicContext) -> (r: &Vec<BddVariable>)
    ensures r@.len() == dim_n(), forall|i: int| 0 <= i < dim_n() ==> role(#[trigger] r@[i]) == Role::State(i);
pub uninterp spec fn prop_index(name: Seq<char>) -> Option<int>;
pub assume_specification[ SymbolicContext::find_network_variable ](c: &SymbolicContext, name: &str) -> (r: Option<VariableId>)
    ensures match r { Some(v) => prop_index(name@) == Some(vid(v)) && 0 <= vid(v) < dim_n(), None => prop_index(name@) is None };
pub assume_specification[ SymbolicContext::mk_state_variable_is_true ](c: &SymbolicContext, v: VariableId) -> (r: Bdd)
    requires 0 <= vid(v) < dim_n()
    ensures forall|p: Pt| #[trigger] bv(&r).contains(p) <==> shaped(p) && p.s[vid(v)];
pub assume_specification[ <SymbolicContext as Clone>::clone ](c: &SymbolicContext) -> (r: SymbolicContext);

// ---------------- assumed contracts: the symbolic asynchronous graph ----------------
// unit set: does not constrain the state coordinates (lib-param-bn: "unit_bdd should be a cartesian product ...";
// established by get_extended_symbolic_graph and preserved by restrict_stg_unit_bdd, see wf_graph)
pub open spec fn wf_graph(g: &SymbolicAsyncGraph) -> bool {
    &&& forall|p: Pt| #[trigger] unit_of(g).contains(p) ==> shaped(p)
    &&& forall|p: Pt, s: Seq<bool>| #![trigger unit_of(g).contains(with_state(p, s))] unit_of(g).contains(p) && s.len() == dim_n() ==> unit_of(g).contains(with_state(p, s))
}
pub open spec fn var_pre_of(g: &SymbolicAsyncGraph, v: int, z: ISet<Pt>) -> ISet<Pt> {
    ISet::new(|p: Pt| shaped(p) && can_flip(g, v, p.s, p.c) && z.contains(with_state(p, flip(p.s, v))))
}
pub open spec fn pre_of(g: &SymbolicAsyncGraph, z: ISet<Pt>) -> ISet<Pt> {
    ISet::new(|p: Pt| exists|v: int| 0 <= v < dim_n() && #[trigger] var_pre_of(g, v, z).contains(p))
}
pub assume_specification[ SymbolicAsyncGraph::symbolic_context ](g: &SymbolicAsyncGraph) -> (r: &SymbolicContext);
pub assume_specification[ SymbolicAsyncGraph::mk_unit_colored_vertices ](g: &SymbolicAsyncGraph) -> (r: GraphColoredVertices)
    ensures gv(&r) == unit_of(g);
pub assume_specification[ SymbolicAsyncGraph::unit_colored_vertices ](g: &SymbolicAsyncGraph) -> (r: &GraphColoredVertices)
    ensures gv(r) == unit_of(g);
pub assume_specification[ SymbolicAsyncGraph::mk_empty_colored_vertices ](g: &SymbolicAsyncGraph) -> (r: GraphColoredVertices)
    ensures gv(&r) == ISet::<Pt>::empty();
pub assume_specification[ SymbolicAsyncGraph::pre ](g: &SymbolicAsyncGraph, s: &GraphColoredVertices) -> (r: GraphColoredVertices)
    ensures gv(&r) == pre_of(g, gv(s));
pub assume_specification[ SymbolicAsyncGraph::var_pre ](g: &SymbolicAsyncGraph, v: VariableId, s: &GraphColoredVertices) -> (r: GraphColoredVertices)
    requires 0 <= vid(v) < dim_n()
    ensures gv(&r) == var_pre_of(g, vid(v), gv(s));
pub assume_specification[ SymbolicAsyncGraph::get_variable_name ](g: &SymbolicAsyncGraph, v: VariableId) -> (r: String)
    requires 0 <= vid(v) < dim_n()
    ensures r@ == var_name(vid(v));
// iteration over network variables: 0, 1, ..., n-1 (and reversed)
pub uninterp spec fn it_next(it: &VariableIdIterator) -> int;       // next index to be yielded
pub uninterp spec fn rit_next(it: &VariableIdRevIterator) -> int;   // next index to be yielded (counts down)
pub assume_specification[ SymbolicAsyncGraph::variables ](g: &SymbolicAsyncGraph) -> (r: VariableIdIterator)
    ensures it_next(&r) == 0;
pub assume_specification[ VariableIdIterator::next ](it: &mut VariableIdIterator) -> (r: Option<VariableId>)
    ensures
        it_next(old(it)) < dim_n() ==> (r matches Some(v) && vid(v) == it_next(old(it)) && it_next(final(it)) == it_next(old(it)) + 1),
        it_next(old(it)) >= dim_n() ==> r is None && it_next(final(it)) == it_next(old(it));
pub assume_specification[ VariableIdIterator::rev ](it: VariableIdIterator) -> (r: VariableIdRevIterator)
    requires it_next(&it) == 0
    ensures rit_next(&r) == dim_n() - 1;
pub assume_specification[ VariableIdRevIterator::next ](it: &mut VariableIdRevIterator) -> (r: Option<VariableId>)
    ensures
        rit_next(old(it)) >= 0 ==> (r matches Some(v) && vid(v) == rit_next(old(it)) && rit_next(final(it)) == rit_next(old(it)) - 1),
        rit_next(old(it)) < 0 ==> r is None && rit_next(final(it)) == rit_next(old(it));


pub type VarDomainMap = BTreeMap<String, Option<String>>;
pub type FormulaWithDomains = (String, VarDomainMap);
pub type VarRenameMap = HashMap<String, String>;
pub enum UnaryOp { Not, EX, AX, EF, AF, EG, AG }
pub enum BinaryOp { And, Or, Xor, Imp, Iff, EU, AU, EW, AW }
pub enum HybridOp { Bind, Jump, Exists, Forall }
pub enum Atomic { Prop(String), Var(String), True, False, WildCardProp(String) }
pub enum NodeType {
    Terminal(Atomic),
    Unary(UnaryOp, Box<HctlTreeNode>),
    Binary(BinaryOp, Box<HctlTreeNode>, Box<HctlTreeNode>),
    Hybrid(HybridOp, String, Option<String>, Box<HctlTreeNode>),
}
pub struct HctlTreeNode { pub formula_str: String, pub height: u32, pub node_type: NodeType }
impl HctlTreeNode { #[verifier::external_body] pub fn to_string(&self) -> (r: String) ensures r@ == self.formula_str@ { unimplemented!() } }
impl Clone for HybridOp { #[verifier::external_body] fn clone(&self) -> (r: Self) ensures r == *self { unimplemented!() } }
pub struct EvalContext {
    pub duplicates: HashMap<FormulaWithDomains, i32>,
    pub cache: HashMap<FormulaWithDomains, (GraphColoredVertices, VarRenameMap)>,
    pub domain_raw_sets: HashMap<String, GraphColoredVertices>,
    pub free_var_domains: VarDomainMap,
}
pub assume_specification<'a, K, V, S, A, Q> [std::collections::HashMap::<K, V, S, A>::get_mut] (m: &'a mut std::collections::HashMap<K, V, S, A>, k: &Q) -> (r: std::option::Option<&'a mut V>)
           where A: std::alloc::Allocator, K: std::cmp::Eq + std::hash::Hash + std::borrow::Borrow<Q>, Q: std::marker::MetaSized + std::hash::Hash + std::cmp::Eq + ?Sized, S: std::hash::BuildHasher,;
#[verifier::external_body] pub fn get_canonical_and_renaming(subform_string: String) -> (r: (String, VarRenameMap)) { unimplemented!() }
#[verifier::external_body] pub fn compute_attractor_states(graph: &SymbolicAsyncGraph, vertices: &GraphColoredVertices) -> GraphColoredVertices { unimplemented!() }
#[verifier::external_body] pub fn eval_neg(graph: &SymbolicAsyncGraph, set: &GraphColoredVertices) -> GraphColoredVertices { unimplemented!() }
#[verifier::external_body] pub fn eval_imp(
    graph: &SymbolicAsyncGraph,
    left: &GraphColoredVertices,
    right: &GraphColoredVertices,
) -> GraphColoredVertices { unimplemented!() }
#[verifier::external_body] pub fn eval_equiv(
    graph: &SymbolicAsyncGraph,
    left: &GraphColoredVertices,
    right: &GraphColoredVertices,
) -> GraphColoredVertices { unimplemented!() }
#[verifier::external_body] pub fn eval_xor(
    graph: &SymbolicAsyncGraph,
    left: &GraphColoredVertices,
    right: &GraphColoredVertices,
) -> GraphColoredVertices { unimplemented!() }
#[verifier::external_body] pub fn eval_prop(graph: &SymbolicAsyncGraph, proposition: &str) -> GraphColoredVertices { unimplemented!() }
#[verifier::external_body] pub fn eval_hctl_var(graph: &SymbolicAsyncGraph, hctl_var_name: &str) -> GraphColoredVertices { unimplemented!() }
#[verifier::external_body] pub fn eval_bind(
    graph: &SymbolicAsyncGraph,
    phi: &GraphColoredVertices,
    var_name: &str,
) -> GraphColoredVertices { unimplemented!() }
#[verifier::external_body] pub fn eval_exists(
    graph: &SymbolicAsyncGraph,
    phi: &GraphColoredVertices,
    var_name: &str,
) -> GraphColoredVertices { unimplemented!() }
#[verifier::external_body] pub fn eval_jump(
    graph: &SymbolicAsyncGraph,
    phi: &GraphColoredVertices,
    var_name: &str,
) -> GraphColoredVertices { unimplemented!() }
#[verifier::external_body] pub fn eval_ex(
    graph: &SymbolicAsyncGraph,
    phi: &GraphColoredVertices,
    self_loop_states: &GraphColoredVertices,
) -> GraphColoredVertices { unimplemented!() }
#[verifier::external_body] pub fn eval_eu_saturated(
    graph: &SymbolicAsyncGraph,
    phi1: &GraphColoredVertices,
    phi2: &GraphColoredVertices,
) -> GraphColoredVertices { unimplemented!() }
#[verifier::external_body] pub fn eval_ef_saturated(
    graph: &SymbolicAsyncGraph,
    phi: &GraphColoredVertices,
) -> GraphColoredVertices { unimplemented!() }
#[verifier::external_body] pub fn eval_eg(
    graph: &SymbolicAsyncGraph,
    phi: &GraphColoredVertices,
    self_loop_states: &GraphColoredVertices,
) -> GraphColoredVertices { unimplemented!() }
#[verifier::external_body] pub fn eval_ax(
    graph: &SymbolicAsyncGraph,
    phi: &GraphColoredVertices,
    self_loop_states: &GraphColoredVertices,
) -> GraphColoredVertices { unimplemented!() }
#[verifier::external_body] pub fn eval_af(
    graph: &SymbolicAsyncGraph,
    phi: &GraphColoredVertices,
    self_loop_states: &GraphColoredVertices,
) -> GraphColoredVertices { unimplemented!() }
#[verifier::external_body] pub fn eval_ag(
    graph: &SymbolicAsyncGraph,
    phi: &GraphColoredVertices,
) -> GraphColoredVertices { unimplemented!() }
#[verifier::external_body] pub fn eval_au(
    graph: &SymbolicAsyncGraph,
    phi1: &GraphColoredVertices,
    phi2: &GraphColoredVertices,
    self_loop_states: &GraphColoredVertices,
) -> GraphColoredVertices { unimplemented!() }
#[verifier::external_body] pub fn eval_ew(
    graph: &SymbolicAsyncGraph,
    phi1: &GraphColoredVertices,
    phi2: &GraphColoredVertices,
    self_loop_states: &GraphColoredVertices,
) -> GraphColoredVertices { unimplemented!() }
#[verifier::external_body] pub fn eval_aw(
    graph: &SymbolicAsyncGraph,
    phi1: &GraphColoredVertices,
    phi2: &GraphColoredVertices,
) -> GraphColoredVertices { unimplemented!() }
#[verifier::external_body] pub fn compute_valid_domain_for_var(
    graph: &SymbolicAsyncGraph,
    domain: &GraphColoredVertices,
    hctl_var: &str,
) -> GraphColoredVertices { unimplemented!() }
#[verifier::external_body] pub fn restrict_stg_unit_bdd(
    graph: &SymbolicAsyncGraph,
    restriction_set: &GraphColoredVertices,
) -> SymbolicAsyncGraph { unimplemented!() }
#[verifier::external_body] pub fn substitute_hctl_var(
    graph: &SymbolicAsyncGraph,
    colored_states: &GraphColoredVertices,
    hctl_var_before: &str,
    hctl_var_after: &str,
) -> GraphColoredVertices { unimplemented!() }
#[verifier::exec_allows_no_decreases_clause]
pub fn eval_node(
    node: HctlTreeNode,
    graph: &SymbolicAsyncGraph,
    eval_context: &mut EvalContext,
    steady_states: &GraphColoredVertices,
) -> GraphColoredVertices {
    // first check whether this node does not belong in the duplicates
    let mut save_to_cache = false;

    // get canonized form of this sub-formula, and mapping between original and canonized variable names
    let (canonized_form, renaming) = get_canonical_and_renaming(node.to_string());
    // rename the variables in the domain map to their canonical form (duplicate formulae are always canonical)
    // only include the FREE canonical variables that are actually contained in the sub-formula
    // example: given "!{x}:!{y}: (AX {y})", its sub-formula "AX {x}" would have one "None" domain for "var0"
    let mut canonical_domains: VarDomainMap = VarDomainMap::new();
    for (variable, domain) in &eval_context.free_var_domains {
        if renaming.contains_key(variable) {
            canonical_domains.insert(renaming.get(variable).unwrap().clone(), domain.clone());
        }
    }
    // canonical version of the current formula and canonized mappings of its domains
    let canonized_formula_with_domains = (canonized_form.clone(), canonical_domains.clone());

    if eval_context
        .duplicates
        .contains_key(&canonized_formula_with_domains)
    {
        if eval_context
            .cache
            .contains_key(&canonized_formula_with_domains)
        {
            // decrement number of duplicates left
            *eval_context
                .duplicates
                .get_mut(&canonized_formula_with_domains)
                .unwrap() -= 1;

            // get cached result, but it might be using differently named state-variables
            // so we might have to rename them later
            let cached_ref_ = eval_context
                .cache
                .get(&canonized_formula_with_domains)
                .unwrap();
            let (mut result, result_renaming) = (cached_ref_.0.clone(), cached_ref_.1.clone());

            // if we already visited all of the duplicates, lets delete the cached value
            if eval_context.duplicates[&canonized_formula_with_domains] == 0 {
                eval_context
                    .duplicates
                    .remove(&canonized_formula_with_domains);
                eval_context.cache.remove(&canonized_formula_with_domains);
            }

            // since we are working with canonical cache, we might need to rename vars in result bdd
            let mut reverse_renaming: VarRenameMap = VarRenameMap::new();
            for (var_curr, var_canon) in renaming.iter() {
                reverse_renaming.insert(var_canon.clone(), var_curr.clone());
            }
            for (var_res, var_canon) in result_renaming.iter() {
                let var_curr = reverse_renaming.get(var_canon).unwrap();
                result = substitute_hctl_var(graph, &result, var_res, var_curr);
            }
            return result;
        } else {
            // if the cache does not contain result for this subformula, set insert flag
            save_to_cache = true;
        }
    }

    // just an empty relation used for progress callback at the start of the computation
    let empty_set = graph.mk_empty_colored_vertices();

    // first lets check for special cases, which can be optimised:
    // 1) attractors
    if is_attractor_pattern(&node) {
        let result = compute_attractor_states(graph, graph.unit_colored_vertices());
        if save_to_cache {
            eval_context
                .cache
                .insert(canonized_formula_with_domains, (result.clone(), renaming));
        }
        return result;
    }
    // 2) fixed-points
    if is_fixed_point_pattern(&node) {
        return steady_states.clone();
    }

    let result = match node.node_type {
        NodeType::Terminal(atom) => {
            match atom {
                Atomic::True => graph.mk_unit_colored_vertices(),
                Atomic::False => graph.mk_empty_colored_vertices(),
                Atomic::Var(name) => eval_hctl_var(graph, name.as_str()),
                Atomic::Prop(name) => eval_prop(graph, &name),
                // should not be reachable, as wild-card nodes are always evaluated earlier using cache
                Atomic::WildCardProp(_) => unreachable!(),
            }
        }
        NodeType::Unary(op, child) => {
            let child_evaluated = eval_node(
                *child,
                graph,
                eval_context,
                steady_states);
            match op {
                UnaryOp::Not => eval_neg(graph, &child_evaluated),
                UnaryOp::EX => eval_ex(graph, &child_evaluated, steady_states),
                UnaryOp::AX => eval_ax(graph, &child_evaluated, steady_states),
                UnaryOp::EF => eval_ef_saturated(graph, &child_evaluated),
                UnaryOp::AF => eval_af(graph, &child_evaluated, steady_states),
                UnaryOp::EG => eval_eg(graph, &child_evaluated, steady_states),
                UnaryOp::AG => eval_ag(graph, &child_evaluated),
            }
        }
        NodeType::Binary(op, left, right) => {
            let left_eval = eval_node(*left, graph, eval_context, steady_states);
            let right_eval = eval_node(
                *right,
                graph,
                eval_context,
                steady_states);
            match op {
                BinaryOp::And => left_eval.intersect(&right_eval),
                BinaryOp::Or => left_eval.union(&right_eval),
                BinaryOp::Xor => eval_xor(graph, &left_eval, &right_eval),
                BinaryOp::Imp => eval_imp(graph, &left_eval, &right_eval),
                BinaryOp::Iff => eval_equiv(graph, &left_eval, &right_eval),
                BinaryOp::EU => {
                    eval_eu_saturated(graph, &left_eval, &right_eval)
                }
                BinaryOp::AU => eval_au(
                    graph,
                    &left_eval,
                    &right_eval,
                    steady_states),
                BinaryOp::EW => eval_ew(
                    graph,
                    &left_eval,
                    &right_eval,
                    steady_states),
                BinaryOp::AW => eval_aw(graph, &left_eval, &right_eval),
            }
        }
        NodeType::Hybrid(HybridOp::Jump, var, _, child) => {
            // special case for hybrid operator Jump (it is not quantifier, so it is different than the rest)
            // mainly, we dont have to worry about the domain (which complicates other hybrid operators)
            let child_evaluated = eval_node(
                *child,
                graph,
                eval_context,
                steady_states);
            eval_jump(graph, &child_evaluated, var.as_str())
        }
        NodeType::Hybrid(op, var, maybe_domain, child) => {
            // case for hybrid quantifiers (jump operator matched by previous match)

            // add the variable's domain to the eval context (the variable will be free in the sub-formulae)
            eval_context
                .free_var_domains
                .insert(var.clone(), maybe_domain.clone());

            // two different options depending on if the quantified variable has restricted domain or not
            let res = match maybe_domain {
                None => {
                    // if there is no domain restriction, we evaluate the child node on the current version of the graph
                    let child_evaluated = eval_node(
                        *child,
                        graph,
                        eval_context,
                        steady_states);
                    eval_hybrid_quantifier(graph, graph, &op, &var, &child_evaluated)
                }
                Some(domain) => {
                    // if there is a domain restriction, we evaluate the child node a restricted version of the graph
                    // with a smaller unit bdd, limiting the validity domain of the `variable`

                    // get a domain set from EvalContext, can use unwrap as it is previously checked
                    let domain_set = eval_context.domain_raw_sets.get(domain.as_str()).unwrap();

                    // check edge case of an empty domain (in that case we cannot restrict the domain,
                    // there would be an error)
                    if domain_set.is_empty() {
                        return match op.clone() {
                            HybridOp::Bind => graph.mk_empty_colored_vertices(),
                            HybridOp::Exists => graph.mk_empty_colored_vertices(),
                            // forall
                            _ => graph.mk_unit_colored_vertices(),
                        };
                    }

                    // restrict the var domain in unit BDD of the graph
                    let var_domain = compute_valid_domain_for_var(graph, domain_set, &var);
                    let restricted_graph = restrict_stg_unit_bdd(graph, &var_domain);

                    let child_eval = eval_node(
                        *child,
                        &restricted_graph,
                        eval_context,
                        steady_states);
                    eval_hybrid_quantifier(graph, &restricted_graph, &op, &var, &child_eval)
                }
            };

            // remove the domain of this (no longer free) variable
            eval_context.free_var_domains.remove(&var);
            res
        }
    };

    // save result to cache if needed
    if save_to_cache {
        eval_context
            .cache
            .insert(canonized_formula_with_domains, (result.clone(), renaming));
    }
    result
}

#[verifier::exec_allows_no_decreases_clause]
fn eval_hybrid_quantifier(
    graph: &SymbolicAsyncGraph,
    graph_to_propagate: &SymbolicAsyncGraph,
    operator: &HybridOp,
    variable: &str,
    child_evaluated: &GraphColoredVertices,
) -> GraphColoredVertices {
    match operator {
        HybridOp::Bind => eval_bind(graph, child_evaluated, variable),
        HybridOp::Exists => eval_exists(graph, child_evaluated, variable),
        // evaluate `forall x in A. phi` as `not exists x in A. not phi`
        // do it directly there so that the domain for negations are handled correctly
        HybridOp::Forall => eval_neg(
            graph,
            &eval_exists(
                graph,
                &eval_neg(graph_to_propagate, child_evaluated),
                variable,
            ),
        ),
        // only hybrid quantifiers should be evaluated in this function
        _ => unreachable!(),
    }
}

#[verifier::exec_allows_no_decreases_clause]
fn is_attractor_pattern(node: &HctlTreeNode) -> bool {
    match &node.node_type {
        NodeType::Hybrid(HybridOp::Bind, var1, None, child1) => match &child1.node_type {
            NodeType::Unary(UnaryOp::AG, child2) => match &child2.node_type {
                NodeType::Unary(UnaryOp::EF, child3) => match &child3.node_type {
                    NodeType::Terminal(Atomic::Var(var2)) => var1 == var2,
                    _ => false,
                },
                _ => false,
            },
            _ => false,
        },
        _ => false,
    }
}

#[verifier::exec_allows_no_decreases_clause]
fn is_fixed_point_pattern(node: &HctlTreeNode) -> bool {
    match &node.node_type {
        NodeType::Hybrid(HybridOp::Bind, var1, None, child1) => match &child1.node_type {
            NodeType::Unary(UnaryOp::AX, child2) => match &child2.node_type {
                NodeType::Terminal(Atomic::Var(var2)) => var1 == var2,
                _ => false,
            },
            _ => false,
        },
        _ => false,
    }
}
fn main() {}
} // verus!
