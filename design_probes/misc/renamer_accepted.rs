#![feature(allocator_api)]
use vstd::prelude::*;
use std::collections::{HashMap, HashSet};
pub struct SymbolicContext { _p: u8 }
#[derive(Clone, Copy)]
pub struct VariableId { _p: usize }
impl SymbolicContext { pub fn find_network_variable(&self, _name: &str) -> Option<VariableId> { unimplemented!() } }
verus! {
#[verifier::external_type_specification] #[verifier::external_body] pub struct ExSymbolicContext(SymbolicContext);
#[verifier::external_type_specification] #[verifier::external_body] pub struct ExVariableId(VariableId);
pub assume_specification[ SymbolicContext::find_network_variable ](c: &SymbolicContext, name: &str) -> (r: Option<VariableId>);
pub assume_specification<T, S, A, I>[ <HashSet<T, S, A> as Extend<T>>::extend::<I> ](s: &mut HashSet<T, S, A>, it: I)
    where T: Eq + std::hash::Hash, S: std::hash::BuildHasher, A: std::alloc::Allocator, I: IntoIterator<Item = T>;
pub enum UnaryOp { Not, EX, AX, EF, AF, EG, AG }
pub enum BinaryOp { And, Or, Xor, Imp, Iff, EU, AU, EW, AW }
pub enum HybridOp { Bind, Jump, Exists, Forall }
pub enum Atomic { Prop(String), Var(String), True, False, WildCardProp(String) }
pub enum NodeType {
    Terminal(Atomic),
    Unary(UnaryOp, Box<HctlTreeNode>),
    Binary(BinaryOp, Box<HctlTreeNode>, Box<HctlTreeNode>),
    Hybrid(HybridOp, String, Option<String>, Box<HctlTreeNode>),
}
pub struct HctlTreeNode { pub formula_str: String, pub height: u32, pub node_type: NodeType }
impl HctlTreeNode {
    #[verifier::external_body] pub fn mk_hybrid(child: HctlTreeNode, var: &str, domain: Option<String>, op: HybridOp) -> (r: HctlTreeNode) { unimplemented!() }
    #[verifier::external_body] pub fn mk_unary(child: HctlTreeNode, op: UnaryOp) -> (r: HctlTreeNode) { unimplemented!() }
    #[verifier::external_body] pub fn mk_binary(left: HctlTreeNode, right: HctlTreeNode, op: BinaryOp) -> (r: HctlTreeNode) { unimplemented!() }
    #[verifier::external_body] pub fn mk_variable(var_name: &str) -> (r: HctlTreeNode) { unimplemented!() }
}
#[verifier::external_body] fn verif_msg() -> String { String::new() }

#[verifier::exec_allows_no_decreases_clause]
pub fn validate_props_and_rename_vars(
    orig_tree: HctlTreeNode,
    symbolic_context: &SymbolicContext,
) -> Result<HctlTreeNode, String> {
    validate_and_rename_recursive(orig_tree, HashMap::new(), String::new(), symbolic_context)
}

#[verifier::exec_allows_no_decreases_clause]
fn validate_and_rename_recursive(
    orig_tree: HctlTreeNode,
    mut renaming_map: HashMap<String, String>,
    mut last_used_name: String,
    ctx: &SymbolicContext,
) -> Result<HctlTreeNode, String> {
    // If we find hybrid node with binder or exist, we add new var-name to rename_dict and stack (x, xx, xxx...)
    // After we leave this binder/exist, we remove its var from rename_dict
    // When we find terminal with free var or jump node, we rename the var using rename-dict
    match orig_tree.node_type {
        // rename vars in terminal state-var nodes
        NodeType::Terminal(ref atom) => match atom {
            Atomic::Var(name) => {
                // check that variable is not free (it must be already in mapping dict)
                if !renaming_map.contains_key(name.as_str()) {
                    return Err(verif_msg());
                }
                let renamed_var = renaming_map.get(name.as_str()).unwrap();
                Ok(HctlTreeNode::mk_variable(renamed_var))
            }
            Atomic::Prop(name) => {
                // check that proposition corresponds to valid BN variable
                if ctx.find_network_variable(name).is_none() {
                    Err(verif_msg())
                } else {
                    Ok(orig_tree)
                }
            }
            // constants or wild-card propositions are always considered fine
            _ => Ok(orig_tree),
        },
        // just dive one level deeper for unary nodes, and rename string
        NodeType::Unary(op, child) => {
            let node =
                validate_and_rename_recursive(*child, renaming_map, last_used_name.clone(), ctx)?;
            Ok(HctlTreeNode::mk_unary(node, op))
        }
        // just dive deeper for binary nodes, and rename string
        NodeType::Binary(op, left, right) => {
            let node1 = validate_and_rename_recursive(
                *left,
                renaming_map.clone(),
                last_used_name.clone(),
                ctx,
            )?;
            let node2 = validate_and_rename_recursive(*right, renaming_map, last_used_name, ctx)?;
            Ok(HctlTreeNode::mk_binary(node1, node2, op))
        }
        // hybrid nodes are more complicated
        NodeType::Hybrid(op, var, domain, child) => {
            // if we hit binder or exist, we are adding its new var name to dict & stack
            // no need to do this for jump, jump is not quantifier
            match op {
                HybridOp::Bind | HybridOp::Exists | HybridOp::Forall => {
                    // check that var is not already quantified (we dont allow that)
                    if renaming_map.contains_key(var.as_str()) {
                        return Err(verif_msg());
                    }
                    last_used_name.push('x'); // this represents adding to stack
                    renaming_map.insert(var.clone(), last_used_name.clone());
                }
                _ => {}
            }

            // dive deeper
            let node = validate_and_rename_recursive(
                *child,
                renaming_map.clone(),
                last_used_name.clone(),
                ctx,
            )?;

            // if current operator is jump, make sure that it does not contain free var
            if matches!(op, HybridOp::Jump) && !renaming_map.contains_key(var.as_str()) {
                return Err(verif_msg());
            }

            // rename the variable in the node
            let renamed_var = renaming_map.get(var.as_str()).unwrap();
            Ok(HctlTreeNode::mk_hybrid(
                node,
                renamed_var.as_str(),
                domain,
                op,
            ))
        }
    }
}

#[verifier::exec_allows_no_decreases_clause]
pub fn collect_unique_hctl_vars(formula_tree: HctlTreeNode) -> HashSet<String> {
    collect_unique_hctl_vars_recursive(formula_tree, HashSet::new())
}

#[verifier::exec_allows_no_decreases_clause]
fn collect_unique_hctl_vars_recursive(
    formula_tree: HctlTreeNode,
    mut seen_vars: HashSet<String>,
) -> HashSet<String> {
    match formula_tree.node_type {
        NodeType::Terminal(_) => {}
        NodeType::Unary(_, child) => {
            seen_vars.extend(collect_unique_hctl_vars_recursive(
                *child,
                seen_vars.clone(),
            ));
        }
        NodeType::Binary(_, left, right) => {
            seen_vars.extend(collect_unique_hctl_vars_recursive(*left, seen_vars.clone()));
            seen_vars.extend(collect_unique_hctl_vars_recursive(
                *right,
                seen_vars.clone(),
            ));
        }
        // collect variables from quantifier nodes (bind, exists, forall)
        NodeType::Hybrid(op, var_name, _, child) => {
            match op {
                HybridOp::Bind | HybridOp::Exists | HybridOp::Forall => {
                    seen_vars.insert(var_name); // we do not care whether insert is successful
                }
                _ => {}
            }
            seen_vars.extend(collect_unique_hctl_vars_recursive(
                *child,
                seen_vars.clone(),
            ));
        }
    }
    seen_vars
}

#[verifier::exec_allows_no_decreases_clause]
pub fn collect_unique_wild_cards(formula_tree: HctlTreeNode) -> (HashSet<String>, HashSet<String>) {
    let mut wild_card_props = HashSet::new();
    let mut var_domains = HashSet::new();
    collect_unique_wild_cards_recursive(formula_tree, &mut wild_card_props, &mut var_domains);
    (wild_card_props, var_domains)
}

#[verifier::exec_allows_no_decreases_clause]
fn collect_unique_wild_cards_recursive(
    formula_tree: HctlTreeNode,
    seen_props: &mut HashSet<String>,
    seen_domains: &mut HashSet<String>,
) {
    match formula_tree.node_type {
        NodeType::Terminal(atom) => {
            if let Atomic::WildCardProp(prop_name) = atom {
                seen_props.insert(prop_name);
            }
        }
        NodeType::Unary(_, child) => {
            collect_unique_wild_cards_recursive(*child, seen_props, seen_domains);
        }
        NodeType::Binary(_, left, right) => {
            collect_unique_wild_cards_recursive(*left, seen_props, seen_domains);
            collect_unique_wild_cards_recursive(*right, seen_props, seen_domains);
        }
        NodeType::Hybrid(_, _, optional_domain, child) => {
            if let Some(domain) = optional_domain {
                seen_domains.insert(domain);
            }

            collect_unique_wild_cards_recursive(*child, seen_props, seen_domains);
        }
    }
}
fn main() {}
}
