use vstd::prelude::*;
verus! {
pub enum UnaryOp { Not, EX, EG }
pub enum HybridOp { Bind, Jump, Exists, Forall }
pub enum Atomic { Prop(String), Var(String), True, False, WildCardProp(String) }
pub enum NodeType {
    Terminal(Atomic),
    Unary(UnaryOp, Box<HctlTreeNode>),
    Binary(Box<HctlTreeNode>, Box<HctlTreeNode>),
    Hybrid(HybridOp, String, Option<String>, Box<HctlTreeNode>),
}
pub struct HctlTreeNode { pub formula_str: String, pub height: u32, pub node_type: NodeType }

pub struct Pt { pub s: Seq<bool>, pub c: int, pub e: Seq<Seq<bool>> }
pub struct Model { pub n: nat }
pub uninterp spec fn can_flip(m: Model, v: int, s: Seq<bool>, c: int) -> bool;
pub uninterp spec fn prop_idx(m: Model, name: Seq<char>) -> int;
pub open spec fn flip(s: Seq<bool>, v: int) -> Seq<bool> { s.update(v, !s[v]) }
pub open spec fn steady(m: Model, s: Seq<bool>, c: int) -> bool { forall|v: int| 0 <= v < m.n ==> !can_flip(m, v, s, c) }
pub open spec fn ex(m: Model, z: ISet<Pt>) -> ISet<Pt> {
    ISet::new(|p: Pt| (exists|v: int| 0 <= v < m.n && can_flip(m, v, p.s, p.c) && z.contains(Pt{s: flip(p.s, v), ..p})) || (steady(m, p.s, p.c) && z.contains(p)))
}
pub open spec fn gfp_eg(m: Model, phi: ISet<Pt>) -> ISet<Pt> {
    ISet::new(|p: Pt| exists|z: ISet<Pt>| z.subset_of(phi) && z.subset_of(ex(m, z)) && z.contains(p))
}
pub open spec fn slot(name: Seq<char>) -> int { name.len() - 1 }

pub open spec fn sem(node: HctlTreeNode, m: Model) -> ISet<Pt>
    decreases node
{
    match node.node_type {
        NodeType::Terminal(Atomic::True) => ISet::new(|p: Pt| true),
        NodeType::Terminal(Atomic::False) => ISet::empty(),
        NodeType::Terminal(Atomic::Prop(name)) => ISet::new(|p: Pt| p.s[prop_idx(m, name@)]),
        NodeType::Terminal(Atomic::Var(name)) => ISet::new(|p: Pt| p.e[slot(name@)] == p.s),
        NodeType::Terminal(Atomic::WildCardProp(name)) => ISet::empty(),
        NodeType::Unary(UnaryOp::Not, child) => sem(*child, m).complement(),
        NodeType::Unary(UnaryOp::EX, child) => ex(m, sem(*child, m)),
        NodeType::Unary(UnaryOp::EG, child) => gfp_eg(m, sem(*child, m)),
        NodeType::Binary(l, r) => sem(*l, m).intersect(sem(*r, m)),
        NodeType::Hybrid(HybridOp::Bind, x, _, child) => { let c = sem(*child, m); ISet::new(|p: Pt| c.contains(Pt{e: p.e.update(slot(x@), p.s), ..p})) },
        NodeType::Hybrid(HybridOp::Jump, x, _, child) => { let c = sem(*child, m); ISet::new(|p: Pt| c.contains(Pt{s: p.e[slot(x@)], ..p})) },
        NodeType::Hybrid(HybridOp::Exists, x, _, child) => { let c = sem(*child, m); ISet::new(|p: Pt| exists|s2: Seq<bool>| c.contains(Pt{e: p.e.update(slot(x@), s2), ..p})) },
        NodeType::Hybrid(HybridOp::Forall, x, _, child) => { let c = sem(*child, m); ISet::new(|p: Pt| forall|s2: Seq<bool>| c.contains(Pt{e: p.e.update(slot(x@), s2), ..p})) },
    }
}

pub struct Ctx { pub n: u32 }
fn leaf(h: u32) -> u32 { h }
fn walk(node: HctlTreeNode, ctx: &mut Ctx) -> (r: u32)
    decreases node
{
    match node.node_type {
        NodeType::Terminal(atom) => 0,
        NodeType::Unary(op, child) => { let c = walk(*child, ctx); if ctx.n < 5 { ctx.n = ctx.n + 1; } c },
        NodeType::Binary(left, right) => { let a = walk(*left, ctx); let b = walk(*right, ctx); a },
        NodeType::Hybrid(HybridOp::Jump, var, _, child) => walk(*child, ctx),
        NodeType::Hybrid(op, var, maybe_domain, child) => {
            let res = match maybe_domain {
                None => walk(*child, ctx),
                Some(domain) => { let k = domain.as_str(); walk(*child, ctx) }
            };
            res
        }
    }
}
fn main() {}
}
