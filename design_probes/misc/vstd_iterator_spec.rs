use vstd::prelude::*;
use vstd::std_specs::iter::IteratorSpec;

verus! {
fn t3(s: &str) -> (n: usize)
{
    let mut n: usize = 0;
    let mut it = s.chars();
    let ghost r0 = it.remaining();
    let x = it.next();
    assert(r0.len() > 0 ==> x == Some(r0[0]) && it.remaining() == r0.drop_first());
    for c in s.chars()
    {
        if n < 100 { n = n + 1; }
    }
    n
}
fn t4(n: usize) {
    let mut k: usize = 0;
    for i in (0..n).rev()
        invariant k <= n
    {
        if k < n { k = k + 1; }
    }
}
fn main() {}
}
