"""Small Rust-aware scanner used by the extractor.

It is *not* a parser.  It splits Rust source into tokens that are good enough to
 * skip comments, string / raw-string / byte-string / char literals and lifetimes,
 * match braces, parentheses and brackets,
 * find `fn NAME`, `impl TYPE`, `enum/struct NAME` items by name.
A naive brace matcher is fooled by the `'{'` / `'}'` char literals of tokenizer.rs,
which is why this exists.
"""
import re

IDENT = re.compile(r'[A-Za-z_][A-Za-z0-9_]*')
NUM = re.compile(r'[0-9][0-9A-Za-z_]*(\.[0-9][0-9A-Za-z_]*)?')
CHAR = re.compile(r"'(\\x[0-9a-fA-F]{2}|\\u\{[0-9a-fA-F_]+\}|\\.|[^\\'\n])'")
LIFETIME = re.compile(r"'[A-Za-z_][A-Za-z0-9_]*")
RAWSTR = re.compile(r'b?r(#*)"')
MULTI = ['->', '=>', '::', '..=', '...', '..', '==', '!=', '<=', '>=', '&&', '||', '+=', '-=', '*=', '/=']


class Tok:
    __slots__ = ('kind', 'text', 'pos')

    def __init__(self, kind, text, pos):
        self.kind = kind
        self.text = text
        self.pos = pos

    @property
    def end(self):
        return self.pos + len(self.text)

    def __repr__(self):
        return f'Tok({self.kind},{self.text!r},{self.pos})'


def tokenize(src):
    """Return the full token list (including whitespace and comments): concatenating
    the token texts gives back `src` exactly."""
    toks = []
    i, n = 0, len(src)
    while i < n:
        c = src[i]
        if c.isspace():
            j = i
            while j < n and src[j].isspace():
                j += 1
            toks.append(Tok('ws', src[i:j], i)); i = j; continue
        if src.startswith('//', i):
            j = src.find('\n', i)
            j = n if j < 0 else j
            toks.append(Tok('comment', src[i:j], i)); i = j; continue
        if src.startswith('/*', i):
            d, j = 1, i + 2
            while j < n and d > 0:
                if src.startswith('/*', j):
                    d += 1; j += 2
                elif src.startswith('*/', j):
                    d -= 1; j += 2
                else:
                    j += 1
            toks.append(Tok('comment', src[i:j], i)); i = j; continue
        m = RAWSTR.match(src, i)
        if m:
            h = m.group(1)
            end = src.find('"' + h, m.end())
            if end < 0:
                raise ValueError('unterminated raw string at %d' % i)
            j = end + 1 + len(h)
            toks.append(Tok('str', src[i:j], i)); i = j; continue
        if c == '"' or (c == 'b' and src.startswith('b"', i)):
            j = i + (2 if c == 'b' else 1)
            while j < n and src[j] != '"':
                j += 2 if src[j] == '\\' else 1
            j += 1
            toks.append(Tok('str', src[i:j], i)); i = j; continue
        if c == "'" or (c == 'b' and src.startswith("b'", i)):
            k = i + (1 if c == 'b' else 0)
            m = CHAR.match(src, k)
            if m:
                toks.append(Tok('char', src[i:m.end()], i)); i = m.end(); continue
            m = LIFETIME.match(src, k)
            if m and c == "'":
                toks.append(Tok('lifetime', m.group(0), i)); i = m.end(); continue
        m = IDENT.match(src, i)
        if m:
            toks.append(Tok('ident', m.group(0), i)); i = m.end(); continue
        m = NUM.match(src, i)
        if m:
            toks.append(Tok('num', m.group(0), i)); i = m.end(); continue
        for p in MULTI:
            if src.startswith(p, i):
                toks.append(Tok('punct', p, i)); i += len(p); break
        else:
            toks.append(Tok('punct', c, i)); i += 1
    return toks


def code_tokens(toks):
    """tokens without whitespace and comments"""
    return [t for t in toks if t.kind not in ('ws', 'comment')]


OPEN = {'(': ')', '[': ']', '{': '}'}
CLOSE = {')': '(', ']': '[', '}': '{'}


def match_close(ct, i):
    """ct: code tokens, ct[i] is an opening bracket; return index of matching close"""
    assert ct[i].kind == 'punct' and ct[i].text in OPEN, ct[i]
    depth = 0
    for j in range(i, len(ct)):
        t = ct[j]
        if t.kind != 'punct':
            continue
        if t.text in OPEN:
            depth += 1
        elif t.text in CLOSE:
            depth -= 1
            if depth == 0:
                return j
    raise ValueError('unbalanced bracket at %d' % ct[i].pos)


def skip_angle(ct, i):
    """ct[i] is '<' opening a generic list; return index after the matching '>'"""
    assert ct[i].text == '<'
    depth = 0
    j = i
    while j < len(ct):
        t = ct[j]
        if t.kind == 'punct':
            if t.text == '<':
                depth += 1
            elif t.text == '>':
                depth -= 1
                if depth == 0:
                    return j + 1
            elif t.text in OPEN:
                j = match_close(ct, j)
        j += 1
    raise ValueError('unbalanced <')


def norm_ws(s):
    return ' '.join(s.split())
