#!/bin/sh
# usage: eval_micro.sh <set> : every patch /tmp/wt/<set>/_benign/<k>.diff is applied in the scratch worktree /tmp/wt/<set> and the units that
# verify functions of the touched file are run (tools/vu.py); prints the verdict for the touched unit(s): OK / DEGRADED (= undecided) / failed obligations
SET=$1
cd /verif
for f in $(ls /tmp/wt/$SET/_benign/*.diff | sort -V); do
  k=$(basename $f .diff)
  git -C /tmp/wt/$SET checkout -q -- src
  git -C /tmp/wt/$SET apply $f 2>/dev/null || { echo "$SET/$k patch does not apply"; continue; }
  file=$(git -C /tmp/wt/$SET diff --name-only | head -1)
  case "$file" in
    *tokenizer.rs) units="lex";; *parser.rs) units="tree front";; *hctl_tree.rs|*operator_enums.rs) units="tree";;
    *preprocessing/utils.rs) units="front api";; *mc_utils.rs|*model_checking.rs|*sanitizing.rs) units="api";;
    *canonization.rs) units="canon";; *mark_duplicates.rs) units="mark";; *eval_context.rs) units="mark api";;
    *algorithm.rs) units="eval";; *low_level_operations.rs) units="ops eval";; *hctl_operators_eval.rs) units="ops";;
    *analysis.rs|*load_inputs.rs) units="tool";; *convert_aeon_to_bnet.rs) units="conv";; *) units="api";;
  esac
  for u in $units; do
    out=$(VERIF_REPO=/tmp/wt/$SET VERIF_BUILD_DIR=/tmp/t/build_$SET python3 tools/vu.py $u 2>&1 | grep -E "^\[|DEGRADED|EXTRACT|AUTOSTUB" | grep -v "known_d\|KNOWN" | cut -c1-220 | head -3 | tr '\n' '|')
    echo "$SET/$k $file [$u] ${out:-OK}"
  done
done
git -C /tmp/wt/$SET checkout -q -- src; rm -rf /tmp/t/build_$SET
