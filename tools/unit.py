"""Assemble a verification unit from its template, run Verus on it, classify diagnostics."""
import json
import os
import re
import subprocess
import time

import extract as X

VERIF = os.path.dirname(os.path.dirname(os.path.abspath(__file__)))
BUILD = os.environ.get('VERIF_BUILD_DIR', os.path.join(VERIF, 'build'))
REPO = os.environ.get('VERIF_REPO', '/repo')

VERIFICATION_FAILURE = [
    'postcondition not satisfied',
    'precondition not satisfied',
    'assertion failed',
    'invariant not satisfied before loop',
    'invariant not satisfied at end of loop body',
    'loop invariant not satisfied',
    'possible arithmetic underflow/overflow',
    'possible division by zero',
    'decreases not satisfied',
    'could not prove termination',
    'unreachable',
    'failed to satisfy ensures of loop',
    'loop ensures not satisfied',
    'possible bit shift underflow/overflow',
    'assertion failed in',
    'cannot show invariant holds',
    'recommendation not met',
    'unable to prove',
    'might fail',
]
UNDECIDED = ['rlimit', 'resource limit', 'timed out', 'timeout']


class Unit:
    def __init__(self, name):
        self.name = name
        self.template = os.path.join(VERIF, 'units', name + '.rs')
        self.segments = []     # dicts: kind, name, gline0, gline1, file, line0, line1, sha
        self.rule_log = []
        self.fmt_fns = {}
        self.verified_contracts = []
        self.assumed_contracts = []
        self.trusted_contracts = []
        self.types = []
        self.degraded = []     # verify-contracts that had to be emitted as assumed (extraction failure)
        self.autostubs = []    # functions of the repo that the verified code calls but that have no contract (new helpers): emitted with an EMPTY contract


def _process(unit, path, contracts, mode, out, depth=0):
    if depth > 5:
        raise X.ExtractError('include depth')
    with open(path, encoding='utf-8') as f:
        lines = f.read().split('\n')
    for line in lines:
        m = re.match(r'^\s*//@(\w+)\s*(.*)$', line)
        if not m:
            out.append(line)
            continue
        d, arg = m.group(1), m.group(2).strip()
        if d == 'include':
            out.append(f'// ---- include {arg}')
            _process(unit, os.path.join(VERIF, arg), contracts, mode, out, depth + 1)
        elif d == 'type':
            rel, name = arg.split()
            text, info = X.emit_type(REPO, rel, name)
            g0 = len(out) + 1
            out.append(f'// ---- extracted type {name} from {rel}:{info[1]}-{info[2]} (derives dropped: R-derive)')
            out.extend(text.rstrip('\n').split('\n'))
            unit.types.append({'name': name, 'file': rel, 'line0': info[1], 'line1': info[2], 'sha256': info[3]})
            unit.segments.append({'kind': 'type', 'name': name, 'gline0': g0, 'gline1': len(out)})
        elif d in ('verify', 'assume', 'trusted'):
            if arg not in contracts:
                raise X.ExtractError(f'unit {unit.name}: no contract named {arg}')
            c = contracts[arg]
            try:
                em = X.emit_function(REPO, c, 'verify' if d == 'verify' else 'assume', unit.fmt_fns)
            except X.ExtractError as e:
                if d != 'verify':
                    raise
                # graceful degradation: the function can no longer be brought into the verifier's reach (lost anchor, a rewrite
                # rule that no longer applies). It is emitted as an ASSUMED contract so that the rest of the unit is still
                # checked; the driver reports the property as undecided (exit 2) unless another obligation definitely fails.
                try:
                    em = X.emit_function(REPO, c, 'assume', unit.fmt_fns)
                except X.ExtractError as e2:
                    if 'not found in' in str(e2):
                        # the function no longer exists in the repository: nothing to emit (a remaining call of it is a front-end
                        # error); recorded as degraded, so the property is undecided unless another obligation definitely fails
                        unit.degraded.append({'contract': arg, 'reason': 'removed from the repository: ' + str(e2)})
                        out.append(f'// ---- {arg}: item no longer exists in the repository')
                        continue
                    raise
                unit.degraded.append({'contract': arg, 'reason': str(e)})
                d = 'assume'
            g0 = len(out) + 1
            fn = em.fn
            out.append(f'// ---- {d} {arg}: {c.file}:{fn.line_start}-{fn.line_end} sha256={fn.sha256[:16]}')
            out.extend(em.text.rstrip('\n').split('\n'))
            seg = {'kind': d, 'name': arg, 'fn': fn.name, 'gline0': g0, 'gline1': len(out), 'file': c.file,
                   'line0': fn.line_start, 'line1': fn.line_end, 'sha256': fn.sha256}
            unit.segments.append(seg)
            {'verify': unit.verified_contracts, 'assume': unit.assumed_contracts,
             'trusted': unit.trusted_contracts}[d].append(arg)
            if d == 'verify':
                unit.rule_log.extend(em.log)
                if mode == 'vacuity' and not c.novac:
                    em2 = X.emit_function(REPO, c, 'vacuity', unit.fmt_fns)
                    g0 = len(out) + 1
                    out.append(f'// ---- vacuity twin of {arg}')
                    out.extend(em2.text.rstrip('\n').split('\n'))
                    unit.segments.append({'kind': 'vacuity', 'name': arg, 'fn': fn.name + '__vac',
                                          'gline0': g0, 'gline1': len(out)})
        elif d == 'dbgtable':
            rel, name = arg.split()
            text, info = X.emit_dbgtable(REPO, rel, name)
            out.append(f'// ---- generated Debug table of {name} ({rel}:{info[1]}-{info[2]}): variant identifiers, #[derive(Debug)] checked')
            out.extend(text.rstrip('\n').split('\n'))
        elif d == 'fmtfns':
            out.append('//@@FMTFNS@@')
        else:
            raise X.ExtractError(f'{path}: unknown directive //@{d}')


def _emit_autostub(rel, name):
    """a free function of the repo without a contract, called by verified code: external_body, NO requires / ensures (its result
    and its effect on &mut arguments are unknown to the callers)"""
    fn = X.lookup_fn(REPO, rel, name)
    if fn.impl_type:
        raise X.ExtractError('autostub: methods are not supported')
    return ('// ---- AUTOSTUB %s (%s:%d-%d): no contract exists for this function; callers know nothing about its result\n'
            '#[verifier::external_body]\n%s\n{ unimplemented!() }') % (name, rel, fn.line_start, fn.line_end, fn.sig_text.rstrip())


def build(unit_name, contracts, mode='verify', autostubs=()):
    unit = Unit(unit_name)
    out = []
    _process(unit, unit.template, contracts, mode, out)
    if autostubs:
        idx = max(i for i, l in enumerate(out) if l.strip() == 'fn main() {}')
        gen = []
        for rel, name in autostubs:
            gen.extend(_emit_autostub(rel, name).split('\n'))
            unit.autostubs.append({'file': rel, 'function': name})
        out[idx:idx] = gen
    # place generated format functions (line numbers of segments after the marker shift)
    if any(l == '//@@FMTFNS@@' for l in out):
        idx = out.index('//@@FMTFNS@@')
        gen = []
        for k in sorted(unit.fmt_fns):
            gen.extend(unit.fmt_fns[k].rstrip('\n').split('\n'))
        shift = len(gen) - 1
        out[idx:idx + 1] = gen if gen else ['// (no generated format functions)']
        if not gen:
            shift = 0
        for s in unit.segments:
            if s['gline0'] > idx + 1:
                s['gline0'] += shift
                s['gline1'] += shift
    elif unit.fmt_fns:
        raise X.ExtractError(f'unit {unit_name}: format functions generated but no //@fmtfns marker')
    text = '\n'.join(out) + '\n'
    os.makedirs(BUILD, exist_ok=True)
    path = os.path.join(BUILD, f'{unit_name}{"_vac" if mode == "vacuity" else ""}.rs')
    with open(path, 'w', encoding='utf-8') as f:
        f.write(text)
    unit.path = path
    unit.text = text
    return unit


def segment_at(unit, line):
    for s in unit.segments:
        if s['gline0'] <= line <= s['gline1']:
            return s
    return None


def run_verus(unit, rlimit=None, timeout=900, extra=None, multiple_errors='5'):
    cmd = ['verus', '--edition', '2024', '--triggers-mode', 'silent', '--error-format=json',
           '--output-json', '--time', '--num-threads', os.environ.get('VERIF_VERUS_THREADS', '8'),
           # Verus stops after 2 failed obligations per function by default: the two known findings in eval_node would hide
           # any further failure of that function
           '--multiple-errors', str(multiple_errors)]
    if rlimit:
        cmd += ['--rlimit', str(rlimit)]
    if extra:
        cmd += extra
    cmd.append(unit.path)
    t0 = time.time()
    try:
        p = subprocess.run(cmd, capture_output=True, text=True, timeout=timeout, cwd=BUILD)
        stdout, stderr, rc = p.stdout, p.stderr, p.returncode
        timed_out = False
    except subprocess.TimeoutExpired as e:
        stdout = e.stdout.decode() if isinstance(e.stdout, bytes) else (e.stdout or '')
        stderr = e.stderr.decode() if isinstance(e.stderr, bytes) else (e.stderr or '')
        rc, timed_out = -1, True
    wall = time.time() - t0
    res = {'cmd': ' '.join(cmd), 'rc': rc, 'wall_s': round(wall, 2), 'timed_out': timed_out,
           'diags': [], 'frontend_errors': [], 'undecided': [], 'summary': None, 'functions': {},
           'smt_ms': None, 'raw_stderr_tail': stderr[-4000:]}
    # diagnostics are JSON lines on stderr; the summary JSON is on stdout
    for line in stderr.split('\n'):
        line = line.strip()
        if not line.startswith('{'):
            continue
        try:
            d = json.loads(line)
        except ValueError:
            continue
        if d.get('$message_type') != 'diagnostic':
            continue
        if d.get('level') not in ('error',):
            continue
        msg = d.get('message', '')
        if msg.startswith('aborting due to'):
            continue
        prim = None
        for sp in d.get('spans', []):
            if sp.get('is_primary'):
                prim = sp
        low = msg.lower()
        entry = {'message': msg, 'rendered': d.get('rendered', '')}
        spans = []
        for sp in d.get('spans', []):
            seg = segment_at(unit, sp['line_start'])
            spans.append({'line': sp['line_start'], 'line_end': sp['line_end'], 'label': sp.get('label'),
                          'primary': sp.get('is_primary'),
                          'text': '\n'.join(t['text'] for t in sp.get('text', []))[:1500],
                          'segment': seg['name'] if seg else None,
                          'segment_kind': seg['kind'] if seg else None})
        entry['spans'] = spans
        # the function the obligation belongs to: prefer a span inside a verify/vacuity segment
        owner = None
        for sp in spans:
            if sp['segment_kind'] in ('verify', 'vacuity'):
                owner = (sp['segment'], sp['segment_kind'])
                if sp['label'] and 'postcondition' in (sp['label'] or ''):
                    break
        if owner is None:
            for sp in spans:
                if sp['segment']:
                    owner = (sp['segment'], sp['segment_kind'])
                    break
        if owner is None and prim is not None:
            # a failing proof function of the specification layer: name it (the two known findings are such named obligations)
            ulines = unit.text.split('\n')
            for ln in range(min(prim['line_start'], len(ulines)) - 1, max(prim['line_start'] - 400, -1), -1):
                mm = re.match(r'^\s*(?:pub\s+)?(?:broadcast\s+)?proof\s+fn\s+(\w+)', ulines[ln])
                if mm:
                    owner = (mm.group(1), 'lemma')
                    break
        entry['owner'] = owner[0] if owner else None
        entry['owner_kind'] = owner[1] if owner else None
        entry['clause'] = ''
        if prim:
            entry['clause'] = '\n'.join(t['text'] for t in prim.get('text', []))[:1500].strip()
        if any(u in low for u in UNDECIDED):
            res['undecided'].append(entry)
        elif any(low.startswith(v) or v in low for v in VERIFICATION_FAILURE):
            res['diags'].append(entry)
        else:
            res['frontend_errors'].append(entry)
    i = stdout.find('{')
    if i >= 0:
        try:
            summ = json.loads(stdout[i:])
            vr = summ.get('verification-results', {})
            res['summary'] = vr
            tm = summ.get('times-ms', {})
            smt = tm.get('smt', {})
            res['smt_ms'] = smt.get('smt-run')
            res['verus_version'] = summ.get('verus', {}).get('version')
            for mod in smt.get('smt-run-module-times', []):
                for fb in mod.get('function-breakdown', []):
                    nm = fb['function'].split('::', 1)[-1]
                    res['functions'][nm] = {'ms': fb.get('time'), 'rlimit': fb.get('rlimit'),
                                            'success': fb.get('success'), 'mode': fb.get('mode:')}
        except ValueError:
            pass
    if res['summary'] is None and not res['frontend_errors'] and not timed_out:
        res['frontend_errors'].append({'message': 'verus produced no summary', 'rendered': stderr[-2000:],
                                       'spans': [], 'owner': None, 'owner_kind': None, 'clause': ''})
    return res


def build_and_run(unit_name, contracts, mode='verify', **kw):
    """build + run; a call of a repo function that has no contract (E0425: a NEW helper) gets an empty-contract stub and the unit is
    re-run, so that the callers' obligations decide (the driver never reports such a unit as passed)"""
    stubs = []
    for _ in range(5):
        u = build(unit_name, contracts, mode, autostubs=tuple(stubs))
        r = run_verus(u, **kw)
        new = None
        for d in r['frontend_errors']:
            m = re.search(r'cannot find (?:function|value) `(\w+)` in this scope', d['message'])
            if not m:
                continue
            name = m.group(1)
            files = sorted({s['file'] for s in u.segments if s.get('file')})
            for rel in files:
                try:
                    fn = X.lookup_fn(REPO, rel, name)
                except X.ExtractError:
                    continue
                if not fn.impl_type and (rel, name) not in stubs:
                    new = (rel, name)
                    break
            if new:
                break
        if not new:
            return u, r
        stubs.append(new)
    return u, r
