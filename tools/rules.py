"""The closed list of syntactic rewrite rules (DESIGN.md section 3.1).

Each rule is `rule_<name>(ctx, sig, body, arg) -> (sig, body)`; it must either apply as
declared (and log what it did) or raise RuleError ("rule not applicable" => undecided).
A rule never invents executable behaviour: it removes an observer (callback / print), swaps a
construct Verus cannot type for the language-defined desugaring, or replaces a formatting
macro by an external function whose `ensures` is read off the literal in the repo source.
"""
import re

from rlex import tokenize, code_tokens, match_close, norm_ws


class RuleError(Exception):
    pass


class RuleCtx:
    def __init__(self, cname, fmt_fns, log):
        self.cname = cname
        self.fmt_fns = fmt_fns   # dict name -> generated fn text (shared per unit)
        self.log = log
        self.inherent = False    # R-display: a trait method emitted as an inherent method

    def note(self, rule, before, after):
        self.log.append({'rule': rule, 'contract': self.cname,
                         'before': norm_ws(before)[:300], 'after': norm_ws(after)[:300]})


# ------------------------------------------------------------------ helpers

def _macro_calls(text, macro):
    """yield (start, end, inner) for every `macro!( ... )` in text (outside comments/strings)"""
    toks = tokenize(text)
    ct = code_tokens(toks)
    res = []
    for i, t in enumerate(ct):
        if t.kind == 'ident' and t.text == macro and i + 2 < len(ct) and ct[i + 1].text == '!' \
                and ct[i + 2].text in ('(', '[', '{'):
            close = match_close(ct, i + 2)
            res.append((t.pos, ct[close].end, text[ct[i + 2].end:ct[close].pos]))
    return res


def _split_top_commas(s):
    toks = tokenize(s)
    ct = code_tokens(toks)
    parts, depth, last = [], 0, 0
    i = 0
    while i < len(ct):
        t = ct[i]
        if t.kind == 'punct':
            if t.text in '([{':
                depth += 1
            elif t.text in ')]}':
                depth -= 1
            elif t.text == ',' and depth == 0:
                parts.append(s[last:t.pos])
                last = t.end
        i += 1
    tail = s[last:]
    if tail.strip():
        parts.append(tail)
    return [p.strip() for p in parts]


def _parse_format_literal(lit):
    """lit: Rust string literal token text (with quotes).  Returns list of pieces:
    ('lit', text) | ('arg', name_or_None)"""
    assert lit.startswith('"') and lit.endswith('"'), lit
    s = lit[1:-1]
    # unescape the few escapes that occur
    out, cur, i = [], '', 0
    while i < len(s):
        c = s[i]
        if c == '\\':
            nxt = s[i + 1]
            cur += {'n': '\n', 't': '\t', '\\': '\\', '"': '"', "'": "'"}.get(nxt, None) or _bad_escape(nxt)
            i += 2
        elif c == '{':
            if s[i + 1] == '{':
                cur += '{'; i += 2
            else:
                j = s.index('}', i)
                spec = s[i + 1:j]
                kind = 'arg'
                if spec.endswith(':?'):
                    # Debug rendering (only of field-less enums: the declared type must be a `T?` pseudo-type of FMT_TYPES)
                    kind, spec = 'dbg', spec[:-2]
                if ':' in spec:
                    raise RuleError(f'format spec `{{{spec}}}` not supported')
                if cur:
                    out.append(('lit', cur)); cur = ''
                out.append((kind, spec if spec else None))
                i = j + 1
        elif c == '}':
            if s[i + 1:i + 2] == '}':
                cur += '}'; i += 2
            else:
                raise RuleError('stray } in format literal')
        else:
            cur += c; i += 1
    if cur:
        out.append(('lit', cur))
    return out


def _bad_escape(c):
    raise RuleError(f'escape \\{c} not supported in format literal')


def _rust_str(s):
    return '"' + s.replace('\\', '\\\\').replace('"', '\\"').replace('\n', '\\n') + '"'


# type table for R-fmt-val: type -> (param type, how to pass expr, spec rendering of param `a`)
FMT_TYPES = {
    'str': ('&str', '{e}', '{a}@'),
    'String': ('&String', '&({e})', '{a}@'),
    'UnaryOp': ('&UnaryOp', '&({e})', 'disp_unary(*{a})'),
    'BinaryOp': ('&BinaryOp', '&({e})', 'disp_binary(*{a})'),
    'HybridOp': ('&HybridOp', '&({e})', 'disp_hybrid(*{a})'),
    'Atomic': ('&Atomic', '&({e})', 'disp_atom(view_atom(*{a}))'),
    'HctlTreeNode': ('&HctlTreeNode', '&({e})', '{a}.formula_str@'),
    'usize': ('usize', '{e}', 'dec_digits({a} as nat)'),
    'char': ('char', '{e}', 'seq![{a}]'),
    # any primitive integer type (the unit must declare the trait DecFmt): keeps a change of the integer type within reach
    'int': ('impl DecFmt', '{e}', 'dec_digits_int({a}.dec_view())'),
    'i32': ('i32', '{e}', 'dec_digits_int({a} as int)'),
    # `{x:?}` of a field-less enum with #[derive(Debug)]: the variant identifier (table generated from the enum by //@dbgtable);
    # the expression is already a reference (a binding of `match self`)
    'UnaryOp?': ('&UnaryOp', '{e}', 'dbg_UnaryOp(*{a})'),
    'BinaryOp?': ('&BinaryOp', '{e}', 'dbg_BinaryOp(*{a})'),
    'strref': ('&str', '{e}', '{a}@'),
}


# ------------------------------------------------------------------ rules

def rule_fmtval(ctx, sig, body, arg):
    """@rule fmtval <occurrence> <Type> <Type> ...   (types of the arguments in order of
    appearance in the literal).  The n-th `format!` (counted on the *current* text, i.e. after
    earlier rules) is replaced by a call of a generated external function whose postcondition
    is the concatenation read off the literal."""
    parts = arg.split()
    occ = int(parts[0])
    types = parts[1:]
    calls = _macro_calls(body, 'format')
    if occ < 1 or occ > len(calls):
        raise RuleError(f'format! occurrence {occ} not found')
    start, end, inner = calls[occ - 1]
    args = _split_top_commas(inner)
    lit = args[0]
    pieces = _parse_format_literal(lit)
    explicit = args[1:]
    exprs = []
    k = 0
    for kind, v in pieces:
        if kind in ('arg', 'dbg'):
            if v is None:
                if k >= len(explicit):
                    raise RuleError('not enough positional format arguments')
                exprs.append(explicit[k]); k += 1
            else:
                exprs.append(v)
    if k != len(explicit):
        raise RuleError('unused positional format arguments')
    if len(exprs) != len(types):
        raise RuleError(f'fmtval: {len(exprs)} arguments in literal {lit}, {len(types)} types declared')
    fname = f'fmt_{ctx.cname}_{_lit_id(lit)}'
    params, passes, spec = [], [], []
    ai = 0
    for kind, v in pieces:
        if kind == 'lit':
            spec.append(_rust_str(v) + '@')
        else:
            ty = types[ai]
            if (kind == 'dbg') != ty.endswith('?'):
                raise RuleError(f'fmtval: argument {ai} of {lit} is rendered with {"Debug" if kind == "dbg" else "Display"}, declared type {ty}')
            if ty not in FMT_TYPES:
                raise RuleError(f'fmtval: no Display model for type {ty}')
            pty, how, rend = FMT_TYPES[ty]
            a = f'a{ai}'
            params.append(f'{a}: {pty}')
            passes.append(how.format(e=exprs[ai]))
            spec.append(rend.format(a=a))
            ai += 1
    ens = ' + '.join(spec) if spec else 'Seq::<char>::empty()'
    text = (f'// R-fmt-val: generated from `format!({lit}, ..)` in the repo source\n'
            f'#[verifier::external_body]\nfn {fname}({", ".join(params)}) -> (r: String)\n'
            f'    ensures r@ == {ens}\n{{ unimplemented!() }}\n')
    if fname in ctx.fmt_fns and ctx.fmt_fns[fname] != text:
        raise RuleError(f'fmtval: name clash {fname}')
    ctx.fmt_fns[fname] = text
    new = f'{fname}({", ".join(passes)})'
    ctx.note('R-fmt-val', body[start:end], new + '   // ensures r@ == ' + ens)
    return sig, body[:start] + new + body[end:]


def rule_display(ctx, sig, body, arg):
    """R-display: `fn fmt(&self, f: &mut fmt::Formatter) -> fmt::Result` of an `impl fmt::Display for T` is verified as an inherent
    method over a text sink: the Formatter becomes `FmtSink` (a String that `put` appends to), `write!(f, LIT, args)` becomes
    `f.put(format!(LIT, args))` (std: write! appends the formatted text to the formatter's output and returns its Result)."""
    sig2 = re.sub(r'&\s*mut\s+(?:std\s*::\s*)?(?:fmt\s*::\s*)?Formatter(?:\s*<\s*\'_\s*>)?', '&mut FmtSink', sig)
    sig2 = re.sub(r'->\s*(?:std\s*::\s*)?fmt\s*::\s*Result', '-> Result<(), std::fmt::Error>', sig2)
    if sig2 == sig or 'FmtSink' not in sig2 or 'std::fmt::Error' not in sig2:
        raise RuleError('signature is not `fn fmt(&self, f: &mut fmt::Formatter) -> fmt::Result`')
    ctx.note('R-display', sig, sig2)
    n = 0
    while True:
        calls = _macro_calls(body, 'write')
        if not calls:
            break
        start, end, inner = calls[0]
        args = _split_top_commas(inner)
        if len(args) < 2 or args[0].strip() != 'f':
            raise RuleError(f'write!({inner}) does not write to the formatter `f`')
        new = 'f.put(format!(' + ', '.join(args[1:]) + '))'
        ctx.note('R-display', body[start:end], new)
        body = body[:start] + new + body[end:]
        n += 1
    if n == 0:
        raise RuleError('no write! in the body')
    # every write! of a literal WITHOUT arguments is given its generated format function here (no type information needed); the ones
    # with arguments are left to explicit (optional) fmtval rules of the contract
    while True:
        calls = _macro_calls(body, 'format')
        k = None
        for idx, (start, end, inner) in enumerate(calls):
            args = _split_top_commas(inner)
            if len(args) == 1 and args[0].startswith('"') and all(kind == 'lit' for kind, v in _parse_format_literal(args[0])):
                k = idx + 1
                break
        if k is None:
            break
        sig2, body = rule_fmtval(ctx, sig2, body, str(k))
    ctx.inherent = True
    return sig2, body


def _lit_id(lit):
    import hashlib
    return hashlib.sha256(lit.encode()).hexdigest()[:8]


def rule_fmtmsg(ctx, sig, body, arg):
    """every remaining `format!(..)` becomes `verif_msg()` (an opaque String): only error /
    progress messages may be left at this point; a value that matters would make the
    proof fail, never pass."""
    n = 0
    while True:
        calls = _macro_calls(body, 'format')
        if not calls:
            break
        start, end, inner = calls[0]
        ctx.note('R-fmt-msg', body[start:end], 'verif_msg()')
        body = body[:start] + 'verif_msg()' + body[end:]
        n += 1
    if n == 0:
        raise RuleError('no format! left')
    return sig, body


def rule_tostr(ctx, sig, body, arg):
    """@rule tostr <expr> <Type>: `<expr>.to_string()` -> `tostr_<Type>(&<expr>)` whose (assumed)
    contract is the Display table of that type."""
    expr, ty = arg.split()
    pat = re.compile(r'\s*\.\s*'.join(re.escape(x) for x in expr.split('.')) + r'\s*\.\s*to_string\s*\(\s*\)')
    ms = list(pat.finditer(body))
    if not ms:
        raise RuleError(f'`{expr}.to_string()` not found')
    for m in reversed(ms):
        new = f'tostr_{ty}(&{expr})'
        ctx.note('R-tostr', m.group(0), new)
        body = body[:m.start()] + new + body[m.end():]
    return sig, body


def rule_streq(ctx, sig, body, arg):
    """@rule streq <ident>: `<ident> == "lit"` -> `<ident>.as_str() == "lit"` (ident: &String).
    vstd specifies `&str == &str` but not `String == str`."""
    ident = arg.strip()
    pat = re.compile(r'&?\b' + re.escape(ident) + r'\s*==\s*(")')
    ms = list(pat.finditer(body))
    if not ms:
        raise RuleError(f'`{ident} == "..."` not found')
    for m in reversed(ms):
        new = f'{ident}.as_str() == "'
        body = body[:m.start()] + new + body[m.end():]
    ctx.note('R-streq', f'{ident} == "lit" ({len(ms)} sites)', f'{ident}.as_str() == "lit"')
    return sig, body


CALLBACK_GENERIC = re.compile(r'<\s*F\s*:\s*FnMut\s*\(\s*&GraphColoredVertices\s*,\s*&str\s*,?\s*\)\s*,?\s*>')
CALLBACK_PARAM = re.compile(r',?\s*progress_callback\s*:\s*&mut\s+F\s*,?')


def rule_callback(ctx, sig, body, arg):
    """R-callback: remove the progress observer (type parameter, parameter, call arguments and
    the statements `progress_callback(..);`).  The observer only receives shared references."""
    if not CALLBACK_GENERIC.search(sig):
        raise RuleError('generic `F: FnMut(&GraphColoredVertices, &str)` not found in signature')
    sig2 = CALLBACK_GENERIC.sub('', sig, count=1)
    m = CALLBACK_PARAM.search(sig2)
    if not m:
        raise RuleError('parameter progress_callback not found')
    rep = ',' if (m.group(0).lstrip().startswith(',') and m.group(0).rstrip().endswith(',')) else ''
    sig2 = sig2[:m.start()] + rep + sig2[m.end():]
    ctx.note('R-callback', sig, sig2)
    # statements progress_callback(...);
    toks = tokenize(body)
    ct = code_tokens(toks)
    edits = []
    i = 0
    while i < len(ct):
        t = ct[i]
        if t.kind == 'ident' and t.text == 'progress_callback':
            if i + 1 < len(ct) and ct[i + 1].text == '(':
                close = match_close(ct, i + 1)
                if ct[close + 1].text != ';':
                    raise RuleError('progress_callback(..) used as an expression')
                prev = ct[i - 1].text
                if prev not in (';', '{', '}'):
                    raise RuleError('progress_callback(..) not at statement position')
                edits.append((t.pos, ct[close + 1].end, ''))
                i = close + 2
                continue
            else:
                # used as an argument: remove with one adjacent comma
                prev, nxt = ct[i - 1], ct[i + 1]
                if prev.text == ',':
                    # also swallow a trailing comma (rustfmt style) if the next is ',' then ')'
                    if nxt.text == ',' and ct[i + 2].text == ')':
                        edits.append((prev.pos, nxt.end, ','))
                    else:
                        edits.append((prev.pos, t.end, ''))
                elif nxt.text == ',':
                    edits.append((t.pos, nxt.end, ''))
                else:
                    edits.append((t.pos, t.end, ''))
        i += 1
    if not edits and 'progress_callback' in body:
        raise RuleError('could not remove progress_callback uses')
    for s, e, rep in sorted(edits, reverse=True):
        ctx.note('R-callback', body[s:e], rep)
        body = body[:s] + rep + body[e:]
    if re.search(r'\bprogress_callback\b', ' '.join(t.text for t in code_tokens(tokenize(body)))):
        raise RuleError('progress_callback still present after rewriting')
    return sig2, body


def rule_forloop(ctx, sig, body, arg):
    """@rule forloop <occurrence> : `for PAT in EXPR { B }` -> the language definition of `for`:
    `let mut it__N = EXPR; loop { let PAT = match it__N.next() { Some(v__) => v__, None => break }; B }`.
    Used where EXPR is not an iterator with a vstd specification."""
    occ = int(arg.split()[0])
    toks = tokenize(body)
    ct = code_tokens(toks)
    fors = [i for i, t in enumerate(ct) if t.kind == 'ident' and t.text == 'for'
            and ct[i - 1].text in (';', '{', '}')]
    if occ < 1 or occ > len(fors):
        raise RuleError(f'for-loop {occ} not found')
    i = fors[occ - 1]
    # pattern up to `in`
    j = i + 1
    depth = 0
    while not (ct[j].kind == 'ident' and ct[j].text == 'in' and depth == 0):
        if ct[j].text in '([':
            depth += 1
        elif ct[j].text in ')]':
            depth -= 1
        j += 1
    pat = body[ct[i + 1].pos:ct[j].pos].strip()
    k = j + 1
    while ct[k].text != '{':
        if ct[k].text in ('(', '['):
            k = match_close(ct, k)
        k += 1
    expr = body[ct[j].end:ct[k].pos].strip()
    close = match_close(ct, k)
    inner = body[ct[k].end:ct[close].pos]
    it = 'it__%d' % (len(re.findall(r'let mut it__\d+', body)) + 1)
    new = (f'let mut {it} = {expr};\n        loop {{\n            let {pat} = match {it}.next() '
           f'{{ Some(v__) => v__, None => break }};{inner}}}')
    ctx.note('R-for', norm_ws(body[ct[i].pos:ct[k].end]), norm_ws(new[:new.index(inner)] if inner in new else new))
    return sig, body[:ct[i].pos] + new + body[ct[close].end:]


def rule_tupleclone(ctx, sig, body, arg):
    """@rule tupleclone <occurrence>: `let (A, B) = EXPR.clone();` where EXPR is a reference to a
    pair -> `let tc__ = EXPR; let (A, B) = (tc__.0.clone(), tc__.1.clone());`
    (Verus has no built-in Clone instance for tuples; Clone of a pair is componentwise)."""
    occ = int(arg.split()[0]) if arg.strip() else 1
    toks = tokenize(body)
    ct = code_tokens(toks)
    hits = []
    for i, t in enumerate(ct):
        if t.kind == 'ident' and t.text == 'let' and ct[i + 1].text == '(':
            close = match_close(ct, i + 1)
            if ct[close + 1].text != '=':
                continue
            # find end of statement
            j = close + 2
            depth = 0
            while not (ct[j].text == ';' and depth == 0):
                if ct[j].text in '([{':
                    depth += 1
                elif ct[j].text in ')]}':
                    depth -= 1
                j += 1
            # must end with `.clone()`
            if ct[j - 1].text == ')' and ct[j - 2].text == '(' and ct[j - 3].text == 'clone' and ct[j - 4].text == '.':
                pat_items = _split_top_commas(body[ct[i + 1].end:ct[close].pos])
                if len(pat_items) == 2:
                    hits.append((i, close, j))
    if occ < 1 or occ > len(hits):
        raise RuleError('no `let (a, b) = <expr>.clone();` statement found')
    i, close, j = hits[occ - 1]
    pat = body[ct[i + 1].pos:ct[close].end]
    expr = body[ct[close + 2].pos:ct[j - 4].pos].rstrip()
    new = f'let tc__ = {expr};\n            let {pat} = (tc__.0.clone(), tc__.1.clone());'
    ctx.note('R-tupleclone', body[ct[i].pos:ct[j].end], new)
    return sig, body[:ct[i].pos] + new + body[ct[j].end:]


def rule_refiter(ctx, sig, body, arg):
    """@rule refiter <occurrence>: `for PAT in &EXPR {` -> `for PAT in EXPR.iter() {`
    (std: `impl IntoIterator for &BTreeMap / &HashMap / &Vec` is defined as `self.iter()`); vstd specifies
    `iter()` but not the `IntoIterator` impl of the reference."""
    occ = int(arg.split()[0]) if arg.strip() else 1
    toks = tokenize(body)
    ct = code_tokens(toks)
    hits = []
    for i, t in enumerate(ct):
        if t.kind == 'ident' and t.text == 'for' and ct[i - 1].text in (';', '{', '}'):
            j = i + 1
            depth = 0
            while not (ct[j].kind == 'ident' and ct[j].text == 'in' and depth == 0):
                if ct[j].text in '([':
                    depth += 1
                elif ct[j].text in ')]':
                    depth -= 1
                j += 1
            if ct[j + 1].text == '&' and ct[j + 2].text != 'mut':
                k = j + 2
                while ct[k].text != '{':
                    if ct[k].text in ('(', '['):
                        k = match_close(ct, k)
                    k += 1
                hits.append((j + 1, k))
    if occ < 1 or occ > len(hits):
        raise RuleError('no `for .. in &EXPR` loop found')
    a, k = hits[occ - 1]
    expr = body[ct[a].end:ct[k].pos].strip()
    new = f'{expr}.iter() '
    ctx.note('R-refiter', '&' + expr, new)
    return sig, body[:ct[a].pos] + new + body[ct[k].pos:]


def rule_dropstmt(ctx, sig, body, arg):
    raise RuleError('not allowed')


def rule_streq2(ctx, sig, body, arg):
    """@rule streq2 <a> <b>: `<a> == <b>` with both sides `&String` -> `<a>.as_str() == <b>.as_str()`
    (vstd specifies `&str == &str`, not `&String == &String`; String equality is equality of the str slices)."""
    a, b = arg.split()
    pat = re.compile(r'\b' + re.escape(a) + r'\s*==\s*' + re.escape(b) + r'\b')
    ms = list(pat.finditer(body))
    if not ms:
        raise RuleError(f'`{a} == {b}` not found')
    for m in reversed(ms):
        new = f'{a}.as_str() == {b}.as_str()'
        ctx.note('R-streq', m.group(0), new)
        body = body[:m.start()] + new + body[m.end():]
    return sig, body


def rule_mapindex(ctx, sig, body, arg):
    """@rule mapindex <expr>: `<expr>[&K]` -> `(*<expr>.get(&K).unwrap())` for a HashMap <expr>.
    std defines `impl Index<&Q> for HashMap` as `self.get(key).expect("no entry found for key")`;
    vstd has no specification for that Index impl (only for Vec / slices)."""
    expr = arg.strip()
    pat = re.compile(re.escape(expr).replace(r'\ ', r'\s*') + r'\s*\[')
    n = 0
    while True:
        m = None
        for mm in pat.finditer(body):
            m = mm
            break
        if m is None:
            break
        # bracket match from m.end()-1
        toks = tokenize(body)
        ct = code_tokens(toks)
        idx = next(i for i, t in enumerate(ct) if t.pos == m.end() - 1)
        close = match_close(ct, idx)
        inner = body[ct[idx].end:ct[close].pos]
        new = f'(*{expr}.get({inner}).unwrap())'
        ctx.note('R-mapindex', body[m.start():ct[close].end], new)
        body = body[:m.start()] + new + body[ct[close].end:]
        n += 1
        if n > 20:
            raise RuleError('mapindex: too many rewrites')
    if n == 0:
        raise RuleError(f'`{expr}[..]` not found')
    return sig, body


def rule_letchain(ctx, sig, body, arg):
    """R-letchain: `if let P = E && C { A }` (no else) -> `if let P = E { if C { A } }`.
    Verus: "let expressions not supported"; equivalent when there is no else branch."""
    n = 0
    while True:
        toks = tokenize(body)
        ct = code_tokens(toks)
        hit = None
        for i, t in enumerate(ct):
            if t.kind == 'ident' and t.text == 'if' and ct[i + 1].text == 'let':
                j = i + 2
                depth = 0
                amp = None
                while j < len(ct):
                    tx = ct[j].text
                    if tx in ('(', '['):
                        j = match_close(ct, j)
                    elif tx == '&&' and depth == 0:
                        amp = j
                        break
                    elif tx == '{':
                        break
                    j += 1
                if amp is None:
                    continue
                k = amp + 1
                while ct[k].text != '{':
                    if ct[k].text in ('(', '['):
                        k = match_close(ct, k)
                    k += 1
                close = match_close(ct, k)
                if close + 1 < len(ct) and ct[close + 1].text == 'else':
                    raise RuleError('let-chain with else branch')
                hit = (i, amp, k, close)
                break
        if hit is None:
            break
        i, amp, k, close = hit
        cond = body[ct[amp].end:ct[k].pos].strip()
        new = (body[:ct[amp].pos].rstrip() + ' { if ' + cond + ' ' + body[ct[k].pos:ct[close].end] + ' }' + body[ct[close].end:])
        ctx.note('R-letchain', body[ct[i].pos:ct[k].end], 'if let .. { if ' + cond + ' {')
        body = new
        n += 1
    if n == 0:
        raise RuleError('no let-chain found')
    return sig, body


def rule_refpat(ctx, sig, body, arg):
    """R-refpat: `while let Some(&c) = E {` -> `while let Some(c__r) = E { let c = *c__r;`  ("ref patterns not supported")"""
    pat = re.compile(r'Some\(&(\w+)\)\s*=\s*')
    m = pat.search(body)
    if not m:
        raise RuleError('no `Some(&x) =` pattern')
    v = m.group(1)
    # find the opening brace of the block that follows
    toks = tokenize(body)
    ct = code_tokens(toks)
    idx = next(i for i, t in enumerate(ct) if t.pos >= m.end())
    k = idx
    while ct[k].text != '{':
        if ct[k].text in ('(', '['):
            k = match_close(ct, k)
        k += 1
    new = body[:m.start()] + f'Some({v}__r) = ' + body[m.end():ct[k].end] + f' let {v} = *{v}__r;' + body[ct[k].end:]
    ctx.note('R-refpat', m.group(0), f'Some({v}__r) = .. {{ let {v} = *{v}__r;')
    return sig, new


def rule_strcat(ctx, sig, body, arg):
    """R-strcat: `a.to_string() + b.to_string().as_str() + &n` -> strcat3(a, b, &n); `a.to_string() + &n` -> strcat2(a, &n)
    (chars a, b; String n); `String + &str` crashes Verus.  The external functions ensure r@ == seq![a, b] + n@."""
    n = 0
    p3 = re.compile(r'(\w+)\.to_string\(\)\s*\+\s*(\w+)\.to_string\(\)\.as_str\(\)\s*\+\s*&(\w+)')
    p2 = re.compile(r'(\w+)\.to_string\(\)\s*\+\s*&(\w+)')
    def r3(m):
        nonlocal n
        n += 1
        ctx.note('R-strcat', m.group(0), f'strcat3({m.group(1)}, {m.group(2)}, &{m.group(3)})')
        return f'strcat3({m.group(1)}, {m.group(2)}, &{m.group(3)})'
    def r2(m):
        nonlocal n
        n += 1
        ctx.note('R-strcat', m.group(0), f'strcat2({m.group(1)}, &{m.group(2)})')
        return f'strcat2({m.group(1)}, &{m.group(2)})'
    body = p3.sub(r3, body)
    body = p2.sub(r2, body)
    if n == 0:
        raise RuleError('no string concatenation found')
    return sig, body


def rule_collectstr(ctx, sig, body, arg):
    """R-collect: `v.into_iter().collect()` (Vec<char> -> String) -> chars_to_string(v) with ensures r@ == v@"""
    p = re.compile(r'(\w+)\.into_iter\(\)\.collect\(\)')
    if not p.search(body):
        raise RuleError('no `.into_iter().collect()`')
    def r(m):
        ctx.note('R-collect', m.group(0), f'chars_to_string({m.group(1)})')
        return f'chars_to_string({m.group(1)})'
    return sig, p.sub(r, body)


def rule_peekable(ctx, sig, body, arg):
    """R-peekable: `s.chars().peekable()` -> chars_peekable(&s) with ensures rest(r) == s@
    (assume_specification of provided trait methods such as Iterator::peekable is unsupported)"""
    p = re.compile(r'(\w+)\s*\.\s*chars\(\s*\)\s*\.\s*peekable\(\s*\)')
    if not p.search(body):
        raise RuleError('no `.chars().peekable()`')
    def r(m):
        ctx.note('R-peekable', m.group(0), f'chars_peekable(&{m.group(1)})')
        return f'chars_peekable(&{m.group(1)})'
    return sig, p.sub(r, body)


def rule_nameiter(ctx, sig, body, arg):
    """@rule nameiter <occurrence> <name>: `for PAT in EXPR {` -> `for PAT in <name>: EXPR {`.
    Verus syntax that names the ghost iterator of a for loop so that invariants can mention its progress;
    it has no executable effect."""
    parts = arg.split()
    occ, name = int(parts[0]), parts[1]
    toks = tokenize(body)
    ct = code_tokens(toks)
    fors = [i for i, t in enumerate(ct) if t.kind == 'ident' and t.text == 'for' and ct[i - 1].text in (';', '{', '}')]
    if occ < 1 or occ > len(fors):
        raise RuleError(f'for-loop {occ} not found')
    i = fors[occ - 1]
    j = i + 1
    depth = 0
    while not (ct[j].kind == 'ident' and ct[j].text == 'in' and depth == 0):
        if ct[j].text in '([':
            depth += 1
        elif ct[j].text in ')]':
            depth -= 1
        j += 1
    ctx.note('R-nameiter', 'for .. in', f'for .. in {name}:')
    return sig, body[:ct[j].end] + f' {name}:' + body[ct[j].end:]


def rule_setinto(ctx, sig, body, arg):
    """@rule setinto <occurrence>: `for X in EXPR {` (EXPR a HashSet taken by value, e.g. `set.clone()`) ->
    `let tmp = EXPR; for X in tmp.iter() {` with every use of X in the loop body replaced by `(*X)`.
    Iterating a set by value yields exactly the elements that iterating it by reference yields (std: both walk the same
    table); vstd specifies `HashSet::iter` but has no specification for `hash_set::IntoIter`."""
    occ = int(arg.split()[0])
    toks = tokenize(body)
    ct = code_tokens(toks)
    fors = [i for i, t in enumerate(ct) if t.kind == 'ident' and t.text == 'for' and ct[i - 1].text in (';', '{', '}')]
    if occ < 1 or occ > len(fors):
        raise RuleError(f'for-loop {occ} not found')
    i = fors[occ - 1]
    if ct[i + 1].kind != 'ident' or not (ct[i + 2].kind == 'ident' and ct[i + 2].text == 'in'):
        raise RuleError('setinto: loop pattern must be a single identifier')
    x = ct[i + 1].text
    k = i + 3
    while ct[k].text != '{':
        if ct[k].text in ('(', '['):
            k = match_close(ct, k)
        k += 1
    close = match_close(ct, k)
    expr = body[ct[i + 3].pos:ct[k].pos].strip()
    inner = body[ct[k].end:ct[close].pos]
    # a use that would MOVE the element out of `*X` is rejected by rustc (cannot move out of a shared reference): front-end error, never unsound
    inner2 = re.sub(r'\b' + re.escape(x) + r'\b', f'(*{x})', inner)
    tmp = f'setinto__{occ}'
    new = f'let {tmp} = {expr};\n                for {x} in {tmp}.iter() {{' + inner2
    ctx.note('R-setinto', f'for {x} in {expr}', f'let {tmp} = {expr}; for {x} in {tmp}.iter()  [uses of {x} -> (*{x})]')
    return sig, body[:ct[i].pos] + new + body[ct[close].pos:]


def rule_pairclone(ctx, sig, body, arg):
    """@rule pairclone <ident>: `<ident>.clone()` for a variable holding a pair -> `(<ident>.0.clone(), <ident>.1.clone())`
    (Verus has no built-in Clone instance for tuples; Clone of a pair is componentwise)."""
    x = arg.strip()
    pat = re.compile(r'\b' + re.escape(x) + r'\s*\.\s*clone\(\)')
    ms = list(pat.finditer(body))
    if not ms:
        raise RuleError(f'`{x}.clone()` not found')
    for m in reversed(ms):
        new = f'({x}.0.clone(), {x}.1.clone())'
        ctx.note('R-tupleclone', m.group(0), new)
        body = body[:m.start()] + new + body[m.end():]
    return sig, body


def rule_position(ctx, sig, body, arg):
    """@rule position: a function whose whole body is `X.iter().position(F)` (F a function name or a closure `|t| EXPR`) ->
    the explicit loop `let mut pos__i = 0; while pos__i < X.len() { if F(&X[pos__i]) { return Some(pos__i); } pos__i += 1; } None`.
    This is the definition of Iterator::position (index of the first element satisfying the predicate, evaluated in order, stopping at
    the first hit); Verus has no support for iterator adapters taking closures. The loop invariant comes from `@loop 1` of the contract."""
    inner = body.strip()
    if not (inner.startswith('{') and inner.endswith('}')):
        raise RuleError('position: body is not a block')
    expr = inner[1:-1].strip()
    m = re.match(r'^(\w+)\s*\.\s*iter\(\)\s*\.\s*position\((.*)\)$', expr, re.S)
    if not m:
        raise RuleError('position: body is not `X.iter().position(F)`')
    x, f = m.group(1), m.group(2).strip()
    elem = f'(&{x}[pos__i])'
    mc = re.match(r'^\|\s*(\w+)\s*\|\s*(.*)$', f, re.S)
    if mc:
        pred = re.sub(r'\b' + re.escape(mc.group(1)) + r'\b', elem, mc.group(2).strip())
    elif re.match(r'^\w+$', f):
        pred = f'{f}{elem}'
    else:
        raise RuleError('position: predicate is neither a function name nor a one-parameter closure')
    new = ('{\n    let mut pos__i: usize = 0;\n    while pos__i < ' + x + '.len() {\n        if ' + pred +
           ' {\n            return Some(pos__i);\n        }\n        pos__i += 1;\n    }\n    None\n}')
    ctx.note('R-position', expr, new)
    return sig, new


def rule_unwrapelse(ctx, sig, body, arg):
    """@rule unwrapelse: `X.unwrap_or_else(|| E)` -> `match X { Some(v__) => v__, None => E }`
    (definition of Option::unwrap_or_else; Verus does not support passing closures to library functions)."""
    m = re.search(r'(\b[\w\.]+)\s*\.\s*unwrap_or_else\(\s*\|\|\s*', body)
    if not m:
        raise RuleError('no `X.unwrap_or_else(|| ..)`')
    toks = tokenize(body)
    ct = code_tokens(toks)
    # the opening parenthesis of unwrap_or_else(
    idx = next(i for i, t in enumerate(ct) if t.kind == 'ident' and t.text == 'unwrap_or_else' and t.pos >= m.start()) + 1
    close = match_close(ct, idx)
    inner = body[ct[idx].end:ct[close].pos].strip()
    if not inner.startswith('||'):
        raise RuleError('unwrapelse: closure with parameters')
    e = inner[2:].strip()
    x = m.group(1)
    new = f'(match {x} {{ Some(v__) => v__, None => {e} }})'
    ctx.note('R-unwrapelse', body[m.start():ct[close].end], new)
    return sig, body[:m.start()] + new + body[ct[close].end:]


def rule_hoist(ctx, sig, body, arg):
    """@rule hoist A ;; B ;; ...: the match-arm expression `PAT => E,` that contains the call expressions A, B, ... (in this textual
    order, as arguments of one enclosing expression) becomes `PAT => { let hoist__1 = A; let hoist__2 = B; E' },` with the calls replaced
    by the variables. Rust evaluates the operands of an expression from left to right, so naming them in that order does not change the
    behaviour; the names give proof hints a place between the calls."""
    parts = [a.strip() for a in arg.split(';;') if a.strip()]

    def norm(text):
        # code tokens without trailing commas (rustfmt adds them when it re-flows a call over several lines)
        c = code_tokens(tokenize(text))
        return [t for i, t in enumerate(c) if not (t.text == ',' and i + 1 < len(c) and c[i + 1].text in (')', ']', '}'))]
    ct = norm(body)

    def find_seq(text, from_pos):
        want = [t.text for t in norm(text)]
        for i in range(len(ct) - len(want) + 1):
            if ct[i].pos >= from_pos and [t.text for t in ct[i:i + len(want)]] == want:
                return i, i + len(want) - 1
        return None

    spans = []
    pos = 0
    for a in parts:
        r = find_seq(a, pos)
        if r is None:
            raise RuleError(f'hoist: `{a}` not found')
        spans.append(r)
        pos = ct[r[1]].end
    first = spans[0][0]
    # nearest preceding `=>`
    k = first
    while k >= 0 and not (ct[k].text == '=' and ct[k + 1].text == '>' and ct[k + 1].pos == ct[k].end) and ct[k].text != '=>':
        k -= 1
    if k < 0:
        raise RuleError('hoist: no enclosing match arm')
    start_tok = k + (1 if ct[k].text == '=>' else 2)
    # end of the arm expression: first `,` at depth 0 (or the token before the `}` that closes the match)
    depth = 0
    j = start_tok
    while j < len(ct):
        t = ct[j].text
        if t in '([{':
            depth += 1
        elif t in ')]}':
            if depth == 0:
                break
            depth -= 1
        elif t == ',' and depth == 0:
            break
        j += 1
    if spans[-1][1] >= j:
        raise RuleError('hoist: expressions are not inside one match arm')
    e_start, e_end = ct[start_tok].pos, ct[j - 1].end
    expr = body[e_start:e_end]
    lets = []
    # replace from the last to the first so that offsets stay valid
    for n, (a, b) in reversed(list(enumerate(spans, 1))):
        s0, s1 = ct[a].pos - e_start, ct[b].end - e_start
        lets.append(f'let hoist__{n} = {expr[s0:s1]};')
        expr = expr[:s0] + f'hoist__{n}' + expr[s1:]
    lets.reverse()
    new = '{\n            ' + '\n            '.join(lets) + '\n            ' + expr + '\n        }'
    ctx.note('R-hoist', body[e_start:e_end], new)
    return sig, body[:e_start] + new + body[e_end:]


def rule_orguard(ctx, sig, body, arg):
    """@rule orguard <scrutinee>: a match arm `L1 | L2 | .. if G => B` over literal patterns ->
    `_ if (<scrutinee> == L1 || <scrutinee> == L2 || ..) && G => B`.
    Matching a literal pattern is equality with the literal, the guard is evaluated only when a pattern matches, and `&&` keeps that
    order; Verus does not support an or-pattern together with a guard in one arm."""
    x = arg.strip()
    pat = re.compile(r"((?:'(?:\\.|[^'\\])'\s*\|\s*)+'(?:\\.|[^'\\])')\s+if\s+")
    m = pat.search(body)
    if not m:
        raise RuleError('orguard: no `L1 | L2 if G =>` arm with character literals')
    lits = [l.strip() for l in m.group(1).split('|')]
    # the guard runs up to the `=>` of this arm
    j = body.index('=>', m.end())
    guard = body[m.end():j].strip()
    cond = ' || '.join(f'{x} == {l}' for l in lits)
    new = f'_ if ({cond}) && ({guard}) '
    ctx.note('R-orguard', body[m.start():j], new)
    return sig, body[:m.start()] + new + body[j:]


def rule_byref(ctx, sig, body, arg):
    """@rule byref: `for X in IT.by_ref() {` -> `while let Some(X) = IT.next() {`
    (the for loop over `&mut I` calls next() until it returns None; Iterator::by_ref has no Verus specification)."""
    pat = re.compile(r'for\s+(\w+)\s+in\s+([\w\.]+)\s*\.\s*by_ref\(\)\s*\{')
    ms = list(pat.finditer(body))
    if not ms:
        raise RuleError('no `for x in it.by_ref() {`')
    for m in reversed(ms):
        new = f'while let Some({m.group(1)}) = {m.group(2)}.next() {{'
        ctx.note('R-byref', m.group(0), new)
        body = body[:m.start()] + new + body[m.end():]
    return sig, body


def rule_noprint(ctx, sig, body, arg):
    """@rule noprint: `println!(..);` / `eprintln!(..);` / `print!(..);` / `eprint!(..);` STATEMENTS are removed: writing to stdout / stderr is
    not part of the value a function computes (no contract mentions the streams; the arguments of the macro are only formatted).  Applied as
    a global optional rule, so that a diagnostic print added to a verified function does not take it out of the verifier's reach."""
    n = 0
    while True:
        toks = tokenize(body)
        ct = code_tokens(toks)
        hit = None
        for i, t in enumerate(ct):
            if t.kind == 'ident' and t.text in ('println', 'eprintln', 'print', 'eprint') and i + 2 < len(ct) and ct[i + 1].text == '!' \
                    and ct[i + 2].text in ('(', '[', '{'):
                if i > 0 and ct[i - 1].text not in (';', '{', '}'):
                    continue
                close = match_close(ct, i + 2)
                if close + 1 < len(ct) and ct[close + 1].text == ';':
                    hit = (t.pos, ct[close + 1].end)
                elif close + 1 < len(ct) and ct[close + 1].text == '}':
                    hit = (t.pos, ct[close].end)
                else:
                    continue
                break
        if not hit:
            break
        ctx.note('R-noprint', body[hit[0]:hit[1]], '')
        body = body[:hit[0]] + body[hit[1]:]
        n += 1
    if n == 0:
        raise RuleError('no print statement')
    return sig, body


def _calls_of(body, fname):
    """(start, end, [arg texts], open_paren_end, close_paren_pos) for every call `fname(..)` (not preceded by `.` or `::` or `fn`)"""
    toks = tokenize(body)
    ct = code_tokens(toks)
    res = []
    for i, t in enumerate(ct):
        if t.kind == 'ident' and t.text == fname and i + 1 < len(ct) and ct[i + 1].text == '(' \
                and (i == 0 or ct[i - 1].text not in ('.', '::', 'fn')):
            close = match_close(ct, i + 1)
            inner = body[ct[i + 1].end:ct[close].pos]
            res.append((t.pos, ct[close].end, inner, ct[i + 1].end, ct[close].pos))
    return res


def rule_printargs(ctx, sig, body, arg):
    """@rule printargs <fn>: the first argument (the text) of every call `<fn>(TEXT, ..)` becomes `verif_msg()` (an opaque String).
    <fn> is a printing helper (print_if_allowed): the text is only written to stdout, which no contract mentions; expressions that
    only feed the text (format!, elapsed times, cardinalities) leave the verified function with it."""
    fname = arg.strip()
    calls = _calls_of(body, fname)
    if not calls:
        raise RuleError(f'no call of {fname}')
    for start, end, inner, a, b in reversed(calls):
        args = _split_top_commas(inner)
        if len(args) < 1:
            raise RuleError(f'{fname}() without arguments')
        new_inner = ', '.join(['verif_msg()'] + args[1:])
        ctx.note('R-printargs', body[start:end], f'{fname}({new_inner})')
        body = body[:a] + new_inner + body[b:]
    return sig, body


def rule_enumloop(ctx, sig, body, arg):
    """@rule enumloop <occurrence>: `for (I, X) in V.iter().enumerate() { B }` (V a Vec) ->
    `let mut enum__I: usize = 0; while enum__I < V.len() { let I: usize = enum__I; let X = &V[I]; enum__I += 1; B }` :
    the definition of iter() + enumerate() on a Vec (items in order, paired with their index; the counter advances when the item is
    taken, so a `continue` in B behaves as in the original).  Verus has no specification of Enumerate."""
    occ = int(arg.split()[0]) if arg.strip() else 1
    pat = re.compile(r'for\s*\(\s*(\w+)\s*,\s*(\w+)\s*\)\s*in\s+([\w\.]+?)\s*\.iter\(\)\s*\.enumerate\(\)\s*\{')
    ms = [m for m in pat.finditer(body) if not _in_comment_or_string(body, m.start())]
    if occ < 1 or occ > len(ms):
        raise RuleError('no `for (i, x) in v.iter().enumerate() {` loop found')
    m = ms[occ - 1]
    i, x, v = m.group(1), m.group(2), m.group(3)
    head = (f'let mut enum__{i}: usize = 0;\n    while enum__{i} < {v}.len() {{\n        let {i}: usize = enum__{i};\n'
            f'        let {x} = &{v}[{i}];\n        enum__{i} += 1;')
    ctx.note('R-enumloop', m.group(0), head)
    return sig, body[:m.start()] + head + body[m.end():]


def _in_comment_or_string(body, pos):
    for t in tokenize(body):
        if t.pos <= pos < t.end:
            return t.kind in ('comment', 'str')
    return False


def rule_localcallback(ctx, sig, body, arg):
    """@rule localcallback: the statement `let mut progress_callback = ..;` and the argument `&mut progress_callback` are removed
    (R-callback: the progress observer only receives shared references and cannot influence results; the callee is verified
    without the parameter)."""
    m = re.search(r'let\s+mut\s+progress_callback\s*=', body)
    if not m:
        raise RuleError('no `let mut progress_callback =`')
    toks = tokenize(body)
    ct = code_tokens(toks)
    k = next(i for i, t in enumerate(ct) if t.pos >= m.end())
    depth = 0
    while not (ct[k].text == ';' and depth == 0):
        if ct[k].text in '([{':
            depth += 1
        elif ct[k].text in ')]}':
            depth -= 1
        k += 1
    ctx.note('R-callback', body[m.start():ct[k].end], '')
    body = body[:m.start()] + body[ct[k].end:]
    pat = re.compile(r',\s*&mut\s+progress_callback\s*,?')
    n = len(pat.findall(body))
    if n == 0:
        raise RuleError('no argument `&mut progress_callback`')
    body = pat.sub(',', body)
    if re.search(r'\bprogress_callback\b', body):
        raise RuleError('progress_callback still present after rewriting')
    return sig, body


def rule_maperr(ctx, sig, body, arg):
    """@rule maperr: `CALL(..).map_err(|e| e.to_string())` -> `verif_map_err(CALL(..))` whose contract is the definition of
    Result::map_err restricted to what matters here: Ok stays Ok with the same value, Err stays Err (the message is opaque)."""
    pat = re.compile(r'\.\s*map_err\(\s*\|\s*e\s*\|\s*e\.to_string\(\)\s*\)')
    ms = list(pat.finditer(body))
    if not ms:
        raise RuleError('no `.map_err(|e| e.to_string())`')
    for m in reversed(ms):
        toks = tokenize(body[:m.start()])
        ct = code_tokens(toks)
        j = len(ct) - 1
        if ct[j].text != ')':
            raise RuleError('receiver of map_err is not a call')
        # find the matching '('
        depth = 0
        while True:
            if ct[j].text in ')]}':
                depth += 1
            elif ct[j].text in '([{':
                depth -= 1
                if depth == 0:
                    break
            j -= 1
        j -= 1
        while j >= 1 and ct[j].kind == 'ident' and ct[j - 1].text in ('::', '.'):
            j -= 2
        if ct[j].kind != 'ident':
            raise RuleError('cannot find the receiver of map_err')
        start = ct[j].pos
        recv = body[start:m.start()].rstrip()
        new = f'verif_map_err({recv})'
        ctx.note('R-maperr', body[start:m.end()], new)
        body = body[:start] + new + body[m.end():]
    return sig, body


def rule_fmtvalin(ctx, sig, body, arg):
    """@rule fmtvalin <call-prefix> <Type>..: as fmtval, the format! is the first one inside the argument list of the call that
    starts with <call-prefix> (e.g. `results.insert(`), whatever its literal is"""
    parts = arg.split()
    prefix = parts[0]
    pat = re.compile(r'\s*'.join(re.escape(x) for x in re.findall(r'\w+|[^\w\s]', prefix)))
    m = next((m for m in pat.finditer(body) if not _in_comment_or_string(body, m.start())), None)
    if not m:
        raise RuleError(f'no `{prefix}`')
    toks = tokenize(body)
    ct = code_tokens(toks)
    open_i = next(k for k, t in enumerate(ct) if t.end == m.end())
    close_pos = ct[match_close(ct, open_i)].pos
    calls = _macro_calls(body, 'format')
    for n, (start, end, inner) in enumerate(calls):
        if m.end() <= start < close_pos:
            return rule_fmtval(ctx, sig, body, ' '.join([str(n + 1)] + parts[1:]))
    raise RuleError(f'no format! inside `{prefix}..)`')


def rule_fmtvallit(ctx, sig, body, arg):
    """@rule fmtvallit <literal> <Type>..: as fmtval, the format! is selected by its literal instead of its position"""
    parts = arg.split()
    lit = parts[0]
    calls = _macro_calls(body, 'format')
    for n, (start, end, inner) in enumerate(calls):
        if _split_top_commas(inner)[0] == lit:
            return rule_fmtval(ctx, sig, body, ' '.join([str(n + 1)] + parts[1:]))
    raise RuleError(f'no format!({lit}, ..)')


def rule_startswith(ctx, sig, body, arg):
    """@rule startswith: `X.starts_with('c')` (X a &str, pattern a char literal) -> `str_starts_with_char(X, 'c')`, whose contract is
    the definition of str::starts_with for a char pattern (the text is non-empty and its first character is c).  The generic
    `Pattern` machinery of std has no Verus specification."""
    pat = re.compile(r"(\b[\w\.]+?)\s*\.\s*starts_with\(\s*('(?:[^'\\]|\\.)')\s*\)")
    ms = [m for m in pat.finditer(body) if not _in_comment_or_string(body, m.start())]
    if not ms:
        raise RuleError("no `x.starts_with('c')`")
    for m in reversed(ms):
        new = f'str_starts_with_char({m.group(1)}, {m.group(2)})'
        ctx.note('R-startswith', m.group(0), new)
        body = body[:m.start()] + new + body[m.end():]
    return sig, body


def rule_contelse(ctx, sig, body, arg):
    """@rule contelse: inside a `for` body, a statement `if COND { continue; }` (directly in the body, no else) followed by the rest R of
    the body becomes `if COND {} else { R }`: the same control flow (continue = skip the rest of this iteration).  Verus does not
    support `continue` in for-loops."""
    n = 0
    while True:
        toks = tokenize(body)
        ct = code_tokens(toks)
        done = True
        for i, t in enumerate(ct):
            if not (t.kind == 'ident' and t.text == 'for' and i > 0 and ct[i - 1].text in (';', '{', '}')):
                continue
            k = i + 1
            while ct[k].text != '{':
                if ct[k].text in ('(', '['):
                    k = match_close(ct, k)
                k += 1
            close = match_close(ct, k)
            # statements directly in the body
            j = k + 1
            depth = 0
            hit = None
            while j < close:
                tx = ct[j].text
                if depth == 0 and ct[j].kind == 'ident' and tx == 'if' and ct[j - 1].text in (';', '{', '}'):
                    b = j + 1
                    while ct[b].text != '{':
                        if ct[b].text in ('(', '['):
                            b = match_close(ct, b)
                        b += 1
                    bc = match_close(ct, b)
                    inner = [x.text for x in ct[b + 1:bc]]
                    if inner == ['continue', ';'] and ct[bc + 1].text != 'else':
                        hit = (j, b, bc)
                        break
                    j = bc + 1
                    continue
                if tx in '([{':
                    depth += 1
                elif tx in ')]}':
                    depth -= 1
                j += 1
            if hit:
                j, b, bc = hit
                before = body[ct[j].pos:ct[bc].end]
                new_if = body[ct[j].pos:ct[b].end] + '}' + ' else {'
                body = body[:ct[j].pos] + new_if + body[ct[bc].end:ct[close].pos] + '}\n' + body[ct[close].pos:]
                ctx.note('R-contelse', before, new_if + ' <rest of the loop body> }')
                n += 1
                done = False
                break
        if done:
            break
    if n == 0:
        raise RuleError('no `if COND { continue; }` directly inside a for body')
    return sig, body


def _match_open(ct, j):
    """ct[j] is a closing bracket; index of its opening bracket"""
    depth = 0
    while j >= 0:
        if ct[j].text in (')', ']', '}'):
            depth += 1
        elif ct[j].text in ('(', '[', '{'):
            depth -= 1
            if depth == 0:
                return j
        j -= 1
    raise RuleError('unbalanced brackets')


def _receiver_start(ct, dot_i):
    """ct[dot_i] is the `.` of a method call; index of the first token of the receiver expression (a postfix chain)"""
    j = dot_i - 1
    while True:
        t = ct[j]
        if t.text in (')', ']'):
            j = _match_open(ct, j)
            # a call / index: the callee path precedes; a parenthesised expression: stop here
            if j - 1 >= 0 and (ct[j - 1].kind in ('ident',) or ct[j - 1].text in (')', ']', '?')):
                j -= 1
                continue
            return j
        if t.text == '?':
            j -= 1
            continue
        if t.kind in ('ident', 'num', 'number', 'int') or t.text == 'self':
            if j - 1 >= 0 and ct[j - 1].text in ('.', '::'):
                j -= 2
                continue
            return j
        raise RuleError('cannot delimit the receiver of the method call')


def rule_optclosure(ctx, sig, body, arg):
    """R-optclosure (applied to every verified function when its pattern occurs): Option combinators with a closure LITERAL are replaced
    by their std definitions with the closure body in place (the closure is called exactly once, on the matched value):
      X.is_some_and(|P| E)   ->  (match X { Some(P) => E, None => false })
      X.is_none_or(|P| E)    ->  (match X { Some(P) => E, None => true })
      X.map_or(D, |P| E)     ->  (match X { Some(P) => E, None => D })
    (closures without `move`, `return`, `?` and without a block body with statements other than a tail expression are accepted).
    Verus does not infer the specification of a closure, so the call form is out of its reach, the match form is not."""
    n = 0
    while True:
        toks = tokenize(body)
        ct = code_tokens(toks)
        hit = None
        for i, t in enumerate(ct):
            if t.kind == 'ident' and t.text in ('is_some_and', 'is_none_or', 'map_or') and i >= 1 and ct[i - 1].text == '.' and ct[i + 1].text == '(':
                close = match_close(ct, i + 1)
                inner = body[ct[i + 1].end:ct[close].pos]
                args = _split_top_commas(inner)
                want = 2 if t.text == 'map_or' else 1
                if len(args) != want:
                    continue
                cl = args[-1].strip()
                m = re.match(r'^\|([^|]*)\|\s*(.*)$', cl, re.S)
                if not m:
                    continue
                pat, expr = m.group(1).strip(), m.group(2).strip()
                et = [x.text for x in code_tokens(tokenize(expr))]
                if 'return' in et or '?' in et or 'move' in et or ':' in pat:
                    continue
                try:
                    r0 = _receiver_start(ct, i - 1)
                except RuleError:
                    continue
                hit = (ct[r0].pos, ct[i - 1].pos, ct[close].end, t.text, pat, expr, args[0].strip() if want == 2 else None)
                break
        if not hit:
            break
        start, dot, end, meth, pat, expr, dflt = hit
        recv = body[start:dot].rstrip()
        none = {'is_some_and': 'false', 'is_none_or': 'true', 'map_or': dflt}[meth]
        new = f'(match {recv} {{ Some({pat}) => {{ {expr} }}, None => {{ {none} }} }})'
        ctx.note('R-optclosure', body[start:end], new)
        body = body[:start] + new + body[end:]
        n += 1
    if n == 0:
        raise RuleError('no Option combinator with a closure literal')
    return sig, body


def rule_strlenempty(ctx, sig, body, arg):
    """@rule strlenempty <ident> ..: for the named `&str` / `String` variables, `X.len() == 0` -> `X.is_empty()`, `X.len() > 0` / `X.len() != 0` /
    `X.len() >= 1` -> `!X.is_empty()` (std: `str::is_empty` is defined as `self.len() == 0`).  vstd specifies `str::len` as the BYTE length, which it
    does not relate to the character view; `is_empty` is specified on the view."""
    n = 0
    for ident in arg.split():
        x = re.escape(ident)
        for pat, rep in ((r'\b' + x + r'\.len\(\)\s*==\s*0\b', f'{ident}.is_empty()'),
                         (r'\b0\s*==\s*' + x + r'\.len\(\)', f'{ident}.is_empty()'),
                         (r'\b' + x + r'\.len\(\)\s*(?:>\s*0|!=\s*0|>=\s*1)\b', f'!{ident}.is_empty()'),
                         (r'\b0\s*(?:<|!=)\s*' + x + r'\.len\(\)', f'!{ident}.is_empty()')):
            for m in reversed(list(re.finditer(pat, body))):
                if _in_comment_or_string(body, m.start()):
                    continue
                ctx.note('R-strlenempty', m.group(0), rep)
                body = body[:m.start()] + rep + body[m.end():]
                n += 1
    if n == 0:
        raise RuleError('no emptiness test through len()')
    return sig, body


def rule_mapcollect2(ctx, sig, body, arg):
    """@rule mapcollect2 <ElemType>: `let V = X .into_iter() .map(F) .collect::<Vec<_>>();` (F a function path, X a Vec of Copy items)
    -> `let mc__src = X; let mut V: Vec<ElemType> = Vec::new(); for mc__e in mc__src.iter() { V.push(F(*mc__e)); }`
    (definition of into_iter + map + collect into a Vec: F applied to the items in order); Verus has no support for iterator adapters."""
    ty = arg.strip()
    pat = re.compile(r'let\s+(\w+)\s*=\s*([^;]+?)\s*\.into_iter\(\)\s*\.map\(\s*([\w:]+)\s*\)\s*\.collect::<Vec<_>>\(\);', re.S)
    m = pat.search(body)
    if not m:
        raise RuleError('no `let v = x.into_iter().map(F).collect::<Vec<_>>();`')
    v, x, f = m.group(1), m.group(2).strip(), m.group(3)
    new = (f'let mc__src = {x};\n        let mut {v}: Vec<{ty}> = Vec::new();\n        for mc__e in mc__src.iter() {{\n            {v}.push({f}(*mc__e));\n        }}')
    ctx.note('R-mapcollect', m.group(0), new)
    return sig, body[:m.start()] + new + body[m.end():]


def rule_nocallback(ctx, sig, body, arg):
    """R-callback (call sites of the public wrappers): the argument `&mut dont_track_progress` (the no-op observer) is dropped,
    matching the removal of the `progress_callback` parameter from the callee."""
    pat = re.compile(r',\s*&mut\s+dont_track_progress\s*,?(\s*\))')
    ms = list(pat.finditer(body))
    if not ms:
        raise RuleError('`&mut dont_track_progress` argument not found')
    for m in reversed(ms):
        ctx.note('R-callback', m.group(0), m.group(1))
        body = body[:m.start()] + m.group(1) + body[m.end():]
    return sig, body


def rule_mapcollect(ctx, sig, body, arg):
    """R-mapcollect: `let V: Vec<T> = X .iter() .map(|x| F(ARGS, x)) .collect();` -> explicit loop
    `let mut V: Vec<T> = Vec::new(); for x in X.iter() { V.push(F(ARGS, x)); }`
    (definition of map + collect into a Vec: same elements, same order); Verus has no support for iterator adapters with closures."""
    pat = re.compile(r'let\s+(\w+)\s*:\s*(Vec<[^=]+?>)\s*=\s*(\w+)\s*\.iter\(\)\s*\.map\(\|(\w+)\|\s*([^;]+?)\)\s*\.collect\(\);', re.S)
    m = pat.search(body)
    if not m:
        raise RuleError('no `let v: Vec<T> = x.iter().map(|e| ..).collect();`')
    v, ty, x, e, expr = m.group(1), m.group(2).strip(), m.group(3), m.group(4), m.group(5).strip()
    new = f'let mut {v}: {ty} = Vec::new();\n    for {e} in {x}.iter() {{\n        {v}.push({expr});\n    }}'
    ctx.note('R-mapcollect', m.group(0), new)
    return sig, body[:m.start()] + new + body[m.end():]
