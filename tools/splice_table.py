#!/usr/bin/env python3
"""replace the seeded-change table of DESIGN.md by the output of tools/seeded_table.py"""
import os, re, subprocess, sys
V = os.path.dirname(os.path.dirname(os.path.abspath(__file__)))
tab = subprocess.run([sys.executable, os.path.join(V, 'tools', 'seeded_table.py')], capture_output=True, text=True, check=True).stdout.rstrip('\n').split('\n')
p = os.path.join(V, 'DESIGN.md')
lines = open(p).read().split('\n')
a = next(i for i, l in enumerate(lines) if l.startswith('| change | property | file | verdict |'))
b = a
while b < len(lines) and lines[b].startswith('|'):
    b += 1
# the generator's output ends with a blank line and the totals line: drop the totals lines of earlier runs that follow the table
import re as _re
while b < len(lines) and (lines[b].strip() == '' or _re.match(r'^\d+ confirmed changes: ', lines[b])):
    b += 1
lines[a:b] = tab + ['']
open(p, 'w').write('\n'.join(lines))
print('table rows:', len(tab) - 2)
