#!/bin/sh
# as run_all.sh, but four checks at a time, each with its own build directory (evidence is written to /verif/evidence as usual)
cd /verif
mkdir -p /tmp/t
python3 -c "import json; print('\n'.join(c['property_id'] for c in json.load(open('MANIFEST.json'))['checks']))" | \
  xargs -P 4 -I{} sh -c 'VERIF_BUILD_DIR=/tmp/t/build_ra_{} ./check {} > /tmp/t/runall_{}.out 2>&1; echo "{} exit=$? $(tail -1 /tmp/t/runall_{}.out | cut -c1-120)"; rm -rf /tmp/t/build_ra_{}'
