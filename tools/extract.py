"""Mechanical extraction of functions / types from /repo and splicing of contracts.

Every run re-reads /repo's working tree.  The function bodies are copied verbatim and then
changed only by the closed list of syntactic rules in rules.py (each application is logged).
Contracts (requires / ensures / invariants / proof hints) come from /verif/contracts/*.ctr and
are *inserted*; they can never change executable text.

Exit behaviour is the caller's business: this module raises ExtractError for anything that
must end as "undecided" (exit 2): item not found, anchor lost, rule not applicable.
"""
import hashlib
import os
import re

from rlex import tokenize, code_tokens, match_close, skip_angle, norm_ws
import rules as R


class ExtractError(Exception):
    pass


class RepoFile:
    cache = {}

    def __init__(self, root, rel):
        self.rel = rel
        self.path = os.path.join(root, rel)
        try:
            with open(self.path, encoding='utf-8') as f:
                self.src = f.read()
        except OSError as e:
            raise ExtractError(f'cannot read {self.path}: {e}')
        try:
            self.toks = tokenize(self.src)
        except ValueError as e:
            raise ExtractError(f'{rel}: {e}')
        self.ct = code_tokens(self.toks)

    @classmethod
    def get(cls, root, rel):
        key = (root, rel)
        if key not in cls.cache:
            cls.cache[key] = RepoFile(root, rel)
        return cls.cache[key]

    def line_of(self, pos):
        return self.src.count('\n', 0, pos) + 1


def _impl_header_type(ct, i):
    """ct[i] is `impl`; return (type string, trait string or None, index of '{')"""
    j = i + 1
    if ct[j].text == '<':
        j = skip_angle(ct, j)
    k = j
    parts = []
    while not (ct[k].kind == 'punct' and ct[k].text == '{'):
        parts.append(ct[k].text)
        k += 1
    s = ' '.join(parts)
    if ' for ' in ' ' + s + ' ':
        trait, ty = s.split(' for ', 1)
    else:
        trait, ty = None, s
    ty = ty.split(' where ')[0]
    return ty.replace(' ', ''), (trait.replace(' ', '') if trait else None), k


class FnItem:
    def __init__(self, rf, vis, kw_i, name_i, body_open_i, body_close_i, impl_type, impl_trait):
        ct = rf.ct
        self.rf = rf
        self.impl_type = impl_type
        self.impl_trait = impl_trait
        self.name = ct[name_i].text
        self.start = ct[vis].pos
        self.sig_text = rf.src[ct[vis].pos:ct[body_open_i].pos]
        self.body_text = rf.src[ct[body_open_i].pos:ct[body_close_i].end]  # includes braces
        self.text = rf.src[self.start:ct[body_close_i].end]
        self.line_start = rf.line_of(self.start)
        self.line_end = rf.line_of(ct[body_close_i].end)
        self.sha256 = hashlib.sha256(self.text.encode()).hexdigest()


def find_items(rf):
    """Walk the file once; return dict with fns {(impl_type or None, name): FnItem} and
    types {name: text}.  Items inside `mod tests` (any cfg(test) module) are ignored."""
    ct = rf.ct
    fns, types = {}, {}
    ctx_stack = []  # (close_index, kind, impl_type, impl_trait)
    i = 0
    n = len(ct)
    while i < n:
        t = ct[i]
        while ctx_stack and i > ctx_stack[-1][0]:
            ctx_stack.pop()
        if t.kind == 'ident' and t.text == 'mod' and i + 2 < n and ct[i + 2].text == '{':
            close = match_close(ct, i + 2)
            if ct[i + 1].text == 'tests':
                i = close + 1
                continue
            ctx_stack.append((close, 'mod', None, None))
            i += 3
            continue
        if t.kind == 'ident' and t.text == 'impl':
            ty, trait, k = _impl_header_type(ct, i)
            close = match_close(ct, k)
            ctx_stack.append((close, 'impl', ty, trait))
            i = k + 1
            continue
        if t.kind == 'ident' and t.text in ('enum', 'struct') and ct[i + 1].kind == 'ident':
            name = ct[i + 1].text
            j = i + 2
            if ct[j].text == '<':
                j = skip_angle(ct, j)
            # find body: '{' ... '}' or '(' ... ')' ';' or ';'
            while ct[j].text not in ('{', '(', ';'):
                j += 1
            if ct[j].text == ';':
                end = j
            else:
                end = match_close(ct, j)
                if ct[j].text == '(':
                    while ct[end].text != ';':
                        end += 1
            vis = i
            if i >= 1 and ct[i - 1].text == 'pub':
                vis = i - 1
            elif i >= 4 and ct[i - 1].text == ')' and ct[i - 4].text == 'pub':
                vis = i - 4
            text = rf.src[ct[vis].pos:ct[end].end]
            types[name] = (text, rf.line_of(ct[vis].pos), rf.line_of(ct[end].end))
            i = end + 1
            continue
        if t.kind == 'ident' and t.text == 'type' and ct[i + 1].kind == 'ident' and not (ctx_stack and ctx_stack[-1][1] == 'impl'):
            name = ct[i + 1].text
            j = i + 2
            while ct[j].text != ';':
                j += 1
            vis = i
            if i >= 1 and ct[i - 1].text == 'pub':
                vis = i - 1
            text = rf.src[ct[vis].pos:ct[j].end]
            types[name] = (text, rf.line_of(ct[vis].pos), rf.line_of(ct[j].end))
            i = j + 1
            continue
        if t.kind == 'ident' and t.text == 'fn' and ct[i + 1].kind == 'ident':
            name_i = i + 1
            j = i + 2
            if ct[j].text == '<':
                j = skip_angle(ct, j)
            if ct[j].text != '(':
                raise ExtractError(f'{rf.rel}: cannot parse fn {ct[name_i].text}')
            j = match_close(ct, j) + 1
            # return type / where clause up to '{' or ';'
            while ct[j].text not in ('{', ';'):
                if ct[j].text in ('(', '['):
                    j = match_close(ct, j)
                elif ct[j].text == '<':
                    j = skip_angle(ct, j) - 1
                j += 1
            if ct[j].text == ';':
                i = j + 1
                continue
            close = match_close(ct, j)
            vis = i
            if i >= 1 and ct[i - 1].text == 'pub':
                vis = i - 1
            elif i >= 4 and ct[i - 1].text == ')' and ct[i - 4].text == 'pub':
                vis = i - 4
            impl_type = impl_trait = None
            if ctx_stack and ctx_stack[-1][1] == 'impl':
                impl_type, impl_trait = ctx_stack[-1][2], ctx_stack[-1][3]
            item = FnItem(rf, vis, i, name_i, j, close, impl_type, impl_trait)
            key = (impl_type, impl_trait, item.name)
            if key in fns:
                raise ExtractError(f'{rf.rel}: duplicate item {key}')
            fns[key] = item
            i = close + 1
            continue
        i += 1
    return fns, types


_items_cache = {}


def items_of(root, rel):
    key = (root, rel)
    if key not in _items_cache:
        _items_cache[key] = find_items(RepoFile.get(root, rel))
    return _items_cache[key]


def lookup_fn(root, rel, item):
    fns, _ = items_of(root, rel)
    impl_type = impl_trait = None
    name = item
    m = re.match(r'^<(\S+) for (\S+)>::(\w+)$', item)
    if m:
        impl_trait, impl_type, name = m.group(1), m.group(2), m.group(3)
    elif '::' in item:
        impl_type, name = item.rsplit('::', 1)
    key = (impl_type, impl_trait, name)
    if key not in fns:
        raise ExtractError(f'item `{item}` not found in {rel} (lost anchor)')
    return fns[key]


def lookup_type(root, rel, name):
    _, types = items_of(root, rel)
    if name not in types:
        raise ExtractError(f'type `{name}` not found in {rel} (lost anchor)')
    return types[name]


# --------------------------------------------------------------------------- contracts

class Contract:
    def __init__(self, name, src_file):
        self.name = name
        self.src_file = src_file
        self.file = None
        self.item = None
        self.ret = None
        self.attrs = []
        self.rules = []       # list of (rule, argstring)
        self.spec = ''
        self.inserts = []     # (where, occurrence, anchor, payload)
        self.loops = {}       # ordinal -> payload
        self.tags = []
        self.vis = None
        self.novac = False    # skip the vacuity twin (function has no reachable normal exit by design)
        self.sigsub = []      # (regex, repl) applied to signature (only generics/trait-bounds rules)


def parse_contracts(path):
    out = {}
    cur = None
    section = None   # ('spec',) or ('insert', idx) or ('loop', n)
    with open(path, encoding='utf-8') as f:
        lines = f.read().split('\n')
    for ln, line in enumerate(lines, 1):
        s = line.strip()
        if s.startswith('@') and not s.startswith('@@'):
            m = re.match(r'^@(\w+\??)(#\d+)?\s*(.*)$', s)
            if not m:
                raise ExtractError(f'{path}:{ln}: bad directive')
            d, occ, arg = m.group(1), m.group(2), m.group(3)
            occ = int(occ[1:]) if occ else 1
            if d == 'contract':
                cur = Contract(arg, path)
                if arg in out:
                    raise ExtractError(f'{path}:{ln}: duplicate contract {arg}')
                out[arg] = cur
                section = None
            elif cur is None:
                raise ExtractError(f'{path}:{ln}: directive outside contract')
            elif d == 'file':
                cur.file = arg
            elif d == 'item':
                cur.item = arg
            elif d == 'ret':
                cur.ret = arg
            elif d == 'attr':
                cur.attrs.append(arg)
            elif d in ('rule', 'rule?'):
                # `@rule? R args`: an OPTIONAL rule -- applied when its pattern occurs, skipped (and logged) otherwise, so that a change
                # that removes the pattern still leaves the function within the verifier's reach
                parts = arg.split(None, 1)
                cur.rules.append((parts[0] + ('?' if d == 'rule?' else ''), parts[1] if len(parts) > 1 else ''))
            elif d == 'spec':
                section = ('spec',)
            elif d in ('after', 'before', 'atstart', 'atend'):
                cur.inserts.append([d, occ, arg, ''])
                section = ('insert', len(cur.inserts) - 1)
            elif d == 'loop':
                n = int(arg)
                cur.loops[n] = ''
                section = ('loop', n)
            elif d == 'novac':
                cur.novac = True
            elif d == 'end':
                cur = None
                section = None
            else:
                raise ExtractError(f'{path}:{ln}: unknown directive @{d}')
            continue
        if cur is None or section is None:
            continue
        if section[0] == 'spec':
            cur.spec += line + '\n'
        elif section[0] == 'insert':
            cur.inserts[section[1]][3] += line + '\n'
        elif section[0] == 'loop':
            cur.loops[section[1]] += line + '\n'
    for c in out.values():
        if not c.file or not c.item:
            raise ExtractError(f'{path}: contract {c.name} lacks @file/@item')
    return out


def load_all_contracts(cdir):
    allc = {}
    for fn in sorted(os.listdir(cdir)):
        if fn.endswith('.ctr'):
            for k, v in parse_contracts(os.path.join(cdir, fn)).items():
                if k in allc:
                    raise ExtractError(f'duplicate contract {k}')
                allc[k] = v
    return allc


# --------------------------------------------------------------------------- splicing

class _TokMatch:
    """result of a token-level anchor match: start() / end() are character positions in the body"""
    def __init__(self, s, e):
        self._s, self._e = s, e

    def start(self):
        return self._s

    def end(self):
        return self._e


def _norm_tokens(text):
    """code tokens of `text` without TRAILING COMMAS (a comma directly followed by `)`, `]` or `}`): rustfmt adds / removes them when it
    re-flows a call over several lines, and they never change the meaning of a call, an array, a struct literal or a match"""
    ct = code_tokens(tokenize(text))
    out = []
    for i, t in enumerate(ct):
        if t.text == ',' and i + 1 < len(ct) and ct[i + 1].text in (')', ']', '}'):
            continue
        out.append(t)
    return out


def _find_anchor(body, anchor, occ, cname):
    """anchors are matched on the TOKEN sequence (white space, line breaks, comments and trailing commas are irrelevant)"""
    bt = _norm_tokens(body)
    at = [t.text for t in _norm_tokens(anchor)]
    if not at:
        raise ExtractError(f'contract {cname}: empty anchor')
    n = len(at)
    texts = [t.text for t in bt]
    hits = []
    i = 0
    while i + n <= len(texts):
        if texts[i:i + n] == at:
            hits.append((bt[i].pos, bt[i + n - 1].end))
            i += n
        else:
            i += 1
    if len(hits) < occ:
        raise ExtractError(f'contract {cname}: anchor `{anchor}` (occurrence {occ}) not found (lost anchor)')
    return _TokMatch(*hits[occ - 1])


def _inside_comment_or_str(body, pos):
    for t in tokenize(body):
        if t.pos <= pos < t.end:
            return t.kind in ('comment', 'str', 'char')
    return False


def _loop_positions(body):
    """positions (index in body string of the opening '{' of the loop body) for each
    `while` / `for` / `loop` keyword in textual order"""
    toks = tokenize(body)
    ct = code_tokens(toks)
    res = []
    for i, t in enumerate(ct):
        if t.kind == 'ident' and t.text in ('while', 'for', 'loop'):
            if t.text == 'for' and i > 0 and ct[i - 1].text in ('impl', '>'):
                continue
            j = i + 1
            while j < len(ct):
                if ct[j].text in ('(', '['):
                    j = match_close(ct, j)
                elif ct[j].text == '{':
                    break
                j += 1
            res.append(ct[j].pos)
    return res


def rewrite_signature(sig, ret, cname):
    """name the return value: `-> T` becomes `-> (ret: T)`"""
    if ret is None:
        return sig.rstrip()
    toks = code_tokens(tokenize(sig))
    # locate parameter list: first '(' after fn name (skipping generics)
    i = 0
    while toks[i].text != 'fn':
        i += 1
    j = i + 2
    if toks[j].text == '<':
        j = skip_angle(toks, j)
    close = match_close(toks, j)
    k = close + 1
    if k >= len(toks) or toks[k].text != '->':
        raise ExtractError(f'contract {cname}: @ret given but function returns ()')
    # return type ends at `where` or end
    end = len(sig)
    for t in toks[k + 1:]:
        if t.kind == 'ident' and t.text == 'where':
            end = t.pos
            break
    rt = sig[toks[k].end:end].strip()
    return sig[:toks[k].end] + f' ({ret}: {rt}) ' + sig[end:].rstrip()


class Emitted:
    def __init__(self):
        self.text = ''
        self.log = []          # rule applications
        self.fn = None         # FnItem


def _strip_comments(text):
    """comments of the extracted body are dropped before rules and anchors are applied (R-comment: a comment has no run-time meaning), so that
    a comment added in the middle of an anchored multi-line statement does not move the function out of reach"""
    out = []
    for t in tokenize(text):
        if t.kind == 'comment':
            out.append(' ')
        else:
            out.append(t.text)
    return ''.join(out)


GLOBAL_OPTIONAL_RULES = [('optclosure', ''), ('noprint', '')]


def emit_function(root, c, mode, extra_fmt_fns):
    """mode: 'verify' | 'assume' | 'vacuity'.
    returns Emitted"""
    fn = lookup_fn(root, c.file, c.item)
    em = Emitted()
    em.fn = fn
    sig = fn.sig_text
    body = _strip_comments(fn.body_text)
    ctx = R.RuleCtx(c.name, extra_fmt_fns, em.log)
    # rules that every function gets when their pattern occurs (they only remove constructs that Verus cannot see through)
    for rule, arg in [(r + '?', a) for r, a in GLOBAL_OPTIONAL_RULES] + list(c.rules):
        optional = rule.endswith('?')
        rule = rule.rstrip('?')
        if not hasattr(R, 'rule_' + rule):
            raise ExtractError(f'contract {c.name}: unknown rule {rule}')
        try:
            sig, body = getattr(R, 'rule_' + rule)(ctx, sig, body, arg)
        except R.RuleError as e:
            if optional:
                ctx.note('R-' + rule + ' (optional, skipped)', str(e), '')
                continue
            if mode == 'assume' and rule not in ('callback',):
                continue    # the body of an assumed function is not emitted: a body-only rule that no longer applies is irrelevant
            raise ExtractError(f'contract {c.name}: rule {rule} not applicable: {e}')
    sig = rewrite_signature(sig, c.ret, c.name)
    name = fn.name
    attrs = list(c.attrs)
    spec = c.spec.rstrip('\n')
    if mode != 'assume' and not any('exec_allows_no_decreases_clause' in a for a in attrs):
        # a loop or recursion that has no contract (e.g. newly added code) is then verified as "unknown effect"
        # (its obligations fail) instead of being rejected by the front end; every decreases clause that IS
        # given by a contract is still checked
        attrs.append('#[verifier::exec_allows_no_decreases_clause]')
    if mode == 'assume':
        attrs.append('#[verifier::external_body]')
        body = '{ unimplemented!() }'
    else:
        # all anchors (and loop positions) are located on the un-annotated body, then the payloads
        # are inserted from the end backwards, so a payload can never be matched by an anchor
        edits = []   # (pos, order, text)
        order = 0
        for where, occ, anchor, payload in c.inserts:
            order += 1
            if where == 'atstart':
                edits.append((1, order, '\n' + payload))
            elif where == 'atend':
                edits.append((len(body) - 1, order, payload))
            else:
                # an anchor may name fall-back positions: `@before A ||| after B ||| before#2 C` -- the first one that exists is used
                # (a change of statement A then does not lose the hint, and the obligations around it are still checked)
                alts = [(where, occ, anchor.split('|||')[0].strip())]
                for alt in anchor.split('|||')[1:]:
                    mm = re.match(r'^\s*(before|after)(#\d+)?\s+(.*)$', alt.strip(), re.S)
                    if not mm:
                        raise ExtractError(f'contract {c.name}: bad alternative anchor `{alt.strip()}`')
                    alts.append((mm.group(1), int(mm.group(2)[1:]) if mm.group(2) else 1, mm.group(3).strip()))
                last_err = None
                for w2, o2, a2 in alts:
                    try:
                        m = _find_anchor(body, a2, o2, c.name)
                    except ExtractError as e:
                        last_err = e
                        continue
                    p = m.end() if w2 == 'after' else m.start()
                    edits.append((p, order, '\n' + payload))
                    break
                else:
                    raise last_err
        if c.loops:
            lp = _loop_positions(body)
            for n in sorted(c.loops):
                if n < 1 or n > len(lp):
                    raise ExtractError(f'contract {c.name}: loop {n} not found (lost anchor)')
                order += 1
                edits.append((lp[n - 1], order, '\n' + c.loops[n]))
        for p, o, text in sorted(edits, key=lambda e: (-e[0], -e[1])):
            body = body[:p] + text + body[p:]
    if mode == 'vacuity':
        # the twin only has to show that `false` is NOT provable: a small resource limit is enough
        # (exhausting it counts as "not vacuous"), so that heavy functions do not double the run time
        attrs = [a for a in attrs if 'rlimit' not in a and 'spinoff' not in a] + ['#[verifier::rlimit(2)]']
        sig = re.sub(r'\bfn\s+' + re.escape(name) + r'\b', 'fn ' + name + '__vac', sig, count=1)
        spec = _add_false_ensures(spec)
    text = ''
    for a in attrs:
        text += a + '\n'
    text += sig + '\n' + (spec + '\n' if spec else '') + body + '\n'
    if fn.impl_type and not fn.impl_trait:
        text = f'impl {fn.impl_type} {{\n{text}}}\n'
    elif fn.impl_trait and (mode == 'vacuity' or ctx.inherent):
        text = f'impl {fn.impl_type} {{\n{text}}}\n'
    elif fn.impl_trait:
        text = f'impl {fn.impl_trait} for {fn.impl_type} {{\n{text}}}\n'
    em.text = text
    return em


def _add_false_ensures(spec):
    """append `false` to the ensures list (or create one) -- used by the vacuity guard"""
    lines = spec.split('\n')
    # find position of 'decreases' at statement level (a line starting with decreases)
    idx = None
    for i, l in enumerate(lines):
        if re.match(r'^\s*decreases\b', l):
            idx = i
            break
    has_ens = any(re.match(r'^\s*ensures\b', l) for l in lines)
    add = '        false, // VACUITY-GUARD' if has_ens else '    ensures false, // VACUITY-GUARD'
    if has_ens:
        # make sure previous clause ends with a comma
        j = (idx if idx is not None else len(lines)) - 1
        while j >= 0 and (not lines[j].strip() or lines[j].strip().startswith('//')):
            j -= 1
        code = lines[j].split('//')[0].rstrip()
        if not code.endswith(','):
            cm = lines[j][len(code):]
            lines[j] = code + ',' + cm
    if idx is None:
        lines.append(add)
    else:
        lines.insert(idx, add)
    return '\n'.join(lines)


def emit_dbgtable(root, rel, name):
    """spec table of #[derive(Debug)] on a field-less enum: the variant identifiers (std: the derived Debug of a unit variant writes its name)"""
    text, l0, l1 = lookup_type(root, rel, name)
    with open(os.path.join(root, rel), encoding='utf-8') as f:
        src = f.read()
    m = re.search(r'#\[derive\(([^)]*)\)\]\s*(?:pub\s+)?enum\s+' + re.escape(name) + r'\b', src)
    if not m or 'Debug' not in [x.strip() for x in m.group(1).split(',')]:
        raise ExtractError(f'dbgtable: `{name}` in {rel} does not derive Debug (lost anchor)')
    if re.search(r'impl\s+(?:std\s*::\s*)?(?:fmt\s*::\s*)?Debug\s+for\s+' + re.escape(name) + r'\b', src):
        raise ExtractError(f'dbgtable: hand-written Debug for {name}')
    body = text[text.index('{') + 1:text.rindex('}')]
    body = re.sub(r'//[^\n]*', '', body)
    body = re.sub(r'/\*.*?\*/', '', body, flags=re.S)
    variants = [v.strip() for v in body.split(',') if v.strip()]
    for v in variants:
        if not re.match(r'^[A-Za-z_]\w*$', v):
            raise ExtractError(f'dbgtable: variant `{v}` of {name} is not a unit variant')
    arms = ', '.join(f'{name}::{v} => "{v}"@' for v in variants)
    return (f'pub open spec fn dbg_{name}(x: {name}) -> Seq<char> {{\n    match x {{ {arms} }}\n}}\n', (rel, l0, l1))


def emit_type(root, rel, name):
    text, l0, l1 = lookup_type(root, rel, name)
    sha = hashlib.sha256(text.encode()).hexdigest()
    # R-vis: a private struct (and its fields) is emitted `pub`: visibility has no run-time meaning, and Verus only lets
    # contracts of pub functions mention visible fields
    m = re.match(r'^(\s*)struct\s', text)
    if m:
        head, brace, rest = text.partition('{')
        rest = re.sub(r'(?m)^(\s*)(?!pub\b)(\w+\s*:)', r'\1pub \2', rest)
        text = re.sub(r'^(\s*)struct\s', r'\1pub struct ', head) + brace + rest
    return text + '\n', (rel, l0, l1, sha)
