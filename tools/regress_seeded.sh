#!/bin/sh
# run every seeded change of /verif/seeded against the checks of the properties named in its meta.json (first token(s) of "property").
# The change is applied in a scratch worktree of /repo (never in /repo itself); evidence of these runs goes to /tmp (never into
# /verif/evidence); prints one line per (change, property).   usage: regress_seeded.sh [name ...]
cd /verif
WT=/tmp/wt/regress
export VERIF_EVIDENCE_DIR=/tmp/t/evidence_mutants VERIF_BUILD_DIR=/tmp/t/build_regress VERIF_REPO=$WT; mkdir -p $VERIF_EVIDENCE_DIR
git -C /repo worktree remove --force $WT 2>/dev/null; git -C /repo worktree prune
git -C /repo worktree add -q --detach $WT HEAD || exit 2
NAMES="$@"; [ -z "$NAMES" ] && NAMES=$(for d in seeded/*/; do [ -f $d/meta.json ] && basename $d; done)
for n in $NAMES; do
  d=seeded/$n
  props=$(python3 -c "import json,re;print(' '.join(re.findall(r'C\d\d', json.load(open('$d/meta.json'))['property'])))")
  git -C $WT checkout -q -- . ; git -C $WT apply /verif/$d/patch.diff 2>/dev/null || { echo "$n: PATCH DOES NOT APPLY (tree changed by a later fix?)"; continue; }
  for p in $props; do
    if python3 -c "import sys,json; sys.exit(0 if '$p' in [c['property_id'] for c in json.load(open('MANIFEST.json'))['checks']] else 1)"; then
      ./check $p > /tmp/t/regress_${n}_$p.out 2>&1; rc=$?
      echo "$n $p exit=$rc $(grep -E 'VIOLATION|UNDECIDED|^OK' /tmp/t/regress_${n}_$p.out | head -1 | cut -c1-160)"
    else
      echo "$n $p not-claimed"
    fi
  done
done
git -C /repo worktree remove --force $WT; rm -rf /tmp/t/build_regress
