#!/bin/sh
# run every seeded change of /verif/seeded against the checks of the properties named in its meta.json (first token(s) of "property");
# evidence of these runs goes to /tmp (never into /verif/evidence); prints one line per (change, property)
cd /verif
export VERIF_EVIDENCE_DIR=/tmp/t/evidence_mutants VERIF_BUILD_DIR=/tmp/t/build_regress; mkdir -p $VERIF_EVIDENCE_DIR
for d in seeded/*/; do
  n=$(basename $d)
  props=$(python3 -c "import json,re;print(' '.join(re.findall(r'C\d\d', json.load(open('$d/meta.json'))['property'])))")
  if [ -n "$(git -C /repo status --porcelain -- src)" ]; then echo "repo dirty"; exit 2; fi
  git -C /repo apply /verif/$d/patch.diff 2>/dev/null || { echo "$n: PATCH DOES NOT APPLY (tree changed by a later fix?)"; continue; }
  for p in $props; do
    if python3 -c "import sys,json; sys.exit(0 if '$p' in [c['property_id'] for c in json.load(open('MANIFEST.json'))['checks']] else 1)"; then
      ./check $p > /tmp/t/regress_${n}_$p.out 2>&1; rc=$?
      echo "$n $p exit=$rc $(grep -E 'VIOLATION|UNDECIDED|^OK' /tmp/t/regress_${n}_$p.out | head -1 | cut -c1-160)"
    else
      echo "$n $p not-claimed"
    fi
  done
  git -C /repo checkout -- .
done
