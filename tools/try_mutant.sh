#!/bin/sh
# usage: try_mutant.sh <seeded-name> <prop> [<prop> ...] : apply /verif/seeded/<name>/patch.diff to /repo, run the checks, undo
NAME=$1; shift
cd /repo || exit 2
if [ -n "$(git status --porcelain -- src)" ]; then echo "repo dirty"; exit 2; fi
git apply /verif/seeded/$NAME/patch.diff || exit 2
cd /verif
export VERIF_EVIDENCE_DIR=/tmp/t/evidence_mutants; mkdir -p $VERIF_EVIDENCE_DIR
for p in "$@"; do
  ./check $p > /tmp/t/try_$NAME_$p.out 2>&1; rc=$?
  echo "[$NAME] check $p -> exit $rc : $(grep -E 'VIOLATION|OK property|UNDECIDED|KNOWN' /tmp/t/try_$NAME_$p.out | head -3 | cut -c1-220)"
done
git -C /repo checkout -- .
