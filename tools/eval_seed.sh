#!/bin/sh
# usage: eval_seed.sh <name> <prop> [<prop>..] : run the checks on the scratch worktree /tmp/wt/<name> (the seeded change applied there)
NAME=$1; shift
cd /verif
for p in "$@"; do
  VERIF_REPO=/tmp/wt/$NAME VERIF_BUILD_DIR=/tmp/t/build_$NAME VERIF_EVIDENCE_DIR=/tmp/t/evidence_mutants ./check $p > /tmp/t/eval_${NAME}_$p.out 2>&1; rc=$?
  echo "[$NAME] check $p -> exit $rc : $(grep -E 'VIOLATION|OK property|UNDECIDED' /tmp/t/eval_${NAME}_$p.out | head -3 | cut -c1-260)"
done
rm -rf /tmp/t/build_$NAME
