#!/usr/bin/env python3
"""print a markdown table of the seeded changes (/verif/seeded/*/meta.json): which check catches which change"""
import json, glob, os
rows = []
for d in sorted(glob.glob('/verif/seeded/*/')):
    if not os.path.exists(d + 'meta.json'):
        continue
    n = os.path.basename(d.rstrip('/'))
    m = json.load(open(d + 'meta.json'))
    caught = m.get('caught_by') or []
    missed = m.get('missed_by') or []
    verdict = 'caught' if caught and not missed else ('undecided (exit 2)' if any('UNDECIDED' in x for x in missed) else ('missed' if missed else '?'))
    what = (caught[0] if caught else (missed[0] if missed else ''))
    rows.append((n, m.get('property', ''), m.get('file', ''), verdict, what.replace('|', '/')[:230]))
print('| change | property | file | verdict | failed obligation / reason |')
print('|---|---|---|---|---|')
for r in rows:
    print('| ' + ' | '.join(r) + ' |')
c = sum(1 for r in rows if r[3] == 'caught'); u = sum(1 for r in rows if r[3].startswith('undecided'))
print(f'\n{len(rows)} confirmed changes: {c} caught (exit 1, VIOLATION naming the obligation), {u} undecided (exit 2), {len(rows) - c - u} missed (exit 0).')
