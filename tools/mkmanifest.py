#!/usr/bin/env python3
"""(re)generate MANIFEST.json from tools/props.py so that the two cannot drift"""
import json, os, sys
sys.path.insert(0, os.path.dirname(os.path.abspath(__file__)))
import props as P
V = os.path.dirname(os.path.dirname(os.path.abspath(__file__)))
ids = [json.loads(l)['id'] for l in open(os.path.join(V, 'properties.jsonl')) if l.strip()]
checks = []
for pid in ids:
    if pid not in P.PROPS:
        continue
    p = P.PROPS[pid]
    checks.append({
        'property_id': pid,
        'quick_cmd': f'./check {pid} --tier quick',
        'thorough_cmd': f'./check {pid} --tier thorough',
        'evidence_file': f'/verif/evidence/{pid}.json',
        'replay_cmd_template': './check --replay {path}',
        'engine': 'verus-contracts',
        'level_claimed': {'category': 'proof', 'text': p['level_text'], 'design_ref': p.get('design_ref', 'DESIGN.md section 4, ' + pid)},
        'level_note': p['level_note'],
        'technique': p.get('technique', 'contract-based deductive verification (Verus/Z3) of functions extracted mechanically from /repo on every run'),
    })
na = [{'property_id': pid, 'reason': P.NOT_APPLICABLE[pid]} for pid in ids if pid not in P.PROPS]
for pid in ids:
    assert pid in P.PROPS or pid in P.NOT_APPLICABLE, pid
m = {
    'version': 1,
    'setup_cmd': 'python3 tools/setup_check.py',
    'hooks': {
        'guard': 'hctl_mc_verif',
        'enable': 'none needed by the checks: functions are extracted textually from /repo/src on every run (private items included); RUSTFLAGS="--cfg hctl_mc_verif" is reserved for replay helpers',
        'baseline_off_cmd': 'cd /repo && cargo test --workspace --no-fail-fast --offline',
        'source_commits': P.HOOK_COMMITS,
        'add_only': True,
    },
    'engines': [{
        'name': 'verus-contracts', 'path': '/verif/tools/driver.py',
        'serves_properties': [c['property_id'] for c in checks],
        'kind_free_text': 'tools/extract.py re-extracts the real functions from /repo/src, splices the contracts of /verif/contracts/*.ctr, units/*.rs assemble them with the spec layer (spec/*.rs) and the trusted model of the dependencies (prelude/*.rs); Verus 0.2026.09.13 (Z3) discharges every obligation; tools/driver.py maps diagnostics to (function, clause) and properties',
    }],
    'checks': checks,
    'notes': P.NOTES,
    'not_applicable': na,
}
json.dump(m, open(os.path.join(V, 'MANIFEST.json'), 'w'), indent=1)
print('MANIFEST.json:', len(checks), 'checks,', len(na), 'not_applicable')
