#!/usr/bin/env python3
"""setup: nothing to build (the framework is Python + the pre-installed verus); verify the tools exist"""
import shutil, subprocess, sys, os
v = shutil.which('verus')
if not v:
    print('verus not on PATH', file=sys.stderr); sys.exit(1)
print(subprocess.run(['verus', '--version'], capture_output=True, text=True).stdout.strip().split('\n')[0:3])
os.makedirs(os.path.join(os.path.dirname(os.path.dirname(os.path.abspath(__file__))), 'build'), exist_ok=True)
print('setup ok')
