#!/bin/sh
# usage: eval_benign.sh <set> : for every patch /tmp/wt/<set>/_benign/<k>.diff apply it in the scratch worktree /tmp/wt/<set> and run the checks
# whose cones contain the touched files; a behaviour-preserving change must never give exit 1
SET=$1
cd /verif
for f in /tmp/wt/$SET/_benign/*.diff; do
  k=$(basename $f .diff)
  git -C /tmp/wt/$SET checkout -q -- src
  git -C /tmp/wt/$SET apply $f 2>/dev/null || { echo "[$SET/$k] patch does not apply"; continue; }
  files=$(git -C /tmp/wt/$SET diff --name-only | tr '\n' ' ')
  props="C14"
  case "$files" in *analysis.rs*|*load_inputs.rs*|*result_print.rs*) props="$props C17";; esac
  case "$files" in *convert_aeon_to_bnet.rs*) props="C19";; esac
  case "$files" in *canonization.rs*|*mark_duplicates.rs*) props="$props C09";; esac
  case "$files" in *preprocessing*) props="$props C06";; esac
  for p in $props; do
    VERIF_REPO=/tmp/wt/$SET VERIF_BUILD_DIR=/tmp/t/build_$SET VERIF_EVIDENCE_DIR=/tmp/t/evidence_mutants ./check $p > /tmp/t/benign_${SET}_${k}_$p.out 2>&1; rc=$?
    echo "[$SET/$k] ($files) check $p -> exit $rc : $(grep -E 'VIOLATION|OK property|UNDECIDED' /tmp/t/benign_${SET}_${k}_$p.out | head -2 | cut -c1-200)"
  done
done
git -C /tmp/wt/$SET checkout -q -- src; rm -rf /tmp/t/build_$SET
