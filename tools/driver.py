#!/usr/bin/env python3
"""Property check driver.

usage: driver.py <PROPERTY> [--tier quick|thorough]
       driver.py --replay <file>

exit 0: every obligation in the property's cone was discharged by Verus on /repo's current
        working tree (known findings are printed as KNOWN-FINDING lines)
exit 1: an obligation failed => `VIOLATION property=<id> replay=<path> no-failing-input-found`
exit 2: undecided (extraction failed, lost anchor, Verus front-end error, rlimit/timeout,
        vacuous contract, trusted model out of date).  Never prints a VIOLATION line.
"""
import concurrent.futures as cf
import hashlib
import json
import os
import re
import sys
import time

sys.path.insert(0, os.path.dirname(os.path.abspath(__file__)))
import extract as X
import unit as U
import props as P

VERIF = U.VERIF
EVID = os.environ.get('VERIF_EVIDENCE_DIR', os.path.join(VERIF, 'evidence'))   # overridden only by the mutant-testing helper
REPLAY = os.path.join(VERIF, 'replays')


def log(*a):
    print(*a, file=sys.stderr, flush=True)


KNOWN_SITES = {'known_d5_hit_universe': 'eval_node', 'known_d8_hit_slot': 'eval_node'}


def undecided(msg):
    log('UNDECIDED:', msg)
    sys.exit(2)


def load_known():
    p = os.path.join(VERIF, 'known_findings.json')
    if not os.path.exists(p):
        return []
    with open(p) as f:
        return json.load(f).get('open', [])


def tags_of(clause):
    return re.findall(r'\[(C\d+)\]', clause or '')


def run_unit(name, contracts, tier):
    t0 = time.time()
    u, r = U.build_and_run(name, contracts, 'vacuity', timeout=P.UNIT_TIMEOUT.get(name, 900))
    runs = [r]
    if tier == 'thorough':
        # stability: re-prove with a different resource limit and z3 seed; instability is reported
        for extra in (['--rlimit', '30', '-V', 'spinoff-all'], ['--rlimit', '20', '--smt-option', 'smt.random_seed=7']):
            runs.append(U.run_verus(u, timeout=P.UNIT_TIMEOUT.get(name, 900) * 2, extra=extra))
    return name, u, runs, time.time() - t0


def scan_forbidden(u):
    """assume/admit/external_body inside *verified* repo functions are forbidden; everything
    trusted elsewhere in the unit is listed."""
    lines = u.text.split('\n')
    forbidden, trusted = [], []
    for s in u.segments:
        seg = '\n'.join(lines[s['gline0'] - 1:s['gline1']])
        if s['kind'] in ('verify', 'vacuity'):
            for pat in (r'\bassume\s*\(', r'\badmit\s*\(', r'external_body', r'verifier::external\b', r'assume_specification'):
                if re.search(pat, seg):
                    forbidden.append({'segment': s['name'], 'pattern': pat})
    in_seg = [False] * (len(lines) + 2)
    for s in u.segments:
        for k in range(s['gline0'], s['gline1'] + 1):
            in_seg[k] = True
    for i, l in enumerate(lines, 1):
        if in_seg[i]:
            continue
        if re.search(r'external_body|assume_specification|\baxiom\b|\bassume\s*\(|\badmit\s*\(|uninterp', l):
            # name = next fn identifier on this or following 3 lines
            ctx = ' '.join(lines[i - 1:i + 3])
            m = re.search(r'(?:fn|\[)\s*([A-Za-z_][A-Za-z0-9_:<>]*)', ctx)
            trusted.append(f'{u.name}:{i}: {l.strip()[:140]}')
    return forbidden, trusted


def main():
    args = sys.argv[1:]
    if args and args[0] == '--replay':
        return replay(args[1])
    pid = args[0]
    tier = os.environ.get('VERIF_TIER', 'quick')
    if '--tier' in args:
        tier = args[args.index('--tier') + 1]
    seed = int(os.environ.get('VERIF_SEED', '0') or 0)
    if pid not in P.PROPS:
        undecided(f'property {pid} is not claimed')
    prop = P.PROPS[pid]
    t0 = time.time()
    try:
        contracts = X.load_all_contracts(os.path.join(VERIF, 'contracts'))
    except X.ExtractError as e:
        undecided(str(e))
    results = {}
    try:
        with cf.ThreadPoolExecutor(max_workers=4) as ex:
            futs = [ex.submit(run_unit, un, contracts, tier) for un in prop['units']]
            for f in futs:
                name, u, runs, wall = f.result()
                results[name] = (u, runs, wall)
    except X.ExtractError as e:
        undecided(str(e))

    known = load_known()
    # ---- the cone of the property: the declared functions (tools/props.py) CLOSED UNDER CALLS.  A function that a scoped function calls
    # (directly or through other functions under contract, in any unit of the cone) is verified against its contract only, so the
    # property's proof depends on that contract: a failure there counts against this property too.
    fn2contract, text_of, unit_contracts = {}, {}, {}
    for un, (u, runs, wall) in results.items():
        ul = u.text.split('\n')
        for sg in u.segments:
            if sg['kind'] == 'verify':
                fn2contract.setdefault(sg['fn'], set()).add(sg['name'])
                text_of[sg['name']] = '\n'.join(ul[sg['gline0'] - 1:sg['gline1']])
                unit_contracts.setdefault(un, set()).add(sg['name'])
            elif sg['kind'] == 'assume':
                fn2contract.setdefault(sg['fn'], set()).add(sg['name'])
    declared = prop.get('functions', {})
    cone = set()
    for un in results:
        sc = declared.get(un)
        cone |= (unit_contracts.get(un, set()) if sc is None else set(sc))
    work = list(cone) if prop.get('closure', True) else []
    while work:
        c0 = work.pop()
        body = text_of.get(c0, '')
        for fname, cs in fn2contract.items():
            if cs <= cone:
                continue
            if re.search(r'\b' + re.escape(fname) + r'\s*(?:::\s*<[^>]*>\s*)?\(', body) and c0 not in cs:
                for c1 in cs - cone:
                    cone.add(c1)
                    work.append(c1)
    violations, knowns_hit, others, vac_missing, unstable = [], [], [], [], []
    stub_blocked = []
    units_undecided = []
    obligations = discharged = 0
    fn_rows, trusted_all, rule_log, samples = [], [], [], []
    smt_ms = 0
    checker_cmds = []
    for un, (u, runs, wall) in results.items():
        r = runs[0]
        checker_cmds.append(r['cmd'])
        # a unit that cannot be decided (time-out, front-end error) does not hide a definite failure found in ANOTHER unit of the cone:
        # it is remembered, the remaining units are still evaluated, and the property is undecided only if nothing definitely fails
        if r['timed_out']:
            units_undecided.append(f'unit {un}: Verus timed out')
            continue
        if r['frontend_errors']:
            for d in r['frontend_errors'][:5]:
                log(d['rendered'] or d['message'])
            units_undecided.append(f'unit {un}: Verus front-end error (unsupported construct / type error): extraction or model out of date')
            continue
        real_undecided = [d for d in r['undecided'] if d['owner_kind'] != 'vacuity']
        if real_undecided:
            # a resource limit is not a verdict: re-run each such function alone (fresh solver, 10x the limit);
            # a definite failure then counts, a success is recorded as instability, a second rlimit stays undecided
            still = []
            for fnname in sorted({d['owner'] for d in real_undecided if d['owner']}):
                # a definite failure of the same function was already found in this run (Verus went on looking for further
                # failures and ran out of resources doing so): the definite failure is the verdict
                if any(d['owner'] == fnname and d['owner_kind'] == 'verify' for d in r['diags']):
                    continue
                seg = next((s_ for s_ in u.segments if s_['name'] == fnname and s_['kind'] == 'verify'), None)
                if seg is None:
                    still.append(fnname); continue
                # the function may carry its own #[verifier::rlimit(n)] attribute, which overrides the command line: the re-run
                # uses a copy of the unit in which that attribute is multiplied by 10 (same line numbers)
                import copy
                u2 = copy.copy(u)
                lines = u.text.split('\n')
                for ln in range(seg['gline0'] - 1, min(seg['gline1'], len(lines))):
                    lines[ln] = re.sub(r'#\[verifier::rlimit\((\d+)\)\]', lambda m: '#[verifier::rlimit(%d)]' % (int(m.group(1)) * 10), lines[ln])
                u2.path = u.path[:-3] + '_rerun.rs'
                with open(u2.path, 'w') as f2:
                    f2.write('\n'.join(lines))
                # --multiple-errors 0: stop at the first failed obligation (looking for further ones is what exhausts the solver on a
                # function as large as eval_node)
                rr = U.run_verus(u2, timeout=900, extra=['--verify-root', '--verify-function', seg['fn'], '--rlimit', '100'], multiple_errors='0')
                checker_cmds.append(rr['cmd'])
                defin = [d for d in rr['diags'] if d['owner'] == fnname and d['owner_kind'] == 'verify']
                if defin:
                    r['diags'].extend(defin)
                elif rr['frontend_errors'] or rr['timed_out'] or [d for d in rr['undecided'] if d['owner'] == fnname]:
                    still.append(fnname)
                else:
                    unstable.append({'unit': un, 'function': fnname, 'note': 'rlimit in the whole-unit run, verified alone with --rlimit 100'})
            if still:
                undecided(f'unit {un}: resource limit exceeded in {still}')
        forbidden, trusted = scan_forbidden(u)
        if forbidden:
            undecided(f'unit {un}: forbidden construct inside a verified function: {forbidden}')
        trusted_all.extend(trusted)
        rule_log.extend(u.rule_log)
        smt_ms += r['smt_ms'] or 0
        # vacuity guard (ii)
        # any definite failure inside a twin means `false` was not proved for it (Verus reports only the first failures of a
        # function, so the VACUITY-GUARD clause itself may be hidden behind another failed obligation of the same body)
        failing_twins = {d['owner'] for d in r['diags'] if d['owner_kind'] == 'vacuity'}
        # a twin on which the solver exhausted its (small) resource limit did not prove `false` either
        failing_twins |= {d['owner'] for d in r['undecided'] if d['owner_kind'] == 'vacuity'}
        for s in u.segments:
            if s['kind'] == 'vacuity' and s['name'] not in failing_twins:
                vac_missing.append(f'{un}:{s["name"]}')
        # the named obligations of the known findings (spec/known.rs) belong to the cache-hit path of eval_node
        for d in r['diags']:
            if d['owner_kind'] == 'lemma' and d['owner'] in KNOWN_SITES:
                d['lemma'] = d['owner']
                d['owner'], d['owner_kind'] = KNOWN_SITES[d['owner']], 'verify'
        real = [d for d in r['diags'] if d['owner_kind'] != 'vacuity']
        summ = r['summary'] or {}
        n_ver = summ.get('verified', 0)
        n_real_err = len({(d['owner'], d['clause']) for d in real})
        known_here = [d for d in real if match_known(known, pid, d)]
        # obligations that fail because of a recorded finding are listed separately (known_findings_hit), not counted
        obligations += n_ver + len({d['owner'] for d in real if d not in known_here and d['owner'] in cone})
        discharged += n_ver
        if n_ver == 0:
            undecided(f'unit {un}: zero obligations (vacuity guard i)')
        for d in real:
            if d['owner'] is None or d['owner_kind'] not in ('verify',):
                # a failing lemma of the spec layer: proof infrastructure, not repo code
                undecided(f'unit {un}: a lemma of the specification layer no longer verifies: {d["message"]} {d["clause"][:200]}')
            # attribution: a failed obligation of function F counts against every property whose cone
            # contains F (props.py: 'functions' narrows a unit to the listed contracts; absent = all);
            # the [Cxx] tags on clauses are informational only
            if d['owner'] not in cone:
                others.append(d)
                continue
            k = match_known(known, pid, d)
            if k:
                knowns_hit.append((k, d))
            else:
                # a failed obligation of a function that calls a NEW helper (stubbed with an empty contract) cannot be told from a
                # harmless extraction of a helper function: not a verdict
                seg0 = next((s for s in u.segments if s['name'] == d['owner'] and s['kind'] == 'verify'), None)
                text0 = '\n'.join(u.text.split('\n')[seg0['gline0'] - 1:seg0['gline1']]) if seg0 else ''
                if any(re.search(r'\b' + re.escape(a['function']) + r'\s*\(|\b' + re.escape(a['function']) + r'\b\s*[,)]', text0) for a in u.autostubs):
                    stub_blocked.append((un, d))
                else:
                    violations.append((un, d))
        for s in u.segments:
            if s['kind'] in ('verify', 'trusted', 'assume'):
                fr = r['functions'].get(s['fn']) or next((v for k, v in r['functions'].items() if k.endswith('::' + s['fn'])), None)
                fn_rows.append({'unit': un, 'contract': s['name'], 'status': {'verify': 'proved', 'trusted': 'trusted (R-extern)', 'assume': 'assumed here, proved in its own unit'}[s['kind']],
                                'file': s['file'], 'lines': [s['line0'], s['line1']], 'sha256': s['sha256'][:16],
                                'smt_ms': fr['ms'] if fr else None})
        if len(runs) > 1:
            base = {(d['owner'], d['message']) for d in real}
            for rr in runs[1:]:
                other = {(d['owner'], d['message']) for d in rr['diags'] if d['owner_kind'] != 'vacuity'}
                if other != base or rr['undecided'] or rr['frontend_errors']:
                    unstable.append({'unit': un, 'cmd': rr['cmd'], 'differs': sorted(map(str, other ^ base)),
                                     'undecided': [d['owner'] for d in rr['undecided']]})
    if units_undecided and not violations:
        undecided('; '.join(units_undecided))
    if vac_missing:
        undecided(f'vacuous contract(s): `ensures false` twin verified for {vac_missing}')

    # check that every assumed contract is proved in some unit of this cone
    verified_somewhere = set()
    for un, (u, runs, wall) in results.items():
        verified_somewhere.update(u.verified_contracts)
    dangling = []
    degraded = []
    deg_all = {d['contract'] for un, (u, runs, wall) in results.items() for d in u.degraded}
    for un, (u, runs, wall) in results.items():
        degraded += [f'{un}:{d["contract"]} ({d["reason"]})' for d in u.degraded]
        for a in u.assumed_contracts:
            if a not in verified_somewhere and a not in deg_all:
                dangling.append(f'{un}:{a}')
    if dangling:
        undecided(f'assumed contracts not proved in the cone: {dangling}')
    # a function that could not be brought into the verifier's reach (lost anchor / rule no longer applicable) was emitted as an
    # assumed contract: without a definite failure elsewhere the property is UNDECIDED, never an alarm and never a pass
    if degraded and not violations:
        undecided(f'function(s) outside the verifier\'s reach, emitted as assumed: {degraded}')
    autostubs = [f'{un}:{a["function"]} ({a["file"]})' for un, (u, runs, wall) in results.items() for a in u.autostubs]
    if autostubs and not violations:
        undecided(f'the verified code calls function(s) that have no contract (new helpers), stubbed with an empty contract: {autostubs}; '
                  f'obligations that cannot be decided without a contract for them: {sorted({un + "::" + d["owner"] for un, d in stub_blocked})}')

    os.makedirs(EVID, exist_ok=True)
    os.makedirs(REPLAY, exist_ok=True)
    out_lines = []
    for k, d in knowns_hit:
        out_lines.append(f'KNOWN-FINDING: property={pid} {k["what"]} [obligation {d["owner"]}: {d["message"]}]')
    vio_files = []
    for i, (un, d) in enumerate(violations):
        u = results[un][0]
        seg = next(s for s in u.segments if s['name'] == d['owner'] and s['kind'] == 'verify')
        lines = u.text.split('\n')
        rp = os.path.join(REPLAY, f'{pid}-{i}.json')
        with open(rp, 'w') as f:
            json.dump({'property': pid, 'unit': un, 'failed_obligation': {'function': d['owner'], 'kind': d['message'], 'clause': d['clause']},
                       'repo_source': {'file': seg['file'], 'lines': [seg['line0'], seg['line1']], 'sha256': seg['sha256']},
                       'verified_text': '\n'.join(lines[seg['gline0'] - 1:seg['gline1']]),
                       'verus_output': d['rendered'], 'spans': d['spans'],
                       'failing_input': None,
                       'note': 'Verus produces no model; no-failing-input-found. Re-run: ./check --replay ' + rp,
                       'generated_unit': u.path}, f, indent=1)
        vio_files.append(rp)
        out_lines.append(f'VIOLATION property={pid} replay={rp} obligation={un}::{d["owner"]} ({d["message"]}) no-failing-input-found')
    for d in (violations and [v[1] for v in violations] or [])[:3]:
        samples.append({'failed': d['owner'], 'kind': d['message'], 'clause': d['clause'][:300]})
    # obligations written out as samples
    for un, (u, runs, wall) in results.items():
        for c in u.verified_contracts[:400]:
            ct = contracts[c]
            samples.append({'unit': un, 'function': ct.item, 'contract': X.norm_ws(ct.spec)[:400]})
    wall = time.time() - t0
    ev = {
        'property_id': pid, 'tier': tier, 'seed': seed, 'level': 'proof',
        'coverage': {
            'obligations': obligations, 'discharged': discharged,
            'checker_cmd': ' ; '.join(checker_cmds),
            'trusted_base': sorted(set(P.TRUSTED_BASE + prop.get('trusted', []))),
            'back_end': 'Verus %s (Z3)' % (results[prop['units'][0]][1][0].get('verus_version')),
            'solver_time_ms': smt_ms,
            'functions_under_contract': fn_rows,
            'functions_proved': sum(1 for r in fn_rows if r['status'] == 'proved'),
            'cone_functions': sorted(cone),
            'functions_trusted': [r['contract'] for r in fn_rows if r['status'].startswith('trusted')],
            'rewrite_rules_applied': rule_log,
            'unchecked_items_in_units': trusted_all,
            'vacuity_guard': {'twins_checked': sum(1 for un in results for s in results[un][0].segments if s['kind'] == 'vacuity'), 'all_twins_fail': True},
            'failures_attributed_to_other_properties': [{'function': d['owner'], 'clause': d['clause'][:200]} for d in others],
            'known_findings_hit': [k['what'] for k, d in knowns_hit],
            'stability_reruns': unstable if tier == 'thorough' else 'quick tier: single run',
            'samples': samples[:60],
            'explanation': prop['explanation'],
        },
        'assumptions': sorted(set(P.ASSUMPTIONS + prop.get('assumptions', []))),
        'wall_s': round(wall, 2),
        'violations': len(violations),
    }
    if degraded:
        ev['coverage']['functions_degraded_to_assumed'] = degraded
    if autostubs:
        ev['coverage']['functions_stubbed_without_contract'] = autostubs
    with open(os.path.join(EVID, pid + '.json'), 'w') as f:
        json.dump(ev, f, indent=1)
    for l in out_lines:
        print(l)
    if violations:
        sys.exit(1)
    print(f'OK property={pid} tier={tier} obligations={obligations} discharged={discharged} units={",".join(prop["units"])} wall={wall:.1f}s')
    sys.exit(0)


def match_known(known, pid, d):
    for k in known:
        if k.get('property') != pid:
            continue
        if k.get('function') != d['owner']:
            continue
        if k.get('clause_contains') and k['clause_contains'] not in d['clause']:
            continue
        return k
    return None


def replay(path):
    with open(path) as f:
        rp = json.load(f)
    print(json.dumps({k: rp[k] for k in ('property', 'unit', 'failed_obligation', 'repo_source')}, indent=1))
    print(rp['verus_output'])
    contracts = X.load_all_contracts(os.path.join(VERIF, 'contracts'))
    u = U.build(rp['unit'], contracts, 'verify')
    r = U.run_verus(u)
    still = [d for d in r['diags'] if d['owner'] == rp['failed_obligation']['function']]
    if still:
        print('REPRODUCED: obligation still fails on the current tree:')
        for d in still:
            print(d['rendered'])
        sys.exit(1)
    print('not reproduced: the obligation verifies on the current tree')
    sys.exit(0)


if __name__ == '__main__':
    main()
