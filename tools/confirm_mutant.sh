#!/bin/sh
# usage: confirm_mutant.sh <name> <dir-with-_mutant>  : confirm a seeded change in a fresh scratch worktree
#  1. patch applies, crate builds, the whole existing suite passes with the patch
#  2. the demonstration fails with the patch and passes without it
# then store it under /verif/seeded/<name>/ (patch.diff, demo, notes, meta.json is written by the caller)
set -u
NAME=$1; SRC=$2
WT=/tmp/wt/confirm_$NAME
rm -rf $WT; git -C /repo worktree prune
git -C /repo worktree add -q --detach $WT HEAD || exit 2
cp -r /repo/target $WT/target
cd $WT || exit 2
git apply $SRC/_mutant/patch.diff || { echo "PATCH DOES NOT APPLY"; exit 2; }
echo "== suite with patch"
CARGO_NET_OFFLINE=true cargo test --offline 2>&1 | grep -E "^test result|FAILED|error(\[|:)" | head -5
mkdir -p tests; cp $SRC/_mutant/mutant_demo.rs tests/mutant_demo.rs
echo "== demo with patch (must FAIL)"
CARGO_NET_OFFLINE=true cargo test --offline --test mutant_demo 2>&1 | grep -E "^test result|FAILED|error(\[|:)" | head -5
git checkout -q -- src
echo "== demo without patch (must PASS)"
CARGO_NET_OFFLINE=true cargo test --offline --test mutant_demo 2>&1 | grep -E "^test result|FAILED|error(\[|:)" | head -5
cd /; git -C /repo worktree remove --force $WT
mkdir -p /verif/seeded/$NAME
cp $SRC/_mutant/patch.diff $SRC/_mutant/mutant_demo.rs $SRC/_mutant/notes.md /verif/seeded/$NAME/ 2>/dev/null
echo "== stored in /verif/seeded/$NAME"
