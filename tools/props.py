"""Property -> verification cone (units, functions), trusted base, explanation."""

UNIT_TIMEOUT = {}

# Assumed, never proved (DESIGN.md 3.3); listed in every evidence file.
TRUSTED_BASE = [
    'Verus 0.2026.09.13 + Z3 (soundness of the verifier and its encoding of Rust)',
    'vstd specifications of Vec, slices, Option, Result, String/str, Box, HashMap',
    'extraction: tools/extract.py copies function bodies verbatim; rewrite rules of tools/rules.py (each application is logged under rewrite_rules_applied)',
    'R-derive: derived Clone / PartialEq are structural (external_body stand-ins in spec/syntax.rs)',
    'R-fmt-val: format!(lit, args) is the concatenation of the Display renderings of args (ensures generated from the literal in the repo source); Display tables of UnaryOp/BinaryOp/HybridOp/Atomic as in spec/syntax.rs',
    'R-fmt-msg: error-message text is irrelevant (format! in Err(..) replaced by an opaque String)',
]
ASSUMPTIONS = [
    'machine arithmetic is NOT treated as mathematical: overflow obligations are proved under the stated size preconditions (fewer than 2^32 tokens per formula)',
    'stack depth / allocation failure are outside the model',
]

PROPS = {}
HOOK_COMMITS = []
NOTES = ('Exit codes of ./check: 0 = all obligations of the property\'s cone discharged; 1 = VIOLATION (a named obligation failed); '
         '2 = undecided (lost anchor, unsupported construct, rlimit, vacuous contract) -- never an alarm. '
         'Defects of the pinned tree repaired by fix: commits are listed in known_findings.json.')
_NOT_YET = 'verification unit not built yet in this round (see DESIGN.md section 8 for the build order)'
NOT_APPLICABLE = {
    'C16': 'byte-level behaviour of zip / std::fs / Bdd::write_as_string: straight-line glue over foreign crates through io::Write trait machinery that Verus cannot type; a contract would have to assume a model of zip archives that *is* the property (DESIGN.md section 6)',
}
for _p in ['C%02d' % i for i in range(1, 21)]:
    NOT_APPLICABLE.setdefault(_p, _NOT_YET)

PROPS['C05'] = {
    'units': ['tree'],
    'level_text': ('Proof, for all token sequences of any length, that the parser accepts exactly the documented grammar and builds '
                   'the unique tree it dictates (parser half of C05: token level). The tokenizer half is not yet under contract.'),
    'level_note': ('Trusted: Verus/Z3, vstd, mechanical extraction + logged rewrite rules, derive(Clone/PartialEq), Display tables, '
                   'the four index_of_first* helpers (Iterator::position). Formulae with fewer than 2^32 tokens.'),
    'explanation': ('Each level of the recursive-descent parser (parse_1_hybrid .. parse_9_terminal_and_parentheses, '
                    'parse_hctl_tokens) is proved, for every token sequence, to return Ok(tree) exactly when the grammar '
                    'function sp_* of spec/grammar.rs (written from the property statement) derives the sequence, with '
                    'view(tree) equal to the unique derivation; Err otherwise. Recursion is proved terminating.'),
    'trusted': ['index_of_first, index_of_first_hybrid, index_of_first_binary_temp, index_of_first_unary (Iterator::position with a closure): assumed to return the first index whose token satisfies the predicate'],
}
