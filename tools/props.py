"""Property -> verification cone (units, functions), trusted base, explanation."""

UNIT_TIMEOUT = {}

# Assumed, never proved (DESIGN.md 3.3); listed in every evidence file.
TRUSTED_BASE = [
    'Verus 0.2026.09.13 + Z3 (soundness of the verifier and its encoding of Rust)',
    'vstd specifications of Vec, slices, Option, Result, String/str, Box, HashMap',
    'extraction: tools/extract.py copies function bodies verbatim; rewrite rules of tools/rules.py (each application is logged under rewrite_rules_applied)',
    'R-derive: derived Clone / PartialEq are structural (external_body stand-ins in spec/syntax.rs)',
    'R-fmt-val: format!(lit, args) is the concatenation of the Display renderings of args (ensures generated from the literal in the repo source); Display tables of UnaryOp/BinaryOp/HybridOp/Atomic as in spec/syntax.rs',
    'R-fmt-msg: error-message text is irrelevant (format! in Err(..) replaced by an opaque String)',
]
ASSUMPTIONS = [
    'machine arithmetic is NOT treated as mathematical: overflow obligations are proved under the stated size preconditions (fewer than 2^32 tokens per formula)',
    'stack depth / allocation failure are outside the model',
]

PROPS = {}
HOOK_COMMITS = []
NOTES = ('Exit codes of ./check: 0 = all obligations of the property\'s cone discharged; 1 = VIOLATION (a named obligation failed); '
         '2 = undecided (lost anchor, unsupported construct, rlimit, vacuous contract) -- never an alarm. '
         'Defects of the pinned tree repaired by fix: commits are listed in known_findings.json.')
_NOT_YET = 'verification unit not built yet in this round (see DESIGN.md section 8 for the build order)'
NOT_APPLICABLE = {
    'C16': 'byte-level behaviour of zip / std::fs / Bdd::write_as_string: straight-line glue over foreign crates through io::Write trait machinery that Verus cannot type; a contract would have to assume a model of zip archives that *is* the property (DESIGN.md section 6)',
}
for _p in ['C%02d' % i for i in range(1, 21)]:
    NOT_APPLICABLE.setdefault(_p, _NOT_YET)

PROPS['C05'] = {
    'units': ['tree'],
    'level_text': ('Proof, for all token sequences of any length, that the parser accepts exactly the documented grammar and builds '
                   'the unique tree it dictates (parser half of C05: token level). The tokenizer half is not yet under contract.'),
    'level_note': ('Trusted: Verus/Z3, vstd, mechanical extraction + logged rewrite rules, derive(Clone/PartialEq), Display tables, '
                   'the four index_of_first* helpers (Iterator::position). Formulae with fewer than 2^32 tokens.'),
    'explanation': ('Each level of the recursive-descent parser (parse_1_hybrid .. parse_9_terminal_and_parentheses, '
                    'parse_hctl_tokens) is proved, for every token sequence, to return Ok(tree) exactly when the grammar '
                    'function sp_* of spec/grammar.rs (written from the property statement) derives the sequence, with '
                    'view(tree) equal to the unique derivation; Err otherwise. Recursion is proved terminating.'),
    'trusted': ['index_of_first, index_of_first_hybrid, index_of_first_binary_temp, index_of_first_unary (Iterator::position with a closure): assumed to return the first index whose token satisfies the predicate'],
}

_OPS_TRUSTED = [
    'prelude/bn_model.rs: assumed contracts of biodivine-lib-param-bn 0.7.2 / biodivine-lib-bdd 0.6.3 (set algebra of GraphColoredVertices, '
    'pre / var_pre as the asynchronous pre-image NOT intersected with the unit set, Bdd::{and,iff,exists}, mk_var_by_name with the '
    '"{var}_extra_{i}" naming convention, graph.variables() yields 0..n)',
    'R-callback: the progress observer only receives shared references and cannot influence results (Rust type system), it is removed before verification',
    'R-for: `for v in graph.variables()[.rev()]` is replaced by its language-defined desugaring (loop + next())',
    'termination of the `while old != new` fixed-point loops is not proved (partial correctness)',
]

PROPS['C13'] = {
    'units': ['ops'],
    'functions': {'ops': ['eval_ew', 'eval_aw', 'eval_au', 'eval_eu_saturated', 'eval_neg', 'eval_ax', 'eval_ex', 'eval_eg']},
    'level_text': ('Proof that eval_ew / eval_aw return exactly E[phi U psi] or EG phi, resp. not E[not psi U (not phi and not psi)] '
                   '(the equations of the statement, over least/greatest fixed points of an arbitrary coloured transition system), for every '
                   'graph, every argument set and every number of loop iterations; psi-states satisfy both (lemma).'),
    'level_note': 'Trusted: Verus/Z3, the assumed contracts of the BDD/graph library (prelude/bn_model.rs), extraction rules. Requires the self-loop set to make the graph total (true for the steady-state set). The dispatch from the syntax tree to these operators is covered by C01.',
    'explanation': ('eval_ew and eval_aw (and their callees eval_au, eval_eu_saturated, eval_eg, eval_ex, eval_ax, eval_neg, each against its own '
                    'fixed-point specification) are verified against ew_spec / aw_spec of spec/ctl.rs; lemma_ew_duality proves '
                    'not A[not psi U (not phi and not psi)] == E[phi U psi] or EG phi on every transition system.'),
    'trusted': _OPS_TRUSTED,
}
