"""Property -> verification cone (units, functions), trusted base, explanation."""

UNIT_TIMEOUT = {}

# Assumed, never proved (DESIGN.md 3.3); listed in every evidence file.
TRUSTED_BASE = [
    'Verus 0.2026.09.13 + Z3 (soundness of the verifier and its encoding of Rust)',
    'vstd specifications of Vec, slices, Option, Result, String/str, Box, HashMap',
    'extraction: tools/extract.py copies function bodies verbatim; rewrite rules of tools/rules.py (each application is logged under rewrite_rules_applied)',
    'R-derive: derived Clone / PartialEq are structural (external_body stand-ins in spec/syntax.rs)',
    'R-fmt-val: format!(lit, args) is the concatenation of the Display renderings of args (ensures generated from the literal in the repo source); the Display implementations of UnaryOp/BinaryOp/HybridOp/Atomic/HctlTreeNode are proved to write the tables of spec/syntax.rs (unit tree, display_*; R-display: Formatter modelled as a text sink, write! = append; Debug of a field-less enum = variant identifier, table generated from the enum)',
    'R-fmt-msg: error-message text is irrelevant (format! in Err(..) replaced by an opaque String)',
]
ASSUMPTIONS = [
    'machine arithmetic is NOT treated as mathematical: overflow obligations are proved under the stated size preconditions (fewer than 2^32 tokens per formula)',
    'stack depth / allocation failure are outside the model',
]

PROPS = {}
HOOK_COMMITS = []
NOTES = ('Exit codes of ./check: 0 = all obligations of the property\'s cone discharged; 1 = VIOLATION (a named obligation failed); '
         '2 = undecided (lost anchor, unsupported construct, rlimit, vacuous contract) -- never an alarm. '
         'Defects of the pinned tree repaired by fix: commits are listed in known_findings.json.')
_NOT_YET = 'verification unit not built yet in this round (see DESIGN.md section 8 for the build order)'
NOT_APPLICABLE = {
    'C16': 'byte-level behaviour of zip / std::fs / Bdd::write_as_string: straight-line glue over foreign crates through io::Write trait machinery that Verus cannot type; a contract would have to assume a model of zip archives that *is* the property (DESIGN.md section 6)',
}
for _p in ['C%02d' % i for i in range(1, 21)]:
    NOT_APPLICABLE.setdefault(_p, _NOT_YET)

PROPS['C05'] = {
    'units': ['tree', 'lex', 'front'],
    'functions': {'canon': [], 'front': ['parse_hctl_formula', 'parse_extended_formula']},
    'level_text': ('Proof, for all character sequences and all token sequences of any length, that (i) the tokenizer returns exactly the token '
                   'sequence of the declarative token language of spec/lex.rs (maximal runs of name characters classified afterwards, whitespace '
                   'anywhere, long and short operator spellings, wild-cards / domains only in extended mode) or an error, and (ii) the parser accepts '
                   'exactly the documented grammar and builds the unique tree it dictates (lemma_sp_view: the tree depends only on the abstract tokens; '
                   'lemma_accepted_unique: a text has at most one preprocessed tree).'),
    'level_note': ('Trusted: Verus/Z3, vstd, mechanical extraction + logged rewrite rules, derive(Clone/PartialEq), Display tables, '
                   'R-position (Iterator::position as its defining loop). Formulae with fewer than 2^32 tokens.'),
    'explanation': ('Each level of the recursive-descent parser (parse_1_hybrid .. parse_9_terminal_and_parentheses, '
                    'parse_hctl_tokens) is proved, for every token sequence, to return Ok(tree) exactly when the grammar '
                    'function sp_* of spec/grammar.rs (written from the property statement) derives the sequence, with '
                    'view(tree) equal to the unique derivation; Err otherwise. Recursion is proved terminating.'),
    'trusted': ['R-position: `X.iter().position(F)` is verified as the explicit first-match loop that defines Iterator::position (index_of_first* are proved, no longer assumed)',
                'prelude/lex_model.rs: Peekable<Chars> modelled as the ghost sequence of remaining characters (next / peek), char::is_alphanumeric = uninterpreted table with its ASCII part spelled out, R-strcat / R-collect / R-peekable / R-letchain / R-refpat rewrites'],
}

_OPS_TRUSTED = [
    'prelude/bn_model.rs: assumed contracts of biodivine-lib-param-bn 0.7.2 / biodivine-lib-bdd 0.6.3 (set algebra of GraphColoredVertices, '
    'pre / var_pre as the asynchronous pre-image NOT intersected with the unit set, Bdd::{and,iff,exists}, mk_var_by_name with the '
    '"{var}_extra_{i}" naming convention, graph.variables() yields 0..n)',
    'R-callback: the progress observer only receives shared references and cannot influence results (Rust type system), it is removed before verification',
    'R-for: `for v in graph.variables()[.rev()]` is replaced by its language-defined desugaring (loop + next())',
    'termination of the `while old != new` fixed-point loops is not proved (partial correctness)',
]

PROPS['C13'] = {
    # eval_node is part of the cone: it decides which operator function a weak-until node is evaluated by and with which arguments
    # entry points in the cone (lesson of C12m): EW depends on the self-loop set they hand to eval_node
    'units': ['ops', 'eval', 'api', 'front', 'lex', 'tree', 'mark', 'canon'],
    'functions': {'canon': [], 'mark': [], 'front': [], 'lex': [], 'tree': [], 'api': None,
                  'ops': ['eval_ew', 'eval_aw', 'eval_au', 'eval_eu_saturated', 'eval_neg', 'eval_ax', 'eval_ex', 'eval_eg'], 'eval': ['eval_node']},
    'level_text': ('Proof that eval_ew / eval_aw return exactly E[phi U psi] or EG phi, resp. not E[not psi U (not phi and not psi)] '
                   '(the equations of the statement, over least/greatest fixed points of an arbitrary coloured transition system), for every '
                   'graph, every argument set and every number of loop iterations; psi-states satisfy both (lemma).'),
    'level_note': 'Trusted: Verus/Z3, the assumed contracts of the BDD/graph library (prelude/bn_model.rs), extraction rules. Requires the self-loop set to make the graph total (true for the steady-state set). The dispatch from the syntax tree to these operators is covered by C01.',
    'explanation': ('eval_ew and eval_aw (and their callees eval_au, eval_eu_saturated, eval_eg, eval_ex, eval_ax, eval_neg, each against its own '
                    'fixed-point specification) are verified against ew_spec / aw_spec of spec/ctl.rs; lemma_ew_duality proves '
                    'not A[not psi U (not phi and not psi)] == E[phi U psi] or EG phi on every transition system.'),
    'trusted': _OPS_TRUSTED,
}

_EVAL_TRUSTED = _OPS_TRUSTED + [
    'compute_attractor_states (driver of the foreign ITGR + Xie-Beerel algorithms of biodivine-algo-bdd-scc): ASSUMED to return, inside the given universe, exactly the states satisfying !{x}: AG EF {x}',
    'get_canonical_and_renaming is PROVED (unit canon) to return the result of the scanner specification `scan` (spec/canon.rs); the two facts about canonical forms of wild-card propositions (K1a / K1b) are proved from it; TRUSTED: decimal rendering of i32 by format! is an uninterpreted function dec_digits_int, names of network variables contain none of ( ) { } % (axiom_prop_names); termination of the exec recursion of canonize_subform is not proved',
    'prelude/std_model.rs: String keys obey the hash-map key model, a String / BTreeMap is determined by its contents, a &str key denotes the String with the same characters, HashMap::get_mut; R-mapindex (map[&k] = *map.get(&k).unwrap()), R-refiter (for x in &m = for x in m.iter()), R-tupleclone, R-tostr (Display of HctlTreeNode prints formula_str)',
    'cache soundness (C04) is proved modulo (a) the ASSUMED semantic soundness of canonical keys axiom_key_sound_core (= the only-if direction of C09; its wild-card clause is proved, lemma_key_wild), (b) the contract of mark_duplicates (keys of formulae with at most one variable name, counters >= 1) PROVED in unit mark over a model of BinaryHeap as a bag whose pop returns some element (prelude/std_model.rs) and with the Ord / PartialEq impls of NodeWithDomains as trusted stand-ins (only the order of traversal depends on them), batches with fewer than 2^31 nodes, (c) wild-card counters that cover the occurrences still to be evaluated (budget_pre), and (d) the two KNOWN FINDINGS D5 / D8 (known_findings.json): the assertions hit_universe_ok / hit_slot_ok in the cache-hit path are false for the current repository code',
    'names: HCTL variable names have a slot in the graph (byte length - 1 < number of extra variable sets), nested quantifiers use distinct slots (preprocessing names them x, xx, ... by depth), propositions are network variables, domain sets do not depend on the auxiliary variables, context sets lie inside the unit set',
]
_EVAL_ASSUME = ['the graph handed to the evaluator carries its BooleanNetwork (as_network() is Some) and its unit set satisfies the regulation constraints and does not constrain state or auxiliary variables (graphs built by get_extended_symbolic_graph)']

_EXT_API = ['collect_unique_wild_cards_recursive', 'collect_unique_wild_cards', 'validate_and_divide_wild_cards', 'extend_context_with_wild_cards',
            'parse_and_validate_extended', '_model_check_multiple_extended_formulae_dirty', 'model_check_multiple_extended_formulae_dirty',
            '_model_check_extended_formula_dirty', 'model_check_extended_formula_dirty',
            '_model_check_multiple_extended_formulae', 'model_check_multiple_extended_formulae', '_model_check_extended_formula', 'model_check_extended_formula']
PROPS['C01'] = {
    'units': ['ops', 'eval', 'api', 'front', 'lex', 'tree', 'mark', 'canon'],
    'level_text': ('Proof that the recursive evaluator eval_node returns, for every graph, every well-formed tree over all operators and every '
                   'context, a set that agrees with the HCTL semantics `sem` (spec/sem.rs, written from the statement: self-loops on states '
                   'without successors, least/greatest fixed points, bind/jump/exists/forall) inside the graph\'s unit set; every operator '
                   'function is proved equal to its fixed-point specification for all argument sets and all numbers of iterations.'),
    'level_note': 'Trusted: Verus/Z3, the assumed model of the BDD/graph library, extraction rules, attractor algorithm, facts about canonical keys (axiom_key_sound, axiom_canon_*), known findings D5 / D8. The plain string / tree entry points (dirty and sanitising, single and batch) are proved end to end: Ok(v) => v agrees with the semantics of the preprocessed formula inside the unit set and does not leave it; Err => the text is rejected for one of the documented reasons. Extended (wild-card) entry points are not yet under contract.',
    'explanation': ('eval_node (algorithm.rs) is verified arm by arm: each arm combines the proved postcondition of the operator (unit ops) with a proved '
                    '"arm lemma" (spec/sem_arms.rs) showing that the operator preserves the invariant ok(g, result, sem) = agreement inside unit(g) '
                    'and containment in the base unit set; recursion on the tree is proved terminating.'),
    'trusted': _EVAL_TRUSTED, 'assumptions': _EVAL_ASSUME,
}
PROPS['C02'] = {
    'units': ['ops', 'eval', 'api', 'front', 'lex', 'tree', 'mark', 'canon'],
    'functions': {'canon': [], 'api': _EXT_API, 'front': ['parse_and_minimize_extended_formula', 'parse_extended_formula'], 'lex': [], 'tree': [], 'mark': [], 'ops': None,
                  'eval': ['eval_node', 'eval_hybrid_quantifier', 'restrict_stg_unit_bdd']},
    'level_text': ('Proof that wild-card propositions evaluate to the supplied set and that bind/exists/forall with a domain have the documented '
                   'meaning (bind additionally requires the current state in d; exists/forall range over d\'s states; empty domain: exists false, '
                   'forall true), colour by colour, for every graph and every (colour-dependent, empty, partial) domain set; the three README '
                   'equivalences are proved as lemmas over the semantics for every body formula.'),
    'level_note': ('Same trusted base as C01. Domain sets must not depend on auxiliary variables (documented requirement of the library). At the API level the extended entry points '
                   'model_check_(multiple_)extended_formula(e)_dirty are proved end to end (validation of labels against the context, cache extension, evaluation) for batches in which '
                   'every wild-card PROPOSITION label occurs at most once (domains unrestricted): for that class the occurrence counters are proved sufficient; the general case needs a '
                   'dynamic counter invariant that was not built (DESIGN.md section 0).'),
    'explanation': ('The Some(domain) arm of eval_node is verified against bind_dom_sem / exists_dom_sem / forall_dom_sem with the proved contracts of '
                    'compute_valid_domain_for_var (projection of the domain onto the variable\'s slot) and restrict_stg_unit_bdd (unit set intersected, '
                    'same transitions, no panic because the restricted unit is non-empty); arm_bind_dom / arm_exists_dom / arm_forall_dom / arm_dom_empty '
                    'and lemma_readme_{bind,exists,forall} are proved in spec/.'),
    'trusted': _EVAL_TRUSTED, 'assumptions': _EVAL_ASSUME,
}
PROPS['C03'] = {
    'units': ['ops', 'eval', 'api', 'front', 'lex', 'tree', 'mark', 'canon'],
    'level_text': ('Proof that every set returned by eval_node is a subset of the base graph\'s unit set (second half of the invariant `ok`), '
                   'for all graphs with constrained parameters and all formulae, and that every atomic evaluation (propositions, variables, constants) '
                   'is intersected with the unit set. Independence of closed results from the auxiliary variables is not yet a proved lemma.'),
    'level_note': 'Same trusted base as C01; note that the model of the graph library deliberately does NOT intersect pre-images with the unit set. Stage 1 (sharing off); entry points not under contract.',
    'explanation': 'ok(g, r, s) includes r.subset_of(base_unit()); each arm lemma proves it is preserved (pre-images, fixed points and projections of subsets of a state- and slot-independent unit set stay inside it).',
    'trusted': _EVAL_TRUSTED, 'assumptions': _EVAL_ASSUME,
}
PROPS['C12'] = {
    # the entry points are part of the cone (seeded change C12m): the shortcut returns the set the ENTRY POINT hands to eval_node as `steady_states`, so
    # "alone, under other operators and in batches" depends on every entry point computing it for the whole batch
    'units': ['ops', 'eval', 'api', 'front', 'lex', 'tree', 'mark', 'canon'],
    'functions': {'canon': [], 'mark': [], 'front': [], 'lex': [], 'tree': [], 'ops': [], 'api': None,
                  'eval': ['eval_node', 'is_attractor_pattern', 'is_fixed_point_pattern', 'compute_steady_states']},
    'level_text': ('Proof that the two recognisers accept exactly the patterns (!{x}: AG EF {x}) and (!{x}: AX {x}) (an iff, so near misses are rejected), '
                   'that the steady-state shortcut equals the semantics of !{x}: AX {x} inside every (restricted) unit set and for every variable name, '
                   'and that both early returns of eval_node satisfy its general postcondition; every entry point (single / batch, plain / extended) is proved to hand eval_node the '
                   'steady-state set of the graph (loop invariant gv(&self_loop_states) == steady_set()). The attractor half relies on the ASSUMED contract of the foreign attractor algorithm.'),
    'level_note': 'Same trusted base as C01; attractor algorithm assumed. Stage 1 (sharing off).',
    'explanation': 'is_attractor_pattern / is_fixed_point_pattern: r <==> view == pattern; arm_fixed_point: steady_set agrees with bind(AX(var)) ; compute_steady_states: FixedPoints::symbolic(graph, unit) == steady_set.',
    'trusted': _EVAL_TRUSTED, 'assumptions': _EVAL_ASSUME,
}
PROPS['C18'] = {
    'units': ['ops', 'eval', 'api', 'front', 'lex', 'tree', 'mark', 'canon'],
    # every operator function is in the cone: the two variants agree only if the loop-insensitive operators (EF AG EU AW ..) are evaluated correctly in both
    'functions': {'canon': [], 'mark': [], 'ops': None, 'eval': ['eval_node', 'compute_steady_states', 'is_fixed_point_pattern', 'is_attractor_pattern'],
                  'api': ['model_check_formula_unsafe_ex', 'parse_and_validate', '_model_check_formula_dirty', 'model_check_formula_dirty', '_model_check_multiple_formulae_dirty'],
                  'front': [], 'lex': [], 'tree': []},
    'level_text': ('Proof that model_check_formula_unsafe_ex satisfies the very specification proved for the safe entry point model_check_formula_dirty '
                   '(Ok(v) => v agrees with the semantics of the preprocessed formula, computed with self-loops on steady states, inside the unit set; Err exactly '
                   'when the text is rejected) under the precondition of the statement: the network has no steady state, or the accepted formula contains none of '
                   'EX, AX, AF, EG, AU, EW. Underneath: eval_node is proved correct for an ARBITRARY self-loop set on loop-insensitive formulae, and '
                   'lemma_loop_insensitive shows that the semantics of such formulae does not depend on the self-loop set.'),
    'level_note': 'Same trusted base as C01. Known findings D5 / D8 apply to the shared evaluator.',
    'explanation': 'contracts/api.ctr: model_check_formula_unsafe_ex; lemma_loop_insensitive (spec/sem_laws.rs); parametric contract of eval_node; eval_ex / eval_ax / eval_eg / eval_au specifications carry the self-loop set explicitly.',
    'trusted': _EVAL_TRUSTED, 'assumptions': _EVAL_ASSUME,
}
UNIT_TIMEOUT['eval'] = 1200  # the unchanged tree needs about 60 s; seeded change C10x needs between 10 and 20 minutes before the failed obligation is reported

PROPS['C11'] = {
    # eval_node is part of the cone: it decides which operator function a temporal node is evaluated by and with which arguments
    # the entry points are in the cone as well (lesson of C12m): "EX / AX treat steady states as self-loops" depends on the set they hand to eval_node
    'units': ['ops', 'eval', 'api', 'front', 'lex', 'tree', 'mark', 'canon'],
    'functions': {'canon': [], 'mark': [], 'front': [], 'lex': [], 'tree': [], 'api': None,
                  'ops': ['eval_neg', 'eval_ex', 'eval_ax', 'eval_eg', 'eval_af', 'eval_eu', 'eval_ef', 'eval_eu_saturated', 'eval_ef_saturated', 'eval_ag', 'eval_au', 'eval_ew', 'eval_aw'], 'eval': ['eval_node']},
    'level_text': ('Proof, on every graph and for arbitrary argument sets, that each temporal operator function returns exactly its fixed-point '
                   'specification (EU/EF least, EG greatest, AU least fixed point; AX/AF/AG by duality; EX with explicit self-loops), plus proved '
                   'lemmas for the laws named in the statement: unfolding of EF / EG / EU / AU, monotonicity of EX / EU / EG / AU / AX in every '
                   'argument, AG = largest forward-closed subset, AF = A[true U .], weak-until duality, steady states behave as self-loops for EX/AX.'),
    'level_note': ('Trusted: Verus/Z3 and the assumed contracts of pre / var_pre / set algebra of the graph library. "Coincides with reach_backward / '
                   'trap_forward as computed by the library" is NOT checked against the library code (foreign algorithms); what is proved is the '
                   'mathematical characterisation (least set containing S closed under predecessors inside the unit set; largest forward-closed subset).'),
    'explanation': 'unit ops: eval_ex, eval_ax, eval_eu_saturated (saturation loop, both loops with invariants), eval_ef_saturated, the classical public algorithms eval_eu / eval_ef (same least fixed points), eval_eg, eval_af, eval_ag, eval_au, eval_ew, eval_aw against spec/ctl.rs; law lemmas in spec/ctl_laws.rs.',
    'trusted': _OPS_TRUSTED,
}
PROPS['C06'] = {
    'units': ['tree', 'lex', 'front', 'rt'],
    'level_text': ('Proof of both halves. Consistency: every node built by the public constructors (mk_hybrid, mk_unary, mk_binary, mk_atom, ...) from '
                   'consistent children, every tree returned by the token parser and every tree returned by the renamer satisfies wf: stored text == canonical fully '
                   'parenthesised rendering of its structure (constants True/False, format literals read from the source) and stored height == 1 + max child height (atoms 0). '
                   'Round trip (unit rt, lemmas over the contracts of the real tokenizer / parser / entry points): for every PRINTABLE tree t (identifiers are non-empty runs of '
                   'name characters that the tokenizer reads back as the same kind of token; wild-cards / domains only in the extended language; no domain on a jump) the '
                   'tokenizer specification reads render(t) as the single token tk(t) (lemma_lex_printed, induction over t for every continuation text) and the grammar reads '
                   'tk(t) back as t (lemma_parse_tk); every tree the tokenizer + parser can return is printable (lemma_lex_pr, lemma_parse_pr) and so is every preprocessed tree '
                   '(lemma_rename_pr). Conclusions over the proved postconditions parse_ok / preprocess_ok / wf: lemma_c06_constructed, lemma_c06_parsed, lemma_c06_preprocessed: '
                   'parsing the stored (= printed) text returns Ok(m) with the same structure, the same stored text and the same stored height.'),
    'level_note': ('The five Display implementations (operators, atoms, tree node) are proved to write the rendering tables used by `render` (contracts display_*). Trusted: Verus/Z3, format! = concatenation of Display renderings (R-fmt-val), derive(Clone), '
                   'derive(PartialEq) = structural equality (the theorems conclude equal view, text and height). Heights below 2^32, texts shorter than 2^32 characters. '
                   'A proposition name whose first character is Unicode white space AND alphanumeric is excluded (no such character exists; the Unicode tables are not axiomatised beyond ASCII).'),
    'explanation': ('wf(node) is a postcondition of every constructor and (through `agrees`) of every parse_k; render/s_height are written from the statement in spec/syntax.rs; '
                    'spec/roundtrip.rs (parser half), spec/roundtrip_lex.rs (tokenizer half), spec/roundtrip_closed.rs (closure + theorems over the contracts) in unit rt.'),
    'trusted': PROPS['C05']['trusted'] + ['R-fmt-val: `{x}` in format! and x.to_string() denote the text Display::fmt writes (std); R-display: Formatter = text sink, write!(f, ..) appends and returns Ok; derive(Debug) of a field-less enum prints the variant identifier'],
}

PROPS['C07'] = {
    'units': ['front', 'tree', 'lex'],
    'functions': {'canon': [], 'front': ['validate_and_rename_recursive', 'validate_props_and_rename_vars', 'parse_and_minimize_hctl_formula', 'parse_and_minimize_extended_formula'],
                  'tree': ['mk_hybrid', 'mk_unary', 'mk_binary', 'mk_variable', 'mk_atom'], 'lex': []},
    'level_text': ('Proof that validate_and_rename_recursive / validate_props_and_rename_vars return Ok exactly when the tree is well scoped (every '
                   'variable occurrence, jump targets included, inside a quantifier for it; no re-quantification inside its own scope; every proposition '
                   'a network variable) and Err otherwise, that the result is internally consistent and equals rename_spec (quantifier at nesting depth '
                   'd named x^d), with proved lemmas: the result is alpha-equivalent to the input (lemma_rename_alpha), preprocessing a preprocessed tree '
                   'is accepted and changes nothing (lemma_rename_idempotent). The string entry points parse_and_minimize_* are proved to compose '
                   'tokenizer, parser and renamer (Ok/Err exactly when each stage accepts).'),
    'level_note': 'Trusted: Verus/Z3, vstd HashMap/String specs + String key model and &str-borrow axioms (prelude/std_model.rs), SymbolicContext::find_network_variable as an uninterpreted table prop_index, constructors proved in unit tree. Formulae shorter than 2^32 characters.',
    'explanation': 'spec/rename.rs: well_scoped, rename_spec, alpha_eq written from the statement; mview = view of the exec HashMap<String,String> as a map on character sequences.',
    'trusted': ['prelude/std_model.rs axioms (String key model, string extensionality, &str borrow)', 'HashMap::clone specified up to extensional equality of the view'],
}

PROPS['C04'] = {
    'units': ['ops', 'eval', 'api', 'front', 'lex', 'tree', 'mark', 'canon'],
    'functions': {'canon': None, 'mark': None, 'ops': ['substitute_hctl_var', 'create_comparator_two_vars', 'create_equalizer', 'project_out_hctl_var'], 'eval': ['eval_node'],
                  'api': ['_model_check_multiple_trees_dirty', 'model_check_multiple_trees_dirty', '_model_check_tree_dirty', 'model_check_tree_dirty',
                          '_model_check_multiple_formulae_dirty', 'model_check_multiple_formulae_dirty', '_model_check_multiple_trees', 'model_check_multiple_trees',
                          '_model_check_multiple_formulae', 'model_check_multiple_formulae', 'parse_and_validate'],
                  'front': ['parse_and_minimize_hctl_formula'], 'lex': [], 'tree': []},
    'level_text': ('Proof of a representation invariant of the EvalContext (ctx_inv): every cached value is either a wild-card set or, for a ghost witness '
                   'tree with the same canonical key, agrees with the semantics of that tree inside the unit set it was computed on; every hit (with the '
                   'renaming of its at most one variable), every store and every counter update re-establishes it, so the result of eval_node agrees '
                   'with the semantics whatever the evaluation history is. Two obligations of the hit path FAIL on the repository code and are '
                   'recorded as known findings D5 / D8 with failing inputs (sharing across differently restricted scopes is unsound).'),
    'level_note': 'Assumed: axiom_key_sound (equal canonical keys => semantics equal up to renaming of the one variable; the soundness direction of C09), wild-card budget. Entry points (batches) are not yet under contract: batch transparency follows from this invariant but is not a discharged obligation yet.',
    'explanation': 'contracts/eval.ctr: hit path (witness extraction, loops over the two renaming maps with ghost iterators, lemma_hit_rename / lemma_hit_closed), store paths (lemma_store_entry), counters (ctx_inv clause 1), wild-card budget lemmas.',
    'trusted': _EVAL_TRUSTED, 'assumptions': _EVAL_ASSUME,
}

PROPS['C14'] = {
    'units': ['api', 'front', 'lex', 'tree', 'eval', 'ops', 'mark', 'canon'],
    'level_text': ('Partial, at proof level: (i) panic-freedom: every function under contract (tokenizer, parser, renamer, all operators, eval_node, '
                   'the tree-based entry points, check_hctl_var_support) is verified with Verus\' built-in obligations for unwrap / unreachable! / indexing / '
                   'integer overflow, under the stated preconditions; (ii) "error exactly when": parse_and_minimize_* return Err exactly when the text is '
                   'outside the token language, the grammar does not derive it, a variable is free or re-quantified in its scope, or a proposition is not '
                   'a network variable (preprocess_ok); check_hctl_var_support returns false exactly when the quantifier nesting depth exceeds the number '
                   'of spare variable sets; a text is never both accepted and rejected (lemma_accepted_not_rejected), so "Err exactly when rejected" is exact. The string-based model_check_* entry points (plain and extended), '
                   'the wild-card / domain validation and the sanitising unwrap are under contract as well.'),
    'level_note': ('Assumed: wild-card counters cover the evaluations (budget_pre) -- defect D9 (a panic caused by inconsistent counters) was found by analysing '
                   'exactly this assumption and repaired, but no registered check decides it; known findings D5 / D8 (a value depending on auxiliary variables makes '
                   'the sanitising unwrap panic). Formulae shorter than 2^32 characters; stack depth is outside the model.'),
    'explanation': 'See units lex / tree / front / api; spec/names.rs (binders, qdepth, cardinality of the name set).',
    'trusted': _EVAL_TRUSTED, 'assumptions': _EVAL_ASSUME,
}
UNIT_TIMEOUT['api'] = 600

PROPS['C15'] = {
    'units': ['api', 'eval', 'ops', 'front', 'lex', 'tree', 'mark', 'canon', 'tool'],
    'functions': {'canon': [], 'mark': [], 'tool': ['get_extended_symbolic_graph'], 'api': ['sanitize_colored_vertices', 'sanitize_colors', 'sanitize_vertices', '_model_check_multiple_trees', 'model_check_multiple_trees', '_model_check_tree', 'model_check_tree',
                          '_model_check_multiple_formulae', 'model_check_multiple_formulae', '_model_check_formula', 'model_check_formula',
                          '_model_check_multiple_trees_dirty', '_model_check_multiple_formulae_dirty', 'parse_and_validate'],
                  'eval': ['eval_node'], 'ops': [], 'front': [], 'lex': [], 'tree': []},
    'level_text': ('Proof that sanitize_colored_vertices returns the same set of points in the encoding without auxiliary variables and that its unwrap() cannot '
                   'fail for the results of closed plain formulae: lemma_sem_indep (induction on the tree, 12 operator lemmas) shows that the semantics of a '
                   'formula depends only on the auxiliary copies of its free variables, hence not at all for a closed one; the sanitising entry points are '
                   'proved to return exactly the raw result. All contracts are stated for an arbitrary number dim_k() of spare variable sets, so the result '
                   'is the same set of (state, colour) pairs for every k >= nesting depth. get_extended_symbolic_graph (unit tool, day 4) is proved to give EVERY network variable exactly k spare variables '
                   'and the constant-true unit BDD (against assumed contracts of the library constructors). The two other public sanitisers (sanitize_colors, sanitize_vertices) are proved '
                   'to return the same colour / state set over the canonical context without a possible panic (the BDD of a projection is a cylinder over the auxiliary variables).'),
    'level_note': 'Assumed: the contract of SymbolicContext::transfer_from / as_canonical_context (succeeds iff the BDD does not depend on the auxiliary variables; a canonical BDD is modelled by its cylinder). R-mapcollect rewrites `results.iter().map(|x| sanitize(..)).collect()` into the explicit loop. Plain formulae only; known findings D5 / D8 apply (a wrongly shared result may depend on auxiliary variables).',
    'explanation': 'spec/indep.rs; contracts/api.ctr (sanitize_colored_vertices, sanitize_colors, sanitize_vertices and the non-dirty entry points); contracts/tool.ctr (get_extended_symbolic_graph).',
    'trusted': _EVAL_TRUSTED, 'assumptions': _EVAL_ASSUME,
}

PROPS['C08'] = {
    # invariance of the preprocessed tree; that the evaluator is a function of the tree is C01 / C04: the cone is not closed under calls into it
    'closure': False,
    'units': ['api', 'front', 'lex', 'tree', 'eval', 'ops', 'mark', 'canon'],
    'functions': {'canon': [], 'mark': [], 'eval': [], 'ops': [], 'api': ['parse_and_validate', '_model_check_multiple_formulae_dirty', 'model_check_multiple_formulae_dirty', '_model_check_formula_dirty', 'model_check_formula_dirty',
                          '_model_check_multiple_formulae', 'model_check_multiple_formulae', '_model_check_formula', 'model_check_formula'],
                  'front': None, 'lex': None, 'tree': None},
    'level_text': ('Proof, over the declarative specifications that the tokenizer, the parser and the renamer are proved to implement for every input, that each '
                   'rewrite named in the statement leaves the PREPROCESSED TREE unchanged: whitespace before any token and inside hybrid headers '
                   '(lemma_ws_front / lemma_ws_hdr), long versus short operator spellings (lemma_long_spellings), spellings of the constants '
                   '(lemma_constant_spellings*), parentheses around a formula (lemma_redundant_parens: a group is parsed as its content), consistent renaming '
                   'of state variables in any order of names (lemma_alpha_same_result: alpha-equivalent trees are renamed to the SAME tree, quantifier at depth d '
                   'named x^d). The string entry points are proved to hand exactly the preprocessed tree to the evaluator and to return a set that agrees with '
                   'its semantics inside the unit set, so equal trees give equal results.'),
    'level_note': ('The rewrites are lemmas about one rewrite step at the place where it applies (front of the remaining text / a whole group); closing them under '
                   'arbitrary contexts is by the recursive structure of lex_group / sp_* and is not a separate machine-checked theorem. That the evaluator is a '
                   'function of the tree is C01 / C04 (its cone is not repeated here). Trusted: as C05 / C07.'),
    'explanation': 'spec/rewrites.rs (unit api); specifications spec/lex.rs, spec/grammar.rs, spec/rename.rs implemented by units lex, tree, front.',
    'trusted': PROPS['C05']['trusted'] + PROPS['C07']['trusted'],
}
PROPS['C10'] = {
    'units': ['api', 'eval', 'ops', 'front', 'lex', 'tree', 'mark', 'canon'],
    'functions': {'canon': [], 'mark': None, 'front': ['parse_and_minimize_extended_formula', 'parse_extended_formula', 'validate_and_rename_recursive', 'validate_props_and_rename_vars'], 'lex': None, 'tree': None, 'api': _EXT_API, 'eval': ['eval_node', 'eval_hybrid_quantifier', 'restrict_stg_unit_bdd'], 'ops': None},
    'level_text': ('Proof (lemma_replaced, induction over the tree with the twelve operator lemmas) that replacing any number of sub-formulae by wild-card propositions '
                   'whose context sets agree with the semantics of the replaced sub-formulae inside the unit set leaves the semantics of every surrounding formula '
                   'unchanged inside the unit set, for every graph; proof on the code that eval_node serves a wild-card terminal by the supplied set (cache invariant '
                   'ctx_inv: wild-card entries hold their context set, counters cover the remaining occurrences) and evaluates the rest according to the semantics; '
                   'proof that the extended tokenizer / parser produce, on a formula without wild-cards and domains, exactly the tree of the plain ones (lemma_lex_ext).'),
    'level_note': ('The extended dirty entry points (model_check_(multiple_)extended_formula(e)_dirty, parse_and_validate_extended, validate_and_divide_wild_cards, '
                   'extend_context_with_wild_cards) are proved end to end for batches in which every wild-card proposition label occurs at most once (each replaced sub-formula gets its own '
                   'label): Ok(v) => v agrees inside the unit set with the semantics in which each wild-card denotes its supplied set; Err exactly when the text is rejected or a label has no set. '
                   'For repeated labels the occurrence counters must cover the evaluations that really happen, which depends on the cache state (an occurrence below a shared sub-formula '
                   'is never evaluated); eval_node is verified under that budget as a precondition (budget_pre) and the entry points are not claimed for that case. The supplied sets are assumed '
                   'to be sets of the graph that do not depend on auxiliary variables (documented requirement). The sanitising extended variants are proved too (lemma_sem_indep_ext: the result of a closed extended formula does not depend on auxiliary variables). Same trusted base as C01; known findings D5 / D8.'),
    'explanation': 'spec/subst.rs, spec/plain.rs (lemma_lex_ext, lemma_hdr_ext) in unit api; wild-card arm and hit path of eval_node in unit eval.',
    'trusted': _EVAL_TRUSTED, 'assumptions': _EVAL_ASSUME,
}
PROPS['C20'] = {
    'units': ['api', 'eval', 'ops', 'front', 'lex', 'tree', 'mark', 'canon'],
    'functions': {'canon': [], 'mark': [], 'front': [], 'lex': [], 'tree': [], 'api': ['_model_check_multiple_trees_dirty', '_model_check_multiple_formulae_dirty', 'parse_and_validate', 'sanitize_colored_vertices'], 'eval': None, 'ops': None},
    'level_text': ('Proof (lemma_colour_local / lemma_c20, induction over the tree; least and greatest fixed points by transporting closed / dense sets between the two '
                   'systems) that the slice of the HCTL semantics at a colour c is determined by the transitions, the self-loops and the validity of colour c alone: '
                   'any two transition systems that agree at c -- a parametrised network and its instantiation by c, or the same network with other colours added or '
                   'removed -- have the same states for c, for every formula. Proof on the code (C01) that the model checker returns the semantics inside the unit set; '
                   'every operator and low-level operation is specified point-wise with the colour coordinate untouched, so a code change that quantifies or substitutes '
                   'a parameter variable fails the operator\'s own postcondition.'),
    'level_note': ('The correspondence between the BDD encoding of the instantiated network (no parameter variables) and the points of colour c of the parametrised one '
                   'is part of the trusted model of the graph library. Same trusted base as C01; attractor algorithm assumed; known findings D5 / D8.'),
    'explanation': 'spec/colour.rs (semg = semantics with the transition system as a parameter; lemma_semg_base: semg(base) == sem) in unit api; units ops and eval as for C01.',
    'trusted': _EVAL_TRUSTED, 'assumptions': _EVAL_ASSUME,
}

PROPS['C19'] = {
    'units': ['conv'],
    'level_text': ('Proof on the real code of the converter that (i) explode_function(regs, prefix) creates a zero-arity parameter named prefix + b1..bn for EVERY valuation '
                   'string b1..bn of its arguments and returns a function that evaluates, under every valuation of the variables and every interpretation of the parameters, to '
                   'the constant selected by the values of the arguments (Shannon expansion, induction over the argument list, recursion proved terminating), and (ii) '
                   'flatten_fn_update returns a function over the original variables and constant inputs only (is_flat) that evaluates exactly like the original one with every '
                   'uninterpreted f(args) read as the constant named f_<values of the flattened args> (fflat), constants, variables, negations and binary operators being reproduced; '
                   'the parameter table only grows and existing parameters keep their names. Lemmas: the naming scheme name_ + bits is uniquely decodable (lemma_decode); every choice of the '
                   'constants is an interpretation of the original uninterpreted functions (lemma_constants_are_instantiations) and every interpretation is matched by a choice of the constants '
                   '(lemma_instantiations_are_constants) -- "the function ranges over exactly the instantiations".'),
    'level_note': ('flatten_update_function is proved too: a variable without regulators is left untouched, an explicit update function is replaced by its flattening, an implicit one by the '
                   'Shannon expansion over all its regulators with constants named <variable>_<values>, the result mentions only regulators of the variable, no other target is touched. '
                   'Not under contract: main (the loop over all variables, reading the model, printing) and the aeon parser / bnet printer of the library. Trusted: the model of FnUpdate / BooleanNetwork in prelude/conv_model.rs '
                   '(constructors of the library, smart constructors specified through evaluation, parameter table as ghost functions). Known finding D11: add_parameter fails when a generated '
                   'name is the name of a network VARIABLE and the converter unwraps the error (panic); D12 (nested uninterpreted functions made the converter panic) was found by this '
                   'contract and repaired.'),
    'explanation': 'contracts/conv.ctr; spec/conv.rs (exploded, fflat, covered, params_valid and their monotonicity lemmas); rules R-unwrapelse, R-hoist, R-fmt-val.',
    'trusted': ['prelude/conv_model.rs: FnUpdate declared with the constructors of biodivine-lib-param-bn 0.7.2; negation / and / implies / mk_var specified by evaluation; BooleanNetwork::{find_parameter, add_parameter, get_parameter, regulators, get_update_function, get_variable_name, set_update_function} '
                'specified over ghost tables of parameters, regulators and update functions (set_update_function: precondition "the function mentions only regulators",  (add_parameter: precondition "the name is not a variable name", returns Ok exactly when the name is not yet a parameter)',
                'R-unwrapelse (Option::unwrap_or_else with a closure -> match), R-hoist (operands of one expression bound by let in evaluation order), R-mapcollect (into_iter().map(F).collect() -> loop)'],
    'assumptions': ['every parameter id occurring in an update function is a parameter of the network (params_valid) and every variable of an update function is a regulator of its target (both hold for networks accepted by the aeon parser)'],
}

PROPS['C09'] = {
    'units': ['canon', 'mark'],
    'functions': {'canon': None, 'mark': None},
    'level_text': ('PARTIAL. Proof that canonize_subform / get_canonical / get_canonical_and_renaming return exactly the result of the scanner specification `scan` '
                   '(single pass: quantifiers bind the next name var<n>, an occurrence is replaced by the name bound to its variable, a free variable gets the next name at its first '
                   'occurrence, everything else is copied; a closing parenthesis ends a level), for every text and every initial renaming, without integer overflow for texts shorter '
                   'than 2^31 characters; lemmas over that specification: text without parentheses and braces is its own canonical form with an empty renaming (hence a wild-card '
                   'proposition is canonical and variable-free, lemma_canon_wild) and nothing but a wild-card proposition has a canonical form of that shape (lemma_canon_not_wild); '
                   'the renaming is injective (lemma_canon_map_injective: every variable gets its own name var<i>); canonising a canonical form changes nothing, for EVERY text '
                   '(lemma_canon_idempotent: the scanner run over its own output stays in lock-step with the first run, the second renaming being the identity on the names var<i>). '
                   'Proof that every key reported by mark_duplicates_canonized_* is such a wild-card key or the canonical text of a sub-formula with at most one variable, with counter >= 1.'),
    'level_note': ('NOT proved: "same canonical form exactly when equal up to renaming" (the soundness direction is the ASSUMED axiom_key_sound of C04; it needs injectivity of the fully '
                   'parenthesised rendering and a tree-level alpha-equivalence argument) and the occurrence-count clause '
                   '("counter n => at least n+1 occurrences with identical domains"). Termination of the exec recursion of canonize_subform is not proved (Verus cannot name the entry value of a '
                   'by-value mut parameter in a loop invariant). Trusted: Peekable<Chars> model, String / HashMap model, dec_digits_int, R-orguard / R-byref / R-noprint / R-peekable / R-fmt-val.'),
    'explanation': 'contracts/canon.ctr, spec/canon.rs (scan, lemma_scan_fuel, lemma_scan_shrinks, lemma_scan_ren), spec/canon_idem.rs (mirror, lemma_idem), spec/evalctx.rs (lemma_canon_wild, lemma_canon_not_wild), unit mark.',
    'trusted': ['prelude/lex_model.rs (Peekable<Chars> as the ghost sequence of remaining characters), prelude/std_model.rs (String keys, &str borrow)',
                'R-orguard (or-pattern with guard -> equality tests && guard), R-byref (for x in it.by_ref() -> while let Some(x) = it.next()), R-noprint (println! removed from the never-taken branch)',
                'format!("{}", i32) modelled by the uninterpreted dec_digits_int, assumed injective and free of the character } (axiom_dec_inj, axiom_dec_no_brace)'],
}
PROPS['C17'] = {
    # relative to the library: the cone is NOT closed under calls (the tool calls the same evaluator as the library)
    'closure': False,
    'units': ['tool', 'api', 'eval', 'ops', 'front', 'lex', 'tree', 'mark', 'canon'],
    'functions': {'tool': None, 'api': [], 'eval': [], 'ops': [], 'front': [], 'lex': [], 'tree': [], 'mark': [], 'canon': []},
    'level_text': ('PARTIAL (evaluation half of the tool, plain mode = no context archive). Proof on analyse_formulae / analyse_formula (src/analysis.rs) that, for every network, every list of '
                   'formula texts and every print option: the formulae are parsed, checked and renamed in file order; the graph is built with as many spare variable sets as the deepest formula needs; '
                   'formula number i is evaluated on its own tree; and at every output call site the set handed over IS the set the library returns for that line (result_exact: the points of the unit set '
                   'that satisfy the accepted tree of the text, by C01 / C03 / C04 / C14 the result of model_check_formula_dirty): summarize_results / print_results_full receive (formula i, its result), '
                   'and build_result_archive receives a map with exactly one entry per formula, entry "formula-i" holding the result of line i of the formula list it archives (archive_ok). '
                   'These statements are the PRECONDITIONS of the (unverified) output functions, so every call site has to prove them. A formula that is not in the token language, not derivable from '
                   'the grammar or badly scoped makes the function return Err (reported as a message by main) and no index, unwrap or arithmetic operation of the function can panic. '
                   'load_formulae (src/load_inputs.rs) is proved to return exactly the lines of the file that, after removing surrounding white space, are neither empty nor start with #, '
                   'trimmed, in file order (formulae_of(lines_of(content)); lines / trim / starts_with(char) modelled from the std documentation).'),
    'level_note': ('NOT decided: the process level (clap argument parsing, reading the model file, main(), the text written to stdout, the bytes of the zip archive, '
                   'reading a context archive back) and the extended mode (context archive given: the contract requires context_archive_path is None; that branch is type-checked only). '
                   'Preconditions: the network has at least one variable; formula texts shorter than 2^32 characters whose trees are small (as for the library entry points) and need at most 65535 variable sets '
                   '(`max_num_hctl_vars as u16`). ASSUMED: SymbolicContext::new succeeds on the loaded network; the plain symbolic context and the graph name the same network variables. Failures of the shared evaluator / front end are attributed to C01.. C14, not to C17 '
                   '(the tool calls the same functions as the library, so it stays equal to the library). get_extended_symbolic_graph (src/mc_utils.rs) is VERIFIED since day 4: every network variable is mapped to '
                   'exactly k spare variables and the unit BDD is the constant true -- against assumed contracts of BooleanNetwork::variables, SymbolicContext::with_extra_state_variables and '
                   'SymbolicAsyncGraph::with_custom_context (prelude/tool_model.rs: a graph built that way IS the graph of the analysis with k spare variable sets).'),
    'explanation': 'contracts/tool.ctr, spec/tool.rs (result_exact, archive_ok, results_inv, lemma_results_insert), prelude/tool_model.rs; unit tool assumes the contracts of eval_node, from_multiple_trees, compute_steady_states, the parsers and the renamer, which are proved in units eval, mark, front.',
    'trusted': _EVAL_TRUSTED + ['prelude/tool_model.rs: SystemTime::now, BooleanNetwork::to_string, SymbolicContext::new (assumed Ok), BooleanNetwork::variables (0..n-1), SymbolicContext::with_extra_state_variables (m[v] spare variables for v), axiom_fresh_ready (with_custom_context over a uniform context and the true unit = the graph of the analysis), axiom_vid_injective / axiom_varid_key_model (VariableId = newtype of usize with derived Hash / Eq), Result::map_err (R-maperr), derive(Clone, Copy) of PrintOptions',
                'output functions print_if_allowed, summarize_results, print_results_full, build_result_archive, load_bdd_bundle are NOT verified (stdout, zip, file system); their preconditions carry the claim',
                'R-printargs (the text argument of print_if_allowed is opaque), R-enumloop (for (i, x) in v.iter().enumerate() as the index loop), R-callback (local progress observer removed), R-fmt-val',
                'axiom_dec_digits_inj: the decimal rendering of usize by format! is injective (distinct indices give distinct archive keys)',
                'prelude/tool_model.rs: std::fs::read_to_string returns the file content, str::lines (split at \\n or \\r\\n, final terminator optional), str::trim (Unicode White_Space on both ends), str::starts_with(char) (R-startswith), Lines::next'],
    'assumptions': _EVAL_ASSUME,
}
