#!/bin/sh
# run every registered check on the current tree (rewrites all evidence files); used before committing evidence
cd /verif
for p in $(python3 -c "import json; print(' '.join(c['property_id'] for c in json.load(open('MANIFEST.json'))['checks']))"); do
  ./check $p > /tmp/t/runall_$p.out 2>&1; echo "$p exit=$? $(tail -1 /tmp/t/runall_$p.out | cut -c1-120)"
done
