#!/usr/bin/env python3
"""developer helper: build one unit and run Verus on it.  usage: vu.py <unit> [--vac] [--raw]"""
import sys, os, json
sys.path.insert(0, os.path.dirname(os.path.abspath(__file__)))
import extract as X, unit as U
name = sys.argv[1]
mode = 'vacuity' if '--vac' in sys.argv else 'verify'
cs = X.load_all_contracts(os.path.join(U.VERIF, 'contracts'))
try:
    u = U.build(name, cs, mode)
except X.ExtractError as e:
    print('EXTRACT ERROR:', e); sys.exit(2)
print('DEGRADED:', u.degraded) if u.degraded else None
print('generated', u.path, 'verify:', len(u.verified_contracts), 'assume:', len(u.assumed_contracts), 'trusted:', len(u.trusted_contracts))
if '--noverus' in sys.argv: sys.exit(0)
extra = []
for a in sys.argv[2:]:
    if a.startswith('--fn='):
        extra += ['--verify-root', '--verify-function', a[5:]]
u, r = U.build_and_run(name, cs, mode, extra=extra or None)
print('AUTOSTUBS:', u.autostubs) if u.autostubs else None
print('summary', r['summary'], 'wall', r['wall_s'], 'smt_ms', r['smt_ms'])
for k in ('frontend_errors', 'undecided', 'diags'):
    for d in r[k]:
        if '--raw' in sys.argv or k == 'frontend_errors':
            print(f'[{k}]', d['rendered'])
        else:
            print(f'[{k}] {d["message"]} owner={d["owner"]}({d["owner_kind"]}) clause={d["clause"][:200]!r}')
if r['summary'] is None:
    print(r['raw_stderr_tail'])
slow = sorted(((v['ms'], k) for k, v in r['functions'].items()), reverse=True)[:5]
print('slowest', slow)
