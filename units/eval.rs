// UNIT eval: the recursive evaluator eval_node against the HCTL semantics (C01, C02, C03, C12, C18, C20)
#![feature(allocator_api)]
#![allow(unused_imports, dead_code, unused_variables, unused_mut, non_snake_case, unused_parens)]
use vstd::prelude::*;
use vstd::string::StringSliceAdditionalSpecFns;
use vstd::utf8::*;
use vstd::std_specs::hash::*;
use std::collections::{BTreeMap, HashMap};
//@include prelude/bn_stubs.rs

verus! {

//@include prelude/bn_model.rs
//@include prelude/std_model.rs
//@include spec/syntax.rs
//@include spec/ctl.rs
//@include spec/lowlevel.rs
//@include spec/sem.rs
//@include spec/sem_arms.rs
//@fmtfns

fn main() {}
} // verus!
