// UNIT eval: the recursive evaluator eval_node against the HCTL semantics (C01, C02, C03, C12, C18, C20)
#![feature(allocator_api)]
#![feature(pattern)]
#![allow(unused_imports, dead_code, unused_variables, unused_mut, non_snake_case, unused_parens)]
use vstd::prelude::*;
use vstd::string::StringSliceAdditionalSpecFns;
use vstd::utf8::*;
use vstd::std_specs::hash::*;
use vstd::std_specs::btree::key_obeys_cmp_spec;
use std::collections::{BTreeMap, HashMap, HashSet};
//@include prelude/bn_stubs.rs

verus! {

//@include prelude/bn_model.rs
//@include prelude/std_model.rs
//@include prelude/weak_std.rs
//@include spec/syntax.rs
//@include spec/ctl.rs
//@include spec/lowlevel.rs
//@include spec/sem.rs
//@include spec/sem_arms.rs
//@include spec/evalctx_types.rs
//@include spec/strmap.rs
//@include spec/size.rs
//@include spec/canon.rs
//@include spec/evalctx.rs
//@include spec/known.rs
//@include spec/sem_laws.rs
broadcast use iset_laws::lemma_iset_intersect_comm, iset_laws::lemma_iset_union_comm;
//@fmtfns

// ---------------- operators (proved in unit ops; assumed here with the same contract text)
//@assume eval_neg
//@assume eval_imp
//@assume eval_equiv
//@assume eval_xor
//@assume eval_ex
//@assume eval_ax
//@assume eval_eg
//@assume eval_af
//@assume eval_eu_saturated
//@assume eval_ef_saturated
//@assume eval_ag
//@assume eval_au
//@assume eval_ew
//@assume eval_aw
//@assume eval_prop
//@assume eval_hctl_var
//@assume eval_bind
//@assume eval_exists
//@assume eval_jump
//@assume substitute_hctl_var
//@assume compute_valid_domain_for_var
// ---------------- algorithm.rs
//@assume get_canonical_and_renaming
//@trusted compute_attractor_states
//@verify compute_steady_states
//@verify is_attractor_pattern
//@verify is_fixed_point_pattern
//@verify eval_hybrid_quantifier
//@verify restrict_stg_unit_bdd
//@verify eval_node

fn main() {}
} // verus!
