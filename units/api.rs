// UNIT api: the model-checking entry points (C01, C03, C04, C14, C15 at the level of the public API)
#![feature(allocator_api)]
#![feature(pattern)]
#![allow(unused_imports, dead_code, unused_variables, unused_mut, non_snake_case, unused_parens)]
use vstd::prelude::*;
use vstd::string::StringSliceAdditionalSpecFns;
use vstd::utf8::*;
use vstd::std_specs::hash::*;
use vstd::std_specs::btree::key_obeys_cmp_spec;
use vstd::set_lib::*;
use vstd::std_specs::char::is_white_space;
use std::cmp;
use std::collections::{BTreeMap, HashMap, HashSet};
//@include prelude/bn_stubs.rs

verus! {

//@include prelude/bn_model.rs
//@include prelude/std_model.rs
//@include prelude/weak_std.rs
//@include spec/syntax.rs
//@include spec/grammar.rs
//@include spec/lex.rs
//@include spec/lex_lemmas.rs
//@include spec/ctl.rs
//@include spec/lowlevel.rs
//@include spec/sem.rs
//@include spec/sem_arms.rs
//@include spec/evalctx_types.rs
//@include spec/strmap.rs
//@include spec/rename.rs
//@include spec/canon.rs
//@include spec/evalctx.rs
//@include spec/size.rs
//@include spec/api.rs
//@include spec/names.rs
//@include spec/plain.rs
//@include spec/grammar_view.rs
//@include spec/indep.rs
//@include spec/subst.rs
//@include spec/rewrites.rs
//@include spec/colour.rs
//@include spec/sem_laws.rs
//@include spec/labs.rs
//@include spec/ext.rs
//@include spec/indep_ext.rs
//@fmtfns

//@assume eval_node
//@assume compute_steady_states
//@assume from_multiple_trees
//@verify _model_check_multiple_trees_dirty
//@verify model_check_multiple_trees_dirty
//@verify _model_check_tree_dirty
//@verify model_check_tree_dirty

//@verify collect_unique_hctl_vars_recursive
//@verify collect_unique_hctl_vars
//@verify check_hctl_var_support
//@assume parse_and_minimize_hctl_formula
// further functions of the front end that entry points could call (kept in reach so that a changed call is checked against their contracts)
//@assume parse_hctl_formula
//@assume parse_extended_formula
//@assume validate_props_and_rename_vars
//@verify parse_and_validate
//@verify _model_check_multiple_formulae_dirty
//@verify model_check_multiple_formulae_dirty
//@verify _model_check_formula_dirty
//@verify model_check_formula_dirty

//@verify sanitize_colored_vertices
//@verify sanitize_colors
//@verify sanitize_vertices
//@verify _model_check_multiple_trees
//@verify model_check_multiple_trees
//@verify _model_check_tree
//@verify model_check_tree
//@verify _model_check_multiple_formulae
//@verify model_check_multiple_formulae
//@verify _model_check_formula
//@verify model_check_formula
//@assume from_single_tree
//@verify model_check_formula_unsafe_ex

//@verify collect_unique_wild_cards_recursive
//@verify collect_unique_wild_cards
//@verify validate_and_divide_wild_cards
//@verify extend_context_with_wild_cards
//@assume parse_and_minimize_extended_formula
//@verify parse_and_validate_extended
//@verify _model_check_multiple_extended_formulae_dirty
//@verify model_check_multiple_extended_formulae_dirty
//@verify _model_check_extended_formula_dirty
//@verify model_check_extended_formula_dirty
//@verify _model_check_multiple_extended_formulae
//@verify model_check_multiple_extended_formulae
//@verify _model_check_extended_formula
//@verify model_check_extended_formula

fn main() {}
} // verus!
