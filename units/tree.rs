// UNIT tree: tree constructors + recursive-descent parser (C05 parser half, C06 consistency)
#![allow(unused_imports, dead_code, unused_variables, unused_mut, non_snake_case)]
use vstd::prelude::*;
use std::cmp;

verus! {

//@include spec/syntax.rs
//@include prelude/str_model.rs
//@include spec/syntax_from.rs
//@include spec/grammar.rs
//@include spec/display.rs
//@fmtfns

// ---------------- hctl_tree.rs / operator_enums.rs
//@verify mk_hybrid
//@verify mk_unary
//@verify mk_binary
//@verify mk_constant
//@verify mk_variable
//@verify mk_proposition
//@verify mk_wild_card
//@verify mk_atom
//@verify atomic_from_bool
//@verify display_unary
//@verify display_binary
//@verify display_hybrid
//@verify display_atomic
//@verify display_node

// ---------------- parser.rs
//@verify is_hybrid
//@verify is_binary_temporal
//@verify is_unary
//@verify index_of_first
//@verify index_of_first_hybrid
//@verify index_of_first_binary_temp
//@verify index_of_first_unary
//@verify parse_hctl_tokens
//@verify parse_1_hybrid
//@verify parse_2_iff
//@verify parse_3_imp
//@verify parse_4_or
//@verify parse_5_xor
//@verify parse_6_and
//@verify parse_7_binary_temp
//@verify parse_8_unary
//@verify parse_9_terminal_and_parentheses
//@verify from_tokens

fn main() {}
} // verus!
