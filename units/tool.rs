// UNIT tool: the command-line analysis src/analysis.rs (C17, evaluation half, plain mode)
#![feature(allocator_api)]
#![feature(pattern)]
#![allow(unused_imports, dead_code, unused_variables, unused_mut, non_snake_case, unused_parens)]
use vstd::prelude::*;
use vstd::string::StringSliceAdditionalSpecFns;
use vstd::utf8::*;
use vstd::std_specs::hash::*;
use vstd::std_specs::btree::key_obeys_cmp_spec;
use vstd::set_lib::*;
use vstd::std_specs::char::is_white_space;
use std::cmp;
use std::collections::{BTreeMap, HashMap, HashSet};
use std::time::SystemTime;
//@include prelude/bn_stubs.rs
//@include prelude/tool_stubs.rs

verus! {

//@include prelude/bn_model.rs
//@include prelude/std_model.rs
//@include prelude/weak_std.rs
//@include spec/syntax.rs
//@include spec/grammar.rs
//@include spec/lex.rs
//@include spec/lex_lemmas.rs
//@include spec/ctl.rs
//@include spec/lowlevel.rs
//@include spec/sem.rs
//@include spec/sem_arms.rs
//@include spec/evalctx_types.rs
//@include spec/strmap.rs
//@include spec/rename.rs
//@include spec/canon.rs
//@include spec/evalctx.rs
//@include spec/size.rs
//@include spec/api.rs
//@include spec/names.rs
//@include spec/plain.rs
//@include spec/grammar_view.rs
//@include spec/indep.rs
//@include spec/subst.rs
//@include spec/rewrites.rs
//@include spec/colour.rs
//@include spec/sem_laws.rs
//@include spec/labs.rs
//@include spec/ext.rs
//@include spec/indep_ext.rs
//@type src/result_print.rs PrintOptions
//@include prelude/tool_model.rs
//@include spec/tool.rs
//@fmtfns

//@assume eval_node
//@assume compute_steady_states
//@assume from_multiple_trees
//@assume collect_unique_hctl_vars
//@assume parse_hctl_formula
//@assume parse_extended_formula
//@assume validate_props_and_rename_vars
//@assume validate_and_divide_wild_cards
//@assume extend_context_with_wild_cards
//@trusted print_if_allowed
//@trusted summarize_results
//@trusted print_results_full
//@trusted build_result_archive
//@trusted load_bdd_bundle
//@verify get_extended_symbolic_graph
//@verify load_formulae
//@verify analyse_formulae
//@verify analyse_formula

fn main() {}
} // verus!
