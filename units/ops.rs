// UNIT ops: temporal / boolean / hybrid operators and the low-level BDD manipulation
// (C01 operator level, C03, C11, C13)
#![allow(unused_imports, dead_code, unused_variables, unused_mut, non_snake_case, unused_parens)]
use vstd::prelude::*;
use vstd::string::StringSliceAdditionalSpecFns;
//@include prelude/bn_stubs.rs

verus! {

//@include prelude/bn_model.rs
//@include spec/ctl.rs
//@include spec/lowlevel.rs
//@include spec/ctl_laws.rs
broadcast use iset_laws::lemma_iset_intersect_comm, iset_laws::lemma_iset_union_comm;
//@fmtfns

// ---------------- hctl_operators_eval.rs
//@verify eval_neg
//@verify eval_imp
//@verify eval_equiv
//@verify eval_xor
//@verify eval_ex
//@verify eval_ax
//@verify eval_eg
//@verify eval_af
//@verify eval_eu
//@verify eval_ef
//@verify eval_eu_saturated
//@verify eval_ef_saturated
//@verify eval_ag
//@verify eval_au
//@verify eval_ew
//@verify eval_aw

// ---------------- low_level_operations.rs + hybrid operators
//@verify create_equalizer
//@verify create_comparator_var_state
//@verify create_comparator_two_vars
//@verify project_out_hctl_var
//@verify project_out_bn_vars
//@verify substitute_hctl_var
//@verify compute_valid_domain_for_var
//@verify eval_prop
//@verify eval_hctl_var
//@verify eval_bind
//@verify eval_exists
//@verify eval_jump

fn main() {}
} // verus!
