// UNIT canon: the canoniser of sub-formula texts (src/evaluation/canonization.rs) -- C09
#![feature(allocator_api)]
#![feature(pattern)]
#![allow(unused_imports, dead_code, unused_variables, unused_mut, non_snake_case, unused_parens)]
use vstd::prelude::*;
use vstd::string::StringSliceAdditionalSpecFns;
use vstd::utf8::*;
use vstd::std_specs::hash::*;
use vstd::std_specs::btree::key_obeys_cmp_spec;
use std::collections::{BTreeMap, HashMap, HashSet};
use std::iter::Peekable;
use std::str::Chars;

verus! {
pub type VarRenameMap = HashMap<String, String>;
pub uninterp spec fn alnum(c: char) -> bool;
// integers that format! can render in decimal (R-fmt-val, pseudo-type `int`)
pub trait DecFmt { spec fn dec_view(&self) -> int; }
impl DecFmt for i32 { open spec fn dec_view(&self) -> int { *self as int } }
impl DecFmt for i64 { open spec fn dec_view(&self) -> int { *self as int } }
impl DecFmt for u32 { open spec fn dec_view(&self) -> int { *self as int } }
impl DecFmt for u64 { open spec fn dec_view(&self) -> int { *self as int } }
impl DecFmt for usize { open spec fn dec_view(&self) -> int { *self as int } }
//@include prelude/std_model.rs
//@include prelude/weak_std.rs
//@include prelude/lex_model.rs
//@include spec/strmap.rs
//@include spec/canon.rs
//@include spec/canon_idem.rs
//@fmtfns

//@verify canonize_subform
//@verify get_canonical
//@verify get_canonical_and_renaming

fn main() {}
} // verus!
