// UNIT front: string entry points of the front end and the variable renamer (C05 composition, C07, C14)
#![feature(allocator_api)]
#![feature(pattern)]
#![allow(unused_imports, dead_code, unused_variables, unused_mut, non_snake_case, unused_parens)]
use vstd::prelude::*;
use vstd::string::StringSliceAdditionalSpecFns;
use vstd::utf8::*;
use vstd::std_specs::hash::*;
use vstd::std_specs::btree::key_obeys_cmp_spec;
use vstd::std_specs::char::is_white_space;
use std::collections::{BTreeMap, HashMap, HashSet};
use std::cmp;
use std::iter::Peekable;
use std::str::Chars;
pub struct SymbolicContext { _p: u8 }
#[derive(Clone, Copy)]
pub struct VariableId { _p: usize }
impl SymbolicContext { pub fn find_network_variable(&self, _name: &str) -> Option<VariableId> { unimplemented!() } }
// further API surface with an empty contract (a changed function may start to call it)
pub struct BddVariableSet { _p: u8 }
#[derive(Clone, Copy)]
pub struct BddVariable { _p: u16 }
impl SymbolicContext { pub fn bdd_variable_set(&self) -> &BddVariableSet { unimplemented!() } }
impl BddVariableSet { pub fn var_by_name(&self, _name: &str) -> Option<BddVariable> { unimplemented!() } }

verus! {

#[verifier::external_type_specification] #[verifier::external_body] pub struct ExSymbolicContext(SymbolicContext);
#[verifier::external_type_specification] #[verifier::external_body] pub struct ExVariableId(VariableId);
#[verifier::external_type_specification] #[verifier::external_body] pub struct ExBddVariableSet(BddVariableSet);
#[verifier::external_type_specification] #[verifier::external_body] pub struct ExBddVariable(BddVariable);
pub assume_specification[ SymbolicContext::bdd_variable_set ](c: &SymbolicContext) -> (r: &BddVariableSet);
pub assume_specification[ BddVariableSet::var_by_name ](s: &BddVariableSet, name: &str) -> (r: Option<BddVariable>);
pub uninterp spec fn prop_index(name: Seq<char>) -> Option<int>;
pub assume_specification[ SymbolicContext::find_network_variable ](c: &SymbolicContext, name: &str) -> (r: Option<VariableId>)
    ensures r is Some <==> prop_index(name@) is Some;
//@include prelude/std_model.rs
//@include prelude/weak_std.rs
//@include spec/syntax.rs
//@include prelude/str_model.rs
//@include spec/grammar.rs
//@include spec/lex.rs
//@include spec/strmap.rs
//@include spec/rename.rs
//@fmtfns

//@assume mk_hybrid
//@assume mk_unary
//@assume mk_binary
//@assume mk_variable
//@verify validate_and_rename_recursive
//@verify validate_props_and_rename_vars
//@assume try_tokenize_formula
//@assume try_tokenize_extended_formula
//@assume parse_hctl_tokens
//@verify parse_hctl_formula
//@verify parse_extended_formula
//@verify parse_and_minimize_hctl_formula
//@verify parse_and_minimize_extended_formula

fn main() {}
} // verus!
