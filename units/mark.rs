// UNIT mark: the duplicate table computed by mark_duplicates_canonized_multiple (C04 / C09)
#![feature(allocator_api)]
#![feature(pattern)]
#![allow(unused_imports, dead_code, unused_variables, unused_mut, non_snake_case, unused_parens)]
use vstd::prelude::*;
use vstd::string::StringSliceAdditionalSpecFns;
use vstd::utf8::*;
use vstd::std_specs::hash::*;
use vstd::std_specs::btree::key_obeys_cmp_spec;
use std::collections::{BTreeMap, HashMap, HashSet, BinaryHeap};
use std::cmp::Ordering;
//@include prelude/bn_stubs.rs

verus! {

//@include prelude/bn_model.rs
//@include prelude/std_model.rs
//@include prelude/weak_std.rs
//@include spec/syntax.rs
//@include spec/ctl.rs
//@include spec/lowlevel.rs
//@include spec/sem.rs
//@include spec/sem_arms.rs
//@include spec/evalctx_types.rs
//@include spec/strmap.rs
//@include spec/canon.rs
//@include spec/evalctx.rs
//@include spec/size.rs
//@include spec/mark.rs
//@fmtfns

//@type src/evaluation/mark_duplicates.rs NodeWithDomains
// TRUSTED stand-ins for the derived PartialEq / Eq and the hand-written Ord / PartialOrd of NodeWithDomains (order by height):
// they only influence the ORDER in which the heap hands out nodes, which no contract of this unit depends on.
#[verifier::external] impl PartialEq for NodeWithDomains<'_> { fn eq(&self, o: &Self) -> bool { self.subtree.height == o.subtree.height } }
#[verifier::external] impl Eq for NodeWithDomains<'_> {}
#[verifier::external] impl Ord for NodeWithDomains<'_> { fn cmp(&self, other: &Self) -> Ordering { self.subtree.height.cmp(&other.subtree.height) } }
#[verifier::external] impl PartialOrd for NodeWithDomains<'_> { fn partial_cmp(&self, other: &Self) -> Option<Ordering> { Some(self.cmp(other)) } }
//@assume get_canonical_and_renaming
//@verify node_with_domains_new
//@verify node_with_domains_new_empty
//@verify mark_duplicates_canonized_multiple
//@verify mark_duplicates_canonized_single
//@verify evalcontext_new
//@verify from_multiple_trees
//@verify from_single_tree
//@verify get_duplicates
//@verify get_cache
//@verify get_domain_raw_sets
//@verify get_free_var_domains

fn main() {}
} // verus!
