// UNIT mark: the duplicate table computed by mark_duplicates_canonized_multiple (C04 / C09)
#![feature(allocator_api)]
#![allow(unused_imports, dead_code, unused_variables, unused_mut, non_snake_case, unused_parens)]
use vstd::prelude::*;
use vstd::string::StringSliceAdditionalSpecFns;
use vstd::utf8::*;
use vstd::std_specs::hash::*;
use vstd::std_specs::btree::key_obeys_cmp_spec;
use std::collections::{BTreeMap, HashMap, HashSet, BinaryHeap};
use std::cmp::Ordering;
//@include prelude/bn_stubs.rs

verus! {

//@include prelude/bn_model.rs
//@include prelude/std_model.rs
//@include spec/syntax.rs
//@include spec/ctl.rs
//@include spec/lowlevel.rs
//@include spec/sem.rs
//@include spec/sem_arms.rs
//@include spec/evalctx_types.rs
//@include spec/strmap.rs
//@include spec/evalctx.rs
//@fmtfns

//@type src/evaluation/mark_duplicates.rs NodeWithDomains
//@trusted get_canonical_and_renaming
//@verify node_with_domains_new
//@verify node_with_domains_new_empty
//@verify mark_duplicates_canonized_multiple

fn main() {}
} // verus!
