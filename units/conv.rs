// UNIT conv: the aeon -> bnet converter (src/bin/convert_aeon_to_bnet.rs) -- C19
#![feature(allocator_api)]
#![feature(pattern)]
#![allow(unused_imports, dead_code, unused_variables, unused_mut, non_snake_case, unused_parens)]
use vstd::prelude::*;
use vstd::string::StringSliceAdditionalSpecFns;
use vstd::std_specs::hash::*;

verus! {

//@include prelude/conv_model.rs
//@include prelude/weak_std.rs
//@include spec/conv.rs
//@fmtfns

//@verify explode_function
//@verify flatten_fn_update
//@verify flatten_update_function

fn main() {}
} // verus!
