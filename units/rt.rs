// UNIT rt: the print / parse round trip (C06) as lemmas over the specifications that the tokenizer (unit lex), the parser and the
// constructors (unit tree) and the string entry points (unit front) are proved to implement.  No executable function: the unit
// holds only proof functions; the contracts they talk about (wf, parse_ok, preprocess_ok) are postconditions proved in those units.
#![feature(allocator_api)]
#![feature(pattern)]
#![allow(unused_imports, dead_code, unused_variables, unused_mut, non_snake_case, unused_parens)]
use vstd::prelude::*;
use vstd::string::StringSliceAdditionalSpecFns;
use vstd::utf8::*;
use vstd::std_specs::hash::*;
use vstd::std_specs::btree::key_obeys_cmp_spec;
use vstd::std_specs::char::is_white_space;
use std::collections::{BTreeMap, HashMap, HashSet};
use std::cmp;
use std::iter::Peekable;
use std::str::Chars;

verus! {

pub uninterp spec fn prop_index(name: Seq<char>) -> Option<int>;
//@include prelude/std_model.rs
//@include prelude/weak_std.rs
//@include spec/syntax.rs
//@include prelude/str_model.rs
//@include spec/grammar.rs
//@include spec/lex.rs
//@include spec/lex_lemmas.rs
//@include spec/strmap.rs
//@include spec/rename.rs
//@include spec/roundtrip.rs
//@include spec/roundtrip_lex.rs
//@include spec/roundtrip_closed.rs

fn main() {}
} // verus!
