// UNIT lex: the tokenizer against the token language (C05 tokenizer half, C14)
#![allow(unused_imports, dead_code, unused_variables, unused_mut, non_snake_case, unused_parens)]
use vstd::prelude::*;
use vstd::std_specs::char::is_white_space;
use std::iter::Peekable;
use std::str::Chars;

verus! {

//@include spec/syntax.rs
//@include prelude/str_model.rs
//@include spec/grammar.rs
//@include spec/lex.rs
//@include prelude/lex_model.rs
//@fmtfns

//@verify is_valid_in_name
//@verify is_valid_in_name_optional
//@verify is_valid_temp_op
//@verify skip_whitespaces
//@verify collect_name
//@verify collect_var_and_dom_from_operator
//@verify try_tokenize_recursive
//@verify try_tokenize_formula
//@verify try_tokenize_extended_formula

fn main() {}
} // verus!
