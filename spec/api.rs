// ======================================================================================
// S-API: what the model-checking entry points promise (C01, C03, C04 at the level of the public API).
// WLOG the graph handed to an entry point is named `base_graph()` (an uninterpreted constant): the contracts therefore
// hold for every graph that satisfies `graph_ready`.
// ======================================================================================
pub open spec fn graph_ready(g: &SymbolicAsyncGraph) -> bool { gok(g) && unit_of(g) == base_unit() }
// a plain formula: no wild-card propositions, no domains
pub open spec fn plain(t: STree) -> bool decreases t {
    match t {
        STree::Term(SAtom::Wild(_)) => false,
        STree::Term(_) => true,
        STree::Un(_, c) => plain(*c),
        STree::Bin(_, a, b) => plain(*a) && plain(*b),
        STree::Hyb(_, _, d, c) => d is None && plain(*c),
    }
}
pub proof fn lemma_plain(t: STree, m: Map<String, GraphColoredVertices>)
    requires plain(t)
    ensures forall|p: Seq<char>| #[trigger] occ(t, p) == 0, doms_present(t, m)
    decreases t
{
    match t {
        STree::Term(_) => {},
        STree::Un(_, c) => { lemma_plain(*c, m); assert forall|p: Seq<char>| #[trigger] occ(t, p) == 0 by { assert(occ(*c, p) == 0); } },
        STree::Bin(_, a, b) => { lemma_plain(*a, m); lemma_plain(*b, m); assert forall|p: Seq<char>| #[trigger] occ(t, p) == 0 by { assert(occ(*a, p) == 0); assert(occ(*b, p) == 0); } },
        STree::Hyb(_, _, d, c) => { lemma_plain(*c, m); assert forall|p: Seq<char>| #[trigger] occ(t, p) == 0 by { assert(occ(*c, p) == 0); } },
    }
}
pub proof fn lemma_budget_plain(c: EvalContext, t: STree)
    requires plain(t)
    ensures budget_pre(c, t)
{
    reveal(budget_pre);
    lemma_plain(t, Map::<String, GraphColoredVertices>::empty());
}
// a preprocessed closed plain tree that the graph can evaluate
pub open spec fn tree_ready(n: HctlTreeNode, g: &SymbolicAsyncGraph) -> bool {
    wf(n) && names_ok(view_tree(n)) && canonical_names(view_tree(n), 0) && scope_ok(view_tree(n), busy_of(g))
}
// C01 / C03: a result that agrees with the semantics inside the unit set and does not leave it IS the set of satisfying
// (state, colour, ...) points with a valid colour
pub proof fn lemma_ok_is_exact(g: &SymbolicAsyncGraph, r: ISet<Pt>, s: ISet<Pt>)
    requires graph_ready(g), ok(g, r, s)
    ensures r =~= s.intersect(base_unit())
{
    reveal(ok);
    assert forall|p: Pt| r.contains(p) <==> s.intersect(base_unit()).contains(p) by {
        if base_unit().contains(p) { lemma_agree_pt(r, s, unit_of(g), p); }
    }
}
