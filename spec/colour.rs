// ======================================================================================
// C20: the answer for a colour equals the answer on the network instantiated by it.
// `semg` is the HCTL semantics of spec/sem.rs with the transition system as an explicit parameter (lemma_semg_base: for the ambient
// graph it IS `sem`).  lemma_colour_local: the slice of the semantics at colour c is determined by the transitions of colour c, the
// self-loops of colour c and the slices of the context sets -- two graphs that agree at colour c (a parametrised network and any
// network obtained by fixing or removing OTHER colours, in particular its instantiation by c) give the same states for c.
// Together with the postcondition of eval_node / the entry points (result agrees with `sem` inside the unit set, proved on the code)
// this is the property; a code change that mixes colours (projection / substitution of a parameter variable) breaks the former.
// ======================================================================================
pub open spec fn g_ax(g: &SymbolicAsyncGraph, z: ISet<Pt>, l: ISet<Pt>) -> ISet<Pt> { co(ex_l(g, co(z), l)) }
pub open spec fn g_ef(g: &SymbolicAsyncGraph, a: ISet<Pt>) -> ISet<Pt> { eu_of(g, all_pts(), a) }
pub open spec fn g_au_closed(g: &SymbolicAsyncGraph, a: ISet<Pt>, b: ISet<Pt>, l: ISet<Pt>, z: ISet<Pt>) -> bool { b.subset_of(z) && a.intersect(g_ax(g, z, l)).subset_of(z) }
pub open spec fn g_au(g: &SymbolicAsyncGraph, a: ISet<Pt>, b: ISet<Pt>, l: ISet<Pt>) -> ISet<Pt> { ISet::new(|p: Pt| forall|z: ISet<Pt>| g_au_closed(g, a, b, l, z) ==> #[trigger] z.contains(p)) }
pub open spec fn semg_un(g: &SymbolicAsyncGraph, op: UnaryOp, a: ISet<Pt>, l: ISet<Pt>) -> ISet<Pt> {
    match op {
        UnaryOp::Not => co(a), UnaryOp::EX => ex_l(g, a, l), UnaryOp::AX => g_ax(g, a, l), UnaryOp::EF => g_ef(g, a),
        UnaryOp::AF => co(eg_of(g, co(a), l)), UnaryOp::EG => eg_of(g, a, l), UnaryOp::AG => co(g_ef(g, co(a))),
    }
}
pub open spec fn semg_bin(g: &SymbolicAsyncGraph, op: BinaryOp, a: ISet<Pt>, b: ISet<Pt>, l: ISet<Pt>) -> ISet<Pt> {
    match op {
        BinaryOp::And => a.intersect(b), BinaryOp::Or => a.union(b), BinaryOp::Xor => co(s_iff(a, b)),
        BinaryOp::Imp => co(a).union(b), BinaryOp::Iff => s_iff(a, b),
        BinaryOp::EU => eu_of(g, a, b), BinaryOp::AU => g_au(g, a, b, l), BinaryOp::EW => eu_of(g, a, b).union(eg_of(g, a, l)),
        BinaryOp::AW => co(eu_of(g, co(b), co(a).intersect(co(b)))),
    }
}
pub open spec fn semg(g: &SymbolicAsyncGraph, t: STree, l: ISet<Pt>) -> ISet<Pt> decreases t {
    match t {
        STree::Term(a) => sem_atom(a),
        STree::Un(op, c) => semg_un(g, op, semg(g, *c, l), l),
        STree::Bin(op, a, b) => semg_bin(g, op, semg(g, *a, l), semg(g, *b, l), l),
        STree::Hyb(op, x, d, c) => sem_hyb(op, slot_name(x), d, semg(g, *c, l)),
    }
}
pub proof fn lemma_semg_base(t: STree, l: ISet<Pt>)
    ensures semg(&base_graph(), t, l) == sem(t, l)
    decreases t
{
    let g = &base_graph();
    match t {
        STree::Term(a) => {},
        STree::Un(op, c) => { lemma_semg_base(*c, l); },
        STree::Bin(op, a, b) => {
            lemma_semg_base(*a, l); lemma_semg_base(*b, l);
            let x = sem(*a, l); let y = sem(*b, l);
            assert(g_au(g, x, y, l) =~= s_au(x, y, l)) by {
                assert forall|z: ISet<Pt>| g_au_closed(g, x, y, l, z) == s_au_closed(x, y, l, z) by {}
            }
        },
        STree::Hyb(op, x, d, c) => { lemma_semg_base(*c, l); },
    }
}

// ---- colour slices
pub open spec fn col(c: int) -> ISet<Pt> { ISet::new(|p: Pt| p.c == c) }
pub open spec fn same_at(g: &SymbolicAsyncGraph, h: &SymbolicAsyncGraph, c: int) -> bool {
    forall|v: int, s: Seq<bool>| #[trigger] can_flip(g, v, s, c) == can_flip(h, v, s, c)
}
pub open spec fn padded(z: ISet<Pt>, c: int) -> ISet<Pt> { ISet::new(|q: Pt| q.c != c || z.contains(q)) }
pub proof fn lemma_cagree_pt(a: ISet<Pt>, b: ISet<Pt>, c: int, p: Pt)
    requires agree(a, b, col(c)), p.c == c
    ensures a.contains(p) == b.contains(p)
{
    assert(a.intersect(col(c)).contains(p) == b.intersect(col(c)).contains(p));
    assert(col(c).contains(p));
}
pub proof fn lemma_cagree_intro(a: ISet<Pt>, b: ISet<Pt>, c: int)
    requires forall|p: Pt| p.c == c ==> a.contains(p) == b.contains(p)
    ensures agree(a, b, col(c))
{
    assert forall|p: Pt| a.intersect(col(c)).contains(p) == b.intersect(col(c)).contains(p) by {}
}
pub proof fn lemma_co_loc(a: ISet<Pt>, b: ISet<Pt>, c: int)
    requires agree(a, b, col(c))
    ensures agree(co(a), co(b), col(c))
{
    assert forall|p: Pt| p.c == c implies co(a).contains(p) == co(b).contains(p) by { lemma_cagree_pt(a, b, c, p); }
    lemma_cagree_intro(co(a), co(b), c);
}
pub proof fn lemma_pre_half(g: &SymbolicAsyncGraph, h: &SymbolicAsyncGraph, z1: ISet<Pt>, z2: ISet<Pt>, c: int, p: Pt)
    requires same_at(g, h, c), p.c == c, pre_of(g, z1).contains(p), forall|q: Pt| q.c == c && z1.contains(q) ==> z2.contains(q)
    ensures pre_of(h, z2).contains(p)
{
    let v = choose|v: int| 0 <= v < dim_n() && #[trigger] var_pre_of(g, v, z1).contains(p);
    let q = with_state(p, flip(p.s, v));
    assert(can_flip(g, v, p.s, c) == can_flip(h, v, p.s, c));
    assert(z2.contains(q));
    assert(var_pre_of(h, v, z2).contains(p));
}
pub proof fn lemma_ex_half(g: &SymbolicAsyncGraph, h: &SymbolicAsyncGraph, z1: ISet<Pt>, z2: ISet<Pt>, l1: ISet<Pt>, l2: ISet<Pt>, c: int, p: Pt)
    requires same_at(g, h, c), p.c == c, ex_l(g, z1, l1).contains(p), forall|q: Pt| q.c == c && z1.contains(q) ==> z2.contains(q), agree(l1, l2, col(c))
    ensures ex_l(h, z2, l2).contains(p)
{
    if pre_of(g, z1).contains(p) { lemma_pre_half(g, h, z1, z2, c, p); } else { lemma_cagree_pt(l1, l2, c, p); }
}
pub proof fn lemma_same_at_sym(g: &SymbolicAsyncGraph, h: &SymbolicAsyncGraph, c: int)
    requires same_at(g, h, c) ensures same_at(h, g, c)
{
    assert forall|v: int, s: Seq<bool>| #[trigger] can_flip(h, v, s, c) == can_flip(g, v, s, c) by { assert(can_flip(g, v, s, c) == can_flip(h, v, s, c)); }
}
pub proof fn lemma_agree_sym(a: ISet<Pt>, b: ISet<Pt>, u: ISet<Pt>) requires agree(a, b, u) ensures agree(b, a, u) {}
pub proof fn lemma_ex_loc(g: &SymbolicAsyncGraph, h: &SymbolicAsyncGraph, z1: ISet<Pt>, z2: ISet<Pt>, l1: ISet<Pt>, l2: ISet<Pt>, c: int)
    requires same_at(g, h, c), agree(z1, z2, col(c)), agree(l1, l2, col(c))
    ensures agree(ex_l(g, z1, l1), ex_l(h, z2, l2), col(c))
{
    lemma_same_at_sym(g, h, c);
    assert forall|p: Pt| p.c == c implies ex_l(g, z1, l1).contains(p) == ex_l(h, z2, l2).contains(p) by {
        assert forall|q: Pt| q.c == c implies z1.contains(q) == z2.contains(q) by { lemma_cagree_pt(z1, z2, c, q); }
        if ex_l(g, z1, l1).contains(p) { lemma_ex_half(g, h, z1, z2, l1, l2, c, p); }
        if ex_l(h, z2, l2).contains(p) { lemma_ex_half(h, g, z2, z1, l2, l1, c, p); }
    }
    lemma_cagree_intro(ex_l(g, z1, l1), ex_l(h, z2, l2), c);
}
pub proof fn lemma_ax_loc(g: &SymbolicAsyncGraph, h: &SymbolicAsyncGraph, z1: ISet<Pt>, z2: ISet<Pt>, l1: ISet<Pt>, l2: ISet<Pt>, c: int)
    requires same_at(g, h, c), agree(z1, z2, col(c)), agree(l1, l2, col(c))
    ensures agree(g_ax(g, z1, l1), g_ax(h, z2, l2), col(c))
{
    lemma_co_loc(z1, z2, c);
    lemma_ex_loc(g, h, co(z1), co(z2), l1, l2, c);
    lemma_co_loc(ex_l(g, co(z1), l1), ex_l(h, co(z2), l2), c);
}
// least fixed point EU: a closed set of the one system, padded with all other colours, is closed for the other
pub proof fn lemma_eu_half(g: &SymbolicAsyncGraph, h: &SymbolicAsyncGraph, a1: ISet<Pt>, a2: ISet<Pt>, b1: ISet<Pt>, b2: ISet<Pt>, c: int, p: Pt)
    requires same_at(g, h, c), agree(a1, a2, col(c)), agree(b1, b2, col(c)), p.c == c, eu_of(g, a1, b1).contains(p)
    ensures eu_of(h, a2, b2).contains(p)
{
    assert forall|z2: ISet<Pt>| eu_closed(h, a2, b2, z2) implies #[trigger] z2.contains(p) by {
        let z1 = padded(z2, c);
        assert(eu_closed(g, a1, b1, z1)) by {
            assert forall|q: Pt| b1.contains(q) implies z1.contains(q) by { if q.c == c { lemma_cagree_pt(b1, b2, c, q); } }
            assert forall|q: Pt| a1.intersect(pre_of(g, z1)).contains(q) implies z1.contains(q) by {
                if q.c == c {
                    lemma_cagree_pt(a1, a2, c, q);
                    lemma_pre_half(g, h, z1, z2, c, q);
                    assert(a2.intersect(pre_of(h, z2)).contains(q));
                }
            }
        }
        assert(z1.contains(p));
    }
}
pub proof fn lemma_eu_loc(g: &SymbolicAsyncGraph, h: &SymbolicAsyncGraph, a1: ISet<Pt>, a2: ISet<Pt>, b1: ISet<Pt>, b2: ISet<Pt>, c: int)
    requires same_at(g, h, c), agree(a1, a2, col(c)), agree(b1, b2, col(c))
    ensures agree(eu_of(g, a1, b1), eu_of(h, a2, b2), col(c))
{
    lemma_same_at_sym(g, h, c);
    assert forall|p: Pt| p.c == c implies eu_of(g, a1, b1).contains(p) == eu_of(h, a2, b2).contains(p) by {
        if eu_of(g, a1, b1).contains(p) { lemma_eu_half(g, h, a1, a2, b1, b2, c, p); }
        if eu_of(h, a2, b2).contains(p) { lemma_eu_half(h, g, a2, a1, b2, b1, c, p); }
    }
    lemma_cagree_intro(eu_of(g, a1, b1), eu_of(h, a2, b2), c);
}
// greatest fixed point EG: the colour-c slice of a dense set of the one system is dense for the other
pub proof fn lemma_eg_half(g: &SymbolicAsyncGraph, h: &SymbolicAsyncGraph, a1: ISet<Pt>, a2: ISet<Pt>, l1: ISet<Pt>, l2: ISet<Pt>, c: int, p: Pt)
    requires same_at(g, h, c), agree(a1, a2, col(c)), agree(l1, l2, col(c)), p.c == c, eg_of(g, a1, l1).contains(p)
    ensures eg_of(h, a2, l2).contains(p)
{
    let z1 = choose|z: ISet<Pt>| eg_dense(g, a1, l1, z) && #[trigger] z.contains(p);
    let z2 = z1.intersect(col(c));
    assert(eg_dense(h, a2, l2, z2)) by {
        assert forall|q: Pt| z2.contains(q) implies a2.contains(q) by { lemma_cagree_pt(a1, a2, c, q); }
        assert forall|q: Pt| z2.contains(q) implies ex_l(h, z2, l2).contains(q) by {
            assert(ex_l(g, z1, l1).contains(q));
            if pre_of(g, z1).contains(q) { lemma_pre_half(g, h, z1, z2, c, q); } else { lemma_cagree_pt(l1, l2, c, q); }
        }
    }
    assert(z2.contains(p));
}
pub proof fn lemma_eg_loc(g: &SymbolicAsyncGraph, h: &SymbolicAsyncGraph, a1: ISet<Pt>, a2: ISet<Pt>, l1: ISet<Pt>, l2: ISet<Pt>, c: int)
    requires same_at(g, h, c), agree(a1, a2, col(c)), agree(l1, l2, col(c))
    ensures agree(eg_of(g, a1, l1), eg_of(h, a2, l2), col(c))
{
    lemma_same_at_sym(g, h, c);
    assert forall|p: Pt| p.c == c implies eg_of(g, a1, l1).contains(p) == eg_of(h, a2, l2).contains(p) by {
        if eg_of(g, a1, l1).contains(p) { lemma_eg_half(g, h, a1, a2, l1, l2, c, p); }
        if eg_of(h, a2, l2).contains(p) { lemma_eg_half(h, g, a2, a1, l2, l1, c, p); }
    }
    lemma_cagree_intro(eg_of(g, a1, l1), eg_of(h, a2, l2), c);
}
// least fixed point AU
pub proof fn lemma_au_half(g: &SymbolicAsyncGraph, h: &SymbolicAsyncGraph, a1: ISet<Pt>, a2: ISet<Pt>, b1: ISet<Pt>, b2: ISet<Pt>, l1: ISet<Pt>, l2: ISet<Pt>, c: int, p: Pt)
    requires same_at(g, h, c), agree(a1, a2, col(c)), agree(b1, b2, col(c)), agree(l1, l2, col(c)), p.c == c, g_au(g, a1, b1, l1).contains(p)
    ensures g_au(h, a2, b2, l2).contains(p)
{
    assert forall|z2: ISet<Pt>| g_au_closed(h, a2, b2, l2, z2) implies #[trigger] z2.contains(p) by {
        let z1 = padded(z2, c);
        assert(g_au_closed(g, a1, b1, l1, z1)) by {
            assert forall|q: Pt| b1.contains(q) implies z1.contains(q) by { if q.c == c { lemma_cagree_pt(b1, b2, c, q); } }
            assert forall|q: Pt| a1.intersect(g_ax(g, z1, l1)).contains(q) implies z1.contains(q) by {
                if q.c == c {
                    lemma_cagree_pt(a1, a2, c, q);
                    lemma_cagree_intro(z1, z2, c);
                    lemma_ax_loc(g, h, z1, z2, l1, l2, c);
                    lemma_cagree_pt(g_ax(g, z1, l1), g_ax(h, z2, l2), c, q);
                    assert(a2.intersect(g_ax(h, z2, l2)).contains(q));
                }
            }
        }
        assert(z1.contains(p));
    }
}
pub proof fn lemma_au_loc(g: &SymbolicAsyncGraph, h: &SymbolicAsyncGraph, a1: ISet<Pt>, a2: ISet<Pt>, b1: ISet<Pt>, b2: ISet<Pt>, l1: ISet<Pt>, l2: ISet<Pt>, c: int)
    requires same_at(g, h, c), agree(a1, a2, col(c)), agree(b1, b2, col(c)), agree(l1, l2, col(c))
    ensures agree(g_au(g, a1, b1, l1), g_au(h, a2, b2, l2), col(c))
{
    lemma_same_at_sym(g, h, c);
    assert forall|p: Pt| p.c == c implies g_au(g, a1, b1, l1).contains(p) == g_au(h, a2, b2, l2).contains(p) by {
        if g_au(g, a1, b1, l1).contains(p) { lemma_au_half(g, h, a1, a2, b1, b2, l1, l2, c, p); }
        if g_au(h, a2, b2, l2).contains(p) { lemma_au_half(h, g, a2, a1, b2, b1, l2, l1, c, p); }
    }
    lemma_cagree_intro(g_au(g, a1, b1, l1), g_au(h, a2, b2, l2), c);
}
pub proof fn lemma_bool_loc(a1: ISet<Pt>, a2: ISet<Pt>, b1: ISet<Pt>, b2: ISet<Pt>, c: int)
    requires agree(a1, a2, col(c)), agree(b1, b2, col(c))
    ensures agree(a1.intersect(b1), a2.intersect(b2), col(c)), agree(a1.union(b1), a2.union(b2), col(c)), agree(s_iff(a1, b1), s_iff(a2, b2), col(c))
{
    assert forall|p: Pt| p.c == c implies a1.contains(p) == a2.contains(p) && b1.contains(p) == b2.contains(p) by { lemma_cagree_pt(a1, a2, c, p); lemma_cagree_pt(b1, b2, c, p); }
    lemma_cagree_intro(a1.intersect(b1), a2.intersect(b2), c);
    lemma_cagree_intro(a1.union(b1), a2.union(b2), c);
    lemma_cagree_intro(s_iff(a1, b1), s_iff(a2, b2), c);
}
// the hybrid operators move only the state / one auxiliary copy, never the colour
pub proof fn lemma_hyb_loc(op: HybridOp, k: int, d: Option<Seq<char>>, a1: ISet<Pt>, a2: ISet<Pt>, c: int)
    requires agree(a1, a2, col(c))
    ensures agree(sem_hyb(op, k, d, a1), sem_hyb(op, k, d, a2), col(c))
{
    assert forall|q: Pt| q.c == c implies a1.contains(q) == a2.contains(q) by { lemma_cagree_pt(a1, a2, c, q); }
    assert forall|p: Pt| p.c == c implies sem_hyb(op, k, d, a1).contains(p) == sem_hyb(op, k, d, a2).contains(p) by {
        assert(with_slot(p, k, p.s).c == c && with_state(p, p.e[k]).c == c);
        assert forall|v: Seq<bool>| (#[trigger] with_slot(p, k, v)).c == c by {}
    }
    lemma_cagree_intro(sem_hyb(op, k, d, a1), sem_hyb(op, k, d, a2), c);
}
pub proof fn lemma_colour_local(g: &SymbolicAsyncGraph, h: &SymbolicAsyncGraph, t: STree, l1: ISet<Pt>, l2: ISet<Pt>, c: int)
    requires same_at(g, h, c), agree(l1, l2, col(c))
    ensures agree(semg(g, t, l1), semg(h, t, l2), col(c))
    decreases t
{
    match t {
        STree::Term(a) => {},
        STree::Un(op, ch) => {
            lemma_colour_local(g, h, *ch, l1, l2, c);
            let x1 = semg(g, *ch, l1); let x2 = semg(h, *ch, l2);
            lemma_co_loc(x1, x2, c);
            match op {
                UnaryOp::Not => {},
                UnaryOp::EX => { lemma_ex_loc(g, h, x1, x2, l1, l2, c); },
                UnaryOp::AX => { lemma_ax_loc(g, h, x1, x2, l1, l2, c); },
                UnaryOp::EF => { lemma_eu_loc(g, h, all_pts(), all_pts(), x1, x2, c); },
                UnaryOp::AF => { lemma_eg_loc(g, h, co(x1), co(x2), l1, l2, c); lemma_co_loc(eg_of(g, co(x1), l1), eg_of(h, co(x2), l2), c); },
                UnaryOp::EG => { lemma_eg_loc(g, h, x1, x2, l1, l2, c); },
                UnaryOp::AG => { lemma_eu_loc(g, h, all_pts(), all_pts(), co(x1), co(x2), c); lemma_co_loc(g_ef(g, co(x1)), g_ef(h, co(x2)), c); },
            }
        },
        STree::Bin(op, a, b) => {
            lemma_colour_local(g, h, *a, l1, l2, c); lemma_colour_local(g, h, *b, l1, l2, c);
            let x1 = semg(g, *a, l1); let x2 = semg(h, *a, l2); let y1 = semg(g, *b, l1); let y2 = semg(h, *b, l2);
            lemma_co_loc(x1, x2, c); lemma_co_loc(y1, y2, c);
            lemma_bool_loc(x1, x2, y1, y2, c);
            match op {
                BinaryOp::And => {}, BinaryOp::Or => {}, BinaryOp::Iff => {},
                BinaryOp::Xor => { lemma_co_loc(s_iff(x1, y1), s_iff(x2, y2), c); },
                BinaryOp::Imp => { lemma_bool_loc(co(x1), co(x2), y1, y2, c); },
                BinaryOp::EU => { lemma_eu_loc(g, h, x1, x2, y1, y2, c); },
                BinaryOp::AU => { lemma_au_loc(g, h, x1, x2, y1, y2, l1, l2, c); },
                BinaryOp::EW => { lemma_eu_loc(g, h, x1, x2, y1, y2, c); lemma_eg_loc(g, h, x1, x2, l1, l2, c); lemma_bool_loc(eu_of(g, x1, y1), eu_of(h, x2, y2), eg_of(g, x1, l1), eg_of(h, x2, l2), c); },
                BinaryOp::AW => {
                    lemma_bool_loc(co(x1), co(x2), co(y1), co(y2), c);
                    lemma_eu_loc(g, h, co(y1), co(y2), co(x1).intersect(co(y1)), co(x2).intersect(co(y2)), c);
                    lemma_co_loc(eu_of(g, co(y1), co(x1).intersect(co(y1))), eu_of(h, co(y2), co(x2).intersect(co(y2))), c);
                },
            }
        },
        STree::Hyb(op, x, d, ch) => {
            lemma_colour_local(g, h, *ch, l1, l2, c);
            lemma_hyb_loc(op, slot_name(x), d, semg(g, *ch, l1), semg(h, *ch, l2), c);
        },
    }
}
// the self-loop sets used by the model checker (states without successor inside the unit set) agree at colour c as soon as the
// unit sets do (c is a valid colour of both)
pub open spec fn steady_of(g: &SymbolicAsyncGraph) -> ISet<Pt> { ISet::new(|p: Pt| unit_of(g).contains(p) && !has_succ(g, p)) }
pub proof fn lemma_steady_loc(g: &SymbolicAsyncGraph, h: &SymbolicAsyncGraph, c: int)
    requires same_at(g, h, c), agree(unit_of(g), unit_of(h), col(c))
    ensures agree(steady_of(g), steady_of(h), col(c))
{
    assert forall|p: Pt| p.c == c implies steady_of(g).contains(p) == steady_of(h).contains(p) by {
        lemma_cagree_pt(unit_of(g), unit_of(h), c, p);
        if has_succ(g, p) { let v = choose|v: int| 0 <= v < dim_n() && #[trigger] can_flip(g, v, p.s, p.c); assert(can_flip(h, v, p.s, p.c)); }
        if has_succ(h, p) { let v = choose|v: int| 0 <= v < dim_n() && #[trigger] can_flip(h, v, p.s, p.c); assert(can_flip(g, v, p.s, p.c)); }
    }
    lemma_cagree_intro(steady_of(g), steady_of(h), c);
}
// C20 as stated: g = the parametrised network (ambient), h = any network with the same behaviour and validity at colour c
// (its instantiation by c; or the same network with other colours admitted / removed).  What the model checker returns on g is
// `sem` inside unit(g) (contracts of eval_node and of the entry points), what it returns on h is semg(h, ..) inside unit(h).
pub proof fn lemma_c20(h: &SymbolicAsyncGraph, t: STree, c: int)
    requires same_at(&base_graph(), h, c), agree(base_unit(), unit_of(h), col(c))
    ensures agree(sem(t, steady_set()), semg(h, t, steady_of(h)), col(c))
{
    lemma_steady_loc(&base_graph(), h, c);
    assert(steady_of(&base_graph()) =~= steady_set());
    lemma_colour_local(&base_graph(), h, t, steady_set(), steady_of(h), c);
    lemma_semg_base(t, steady_set());
}
