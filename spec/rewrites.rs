// ======================================================================================
// C08: the preprocessed tree (hence, by C01 / C04, the result) is invariant under meaning-preserving rewrites of the text.
// Each rewrite named in the property is a lemma over the specifications of the tokenizer, the parser and the renamer,
// which the code is proved to implement (units lex, tree, front).
// ======================================================================================
// (1) extra whitespace in front of any token (tokens are consumed one after the other by lex_group)
// ... and inside the header of a hybrid operator (after the operator, after the variable, around `in`, before ':')
pub proof fn lemma_ws_skip(s: Seq<char>, c: char)
    requires is_white_space(c)
    ensures skip_ws(seq![c] + s) == skip_ws(s)
{
    let w = seq![c] + s;
    assert(w.drop_first() =~= s);
}
pub proof fn lemma_ws_hdr(s: Seq<char>, c: char, dom_ok: bool)
    requires is_white_space(c)
    ensures lex_hdr(seq![c] + s, dom_ok) == lex_hdr(s, dom_ok)
{
    lemma_ws_skip(s, c);
}
// (2) long versus short spellings of the hybrid operators
pub proof fn lemma_long_bind(r: Seq<char>, ext: bool)
    requires r.len() == 0 || !name_char(r[0])
    ensures lex_one("\\bind"@ + r, ext) == lex_one("!"@ + r, ext)
{
    broadcast use axiom_alnum_ascii;
    reveal_strlit("\\bind"); reveal_strlit("bind"); reveal_strlit("!"); reveal_strlit("exists"); reveal_strlit("forall");
    assert(("\\bind"@ + r).drop_first() =~= "bind"@ + r);
    lemma_take_name_lit("bind"@, r);
    assert(("!"@ + r).drop_first() =~= r);
    assert(("\\bind"@ + r)[0] == '\\' && ("!"@ + r)[0] == '!');
    assert("bind"@ != "exists"@ && "bind"@ != "forall"@) by { assert("bind"@.len() == 4 && "exists"@.len() == 6 && "forall"@.len() == 6); }
}
pub proof fn lemma_long_jump(r: Seq<char>, ext: bool)
    requires r.len() == 0 || !name_char(r[0])
    ensures lex_one("\\jump"@ + r, ext) == lex_one("@"@ + r, ext)
{
    broadcast use axiom_alnum_ascii;
    reveal_strlit("\\jump"); reveal_strlit("jump"); reveal_strlit("@"); reveal_strlit("exists"); reveal_strlit("forall"); reveal_strlit("bind");
    assert(("\\jump"@ + r).drop_first() =~= "jump"@ + r);
    lemma_take_name_lit("jump"@, r);
    assert(("@"@ + r).drop_first() =~= r);
    assert(("\\jump"@ + r)[0] == '\\' && ("@"@ + r)[0] == '@');
    assert("jump"@ != "exists"@ && "jump"@ != "forall"@) by { assert("jump"@.len() == 4 && "exists"@.len() == 6 && "forall"@.len() == 6); }
    assert("jump"@ != "bind"@) by { assert("jump"@[0] == 'j' && "bind"@[0] == 'b'); }
}
pub proof fn lemma_long_exists(r: Seq<char>, ext: bool)
    requires r.len() == 0 || !name_char(r[0])
    ensures lex_one("\\exists"@ + r, ext) == lex_one("3"@ + r, ext)
{
    broadcast use axiom_alnum_ascii;
    reveal_strlit("\\exists"); reveal_strlit("exists"); reveal_strlit("3");
    assert(("\\exists"@ + r).drop_first() =~= "exists"@ + r);
    lemma_take_name_lit("exists"@, r);
    lemma_take_name_lit("3"@, r);
    assert(("\\exists"@ + r)[0] == '\\' && ("3"@ + r)[0] == '3');
}
pub proof fn lemma_long_forall(r: Seq<char>, ext: bool)
    requires r.len() == 0 || !name_char(r[0])
    ensures lex_one("\\forall"@ + r, ext) == lex_one("V"@ + r, ext)
{
    broadcast use axiom_alnum_ascii;
    reveal_strlit("\\forall"); reveal_strlit("forall"); reveal_strlit("V"); reveal_strlit("exists"); reveal_strlit("3");
    assert(("\\forall"@ + r).drop_first() =~= "forall"@ + r);
    lemma_take_name_lit("forall"@, r);
    lemma_take_name_lit("V"@, r);
    assert(("\\forall"@ + r)[0] == '\\' && ("V"@ + r)[0] == 'V');
    assert("forall"@ != "exists"@) by { assert("forall"@[0] == 'f' && "exists"@[0] == 'e'); }
    assert("V"@ != "3"@) by { assert("V"@[0] == 'V' && "3"@[0] == '3'); }
}
pub proof fn lemma_long_spellings(r: Seq<char>, ext: bool)
    requires r.len() == 0 || !name_char(r[0])
    ensures
        lex_one("\\bind"@ + r, ext) == lex_one("!"@ + r, ext),
        lex_one("\\jump"@ + r, ext) == lex_one("@"@ + r, ext),
        lex_one("\\exists"@ + r, ext) == lex_one("3"@ + r, ext),
        lex_one("\\forall"@ + r, ext) == lex_one("V"@ + r, ext),
{
    lemma_long_bind(r, ext); lemma_long_jump(r, ext); lemma_long_exists(r, ext); lemma_long_forall(r, ext);
}
// (3) alternative spellings of the constants
pub proof fn lemma_constant_spellings(a: Atomic, b: Atomic)
    requires
        a matches Atomic::Prop(x) && (x@ == "true"@ || x@ == "True"@ || x@ == "1"@),
        b matches Atomic::Prop(y) && (y@ == "true"@ || y@ == "True"@ || y@ == "1"@),
    ensures sp_atom(a) == sp_atom(b), sp_atom(a) == STree::Term(SAtom::True)
{
}
pub proof fn lemma_constant_spellings_false(a: Atomic, b: Atomic)
    requires
        a matches Atomic::Prop(x) && (x@ == "false"@ || x@ == "False"@ || x@ == "0"@),
        b matches Atomic::Prop(y) && (y@ == "false"@ || y@ == "False"@ || y@ == "0"@),
    ensures sp_atom(a) == sp_atom(b), sp_atom(a) == STree::Term(SAtom::False)
{
    lemma_const_lits();
}
pub proof fn lemma_const_lits()
    ensures "false"@ != "true"@, "false"@ != "True"@, "false"@ != "1"@, "False"@ != "true"@, "False"@ != "True"@, "False"@ != "1"@,
        "0"@ != "true"@, "0"@ != "True"@, "0"@ != "1"@
{
    assert("false"@.len() == 5 && "False"@.len() == 5 && "true"@.len() == 4 && "True"@.len() == 4 && "1"@.len() == 1 && "0"@.len() == 1) by {
        reveal_strlit("true"); reveal_strlit("True"); reveal_strlit("1"); reveal_strlit("false"); reveal_strlit("False"); reveal_strlit("0");
    }
    assert("0"@[0] == '0' && "1"@[0] == '1') by { reveal_strlit("1"); reveal_strlit("0"); }
}
// (4) redundant parentheses around a formula
pub proof fn lemma_redundant_parens(ts: Seq<HctlToken>, v: Vec<HctlToken>)
    requires ts.len() == 1, ts[0] == HctlToken::Tokens(v)
    ensures sp_formula(ts) == sp_formula(v@)
{
    assert forall|k: int| -1 <= k <= 6 implies none_at(ts, k) by {
        assert forall|j: int| 0 <= j < ts.len() implies !in_class(#[trigger] ts[j], k) by {}
    }
    lemma_first_none(ts, -1); lemma_first_none(ts, 0); lemma_first_none(ts, 1); lemma_first_none(ts, 2);
    lemma_first_none(ts, 3); lemma_first_none(ts, 4); lemma_first_none(ts, 5); lemma_first_none(ts, 6);
    assert(sp_term(ts) == sp_formula(v@));
    assert(sp_unary(ts) == sp_term(ts));
    assert(sp_level(ts, 6) == sp_unary(ts));
    assert(sp_level(ts, 5) == sp_level(ts, 6));
    assert(sp_level(ts, 4) == sp_level(ts, 5));
    assert(sp_level(ts, 3) == sp_level(ts, 4));
    assert(sp_level(ts, 2) == sp_level(ts, 3));
    assert(sp_level(ts, 1) == sp_level(ts, 2));
    assert(sp_level(ts, 0) == sp_level(ts, 1));
    assert(sp_formula(ts) == sp_level(ts, 0));
}
// (5) consistent renaming of state variables: alpha-equivalent trees are preprocessed to the SAME tree
pub proof fn lemma_alpha_same_result(t1: STree, t2: STree, m1: IMap<Seq<char>, Seq<char>>, m2: IMap<Seq<char>, Seq<char>>, e1: Seq<Seq<char>>, e2: Seq<Seq<char>>)
    requires alpha_eq(t1, t2, e1, e2), e1.len() == e2.len(), map_tracks(m1, e1), map_tracks(m2, e2)
    ensures rename_spec(t1, m1, e1.len()) == rename_spec(t2, m2, e1.len())
    decreases t1
{
    let d = e1.len();
    match (t1, t2) {
        (STree::Term(SAtom::Var(x)), STree::Term(SAtom::Var(y))) => {
            assert(m1.contains_key(x) && m2.contains_key(y));
        },
        (STree::Term(a), STree::Term(b)) => {},
        (STree::Un(o1, c1), STree::Un(o2, c2)) => { lemma_alpha_same_result(*c1, *c2, m1, m2, e1, e2); },
        (STree::Bin(o1, a1, b1), STree::Bin(o2, a2, b2)) => { lemma_alpha_same_result(*a1, *a2, m1, m2, e1, e2); lemma_alpha_same_result(*b1, *b2, m1, m2, e1, e2); },
        (STree::Hyb(o1, x, d1, c1), STree::Hyb(o2, y, d2, c2)) => {
            if o1 is Jump {
                assert(m1.contains_key(x) && m2.contains_key(y));
                lemma_alpha_same_result(*c1, *c2, m1, m2, e1, e2);
            } else {
                let nm = xs(d + 1);
                let m1b = m1.insert(x, nm); let m2b = m2.insert(y, nm);
                let e1b = e1.push(x); let e2b = e2.push(y);
                assert(map_tracks(m1b, e1b)) by {
                    assert forall|z: Seq<char>| (#[trigger] m1b.contains_key(z) <==> pos_of(e1b, z) >= 0) && (m1b.contains_key(z) ==> m1b[z] == xs((pos_of(e1b, z) + 1) as nat)) by {
                        lemma_pos_push(e1, x, z); lemma_pos_bound(e1, z);
                    }
                }
                assert(map_tracks(m2b, e2b)) by {
                    assert forall|z: Seq<char>| (#[trigger] m2b.contains_key(z) <==> pos_of(e2b, z) >= 0) && (m2b.contains_key(z) ==> m2b[z] == xs((pos_of(e2b, z) + 1) as nat)) by {
                        lemma_pos_push(e2, y, z); lemma_pos_bound(e2, z);
                    }
                }
                lemma_alpha_same_result(*c1, *c2, m1b, m2b, e1b, e2b);
            }
        },
        _ => {},
    }
}
