// ======================================================================================
// "arm lemmas": every operator the evaluator applies preserves the invariant
//     ok(g, r, s)  =  r and s agree inside unit(g)  and  r is inside the base unit set.
// One lemma per arm of eval_node's match; each is stated for the *specification* of the operator
// (the right-hand side of the operator's proved postcondition in unit ops).
// ======================================================================================
pub open spec fn base_free() -> bool { forall|k: int| 0 <= k < dim_k() ==> slot_free(&base_graph(), k) }
#[verifier::opaque]
pub open spec fn gok(g: &SymbolicAsyncGraph) -> bool { sub_graph(g) && wf_graph(&base_graph()) && base_free() && base_unit().subset_of(valid_colors()) && has_network(g) }

pub proof fn arm_true(g: &SymbolicAsyncGraph)
    requires gok(g)
    ensures ok(g, unit_of(g), all_pts()), ok(g, ISet::<Pt>::empty(), ISet::<Pt>::empty())
{
    reveal(wf_graph);
    reveal(gok);
    reveal(ok);
    lemma_agree_intro(unit_of(g), all_pts(), unit_of(g));
}
pub proof fn arm_var(g: &SymbolicAsyncGraph, k: int)
    requires gok(g)
    ensures ok(g, comparator_state(g, k), s_var(k))
{
    reveal(wf_graph);
    reveal(gok);
    reveal(ok);
    lemma_agree_intro(comparator_state(g, k), s_var(k), unit_of(g));
}
pub proof fn arm_prop(g: &SymbolicAsyncGraph, i: int)
    requires gok(g)
    ensures ok(g, prop_set(g, i), s_prop(i))
{
    reveal(wf_graph);
    reveal(gok);
    reveal(ok);
    lemma_agree_intro(prop_set(g, i), s_prop(i), unit_of(g));
}
pub proof fn arm_not(g: &SymbolicAsyncGraph, r: ISet<Pt>, s: ISet<Pt>)
    requires gok(g), agree(r, s, unit_of(g))
    ensures ok(g, neg(g, r), co(s))
{
    reveal(wf_graph);
    reveal(gok);
    reveal(ok);
    lemma_neg_agree(g, r, s);
}
pub proof fn arm_and_or(g: &SymbolicAsyncGraph, r1: ISet<Pt>, s1: ISet<Pt>, r2: ISet<Pt>, s2: ISet<Pt>)
    requires gok(g), ok(g, r1, s1), ok(g, r2, s2)
    ensures ok(g, r1.intersect(r2), s1.intersect(s2)), ok(g, r1.union(r2), s1.union(s2))
{
    reveal(wf_graph);
    reveal(gok);
    reveal(ok);
    let u = unit_of(g);
    assert forall|p: Pt| u.contains(p) implies ((r1.contains(p) <==> s1.contains(p)) && (r2.contains(p) <==> s2.contains(p))) by {
        lemma_agree_pt(r1, s1, u, p); lemma_agree_pt(r2, s2, u, p);
    }
    lemma_agree_intro(r1.intersect(r2), s1.intersect(s2), u);
    lemma_agree_intro(r1.union(r2), s1.union(s2), u);
}
pub proof fn arm_imp(g: &SymbolicAsyncGraph, r1: ISet<Pt>, s1: ISet<Pt>, r2: ISet<Pt>, s2: ISet<Pt>)
    requires gok(g), ok(g, r1, s1), ok(g, r2, s2)
    ensures ok(g, neg(g, r1).union(r2), co(s1).union(s2))
{
    reveal(wf_graph);
    reveal(gok);
    reveal(ok);
    arm_not(g, r1, s1);
    arm_and_or(g, neg(g, r1), co(s1), r2, s2);
}
pub proof fn arm_iff(g: &SymbolicAsyncGraph, r1: ISet<Pt>, s1: ISet<Pt>, r2: ISet<Pt>, s2: ISet<Pt>)
    requires gok(g), ok(g, r1, s1), ok(g, r2, s2)
    ensures
        ok(g, r1.intersect(r2).union(neg(g, r1).intersect(neg(g, r2))), s_iff(s1, s2)),
        ok(g, neg(g, r1.intersect(r2).union(neg(g, r1).intersect(neg(g, r2)))), co(s_iff(s1, s2))),
{
    reveal(wf_graph);
    reveal(gok);
    reveal(ok);
    arm_not(g, r1, s1);
    arm_not(g, r2, s2);
    arm_and_or(g, r1, s1, r2, s2);
    arm_and_or(g, neg(g, r1), co(s1), neg(g, r2), co(s2));
    arm_and_or(g, r1.intersect(r2), s1.intersect(s2), neg(g, r1).intersect(neg(g, r2)), co(s1).intersect(co(s2)));
    arm_not(g, r1.intersect(r2).union(neg(g, r1).intersect(neg(g, r2))), s_iff(s1, s2));
}
pub proof fn lemma_pre_in_base(g: &SymbolicAsyncGraph, r: ISet<Pt>)
    requires gok(g), r.subset_of(base_unit())
    ensures pre_of(g, r).subset_of(base_unit())
{
    reveal(wf_graph);
    reveal(gok);
    assert forall|p: Pt| pre_of(g, r).contains(p) implies base_unit().contains(p) by {
        let v = choose|v: int| 0 <= v < dim_n() && #[trigger] var_pre_of(g, v, r).contains(p);
        let q = with_state(p, flip(p.s, v));
        assert(base_unit().contains(q));
        assert(with_state(q, p.s) == p);
        assert(unit_of(&base_graph()).contains(with_state(q, p.s)));
    }
}
pub proof fn arm_ex(g: &SymbolicAsyncGraph, r: ISet<Pt>, s: ISet<Pt>, l: ISet<Pt>)
    requires gok(g), ok(g, r, s)
    ensures ok(g, ex_l(g, r, l), s_ex(s, l))
{
    reveal(wf_graph);
    reveal(gok);
    reveal(ok);
    let u = unit_of(g);
    lemma_pre_agree(g, r, s);
    lemma_pre_rebase(g, &base_graph(), s);
    lemma_pre_in_base(g, r);
    assert forall|p: Pt| u.contains(p) implies (ex_l(g, r, l).contains(p) <==> s_ex(s, l).contains(p)) by {
        lemma_agree_pt(r, s, u, p);
        lemma_agree_pt(pre_of(g, r), pre_of(g, s), u, p);
    }
    lemma_agree_intro(ex_l(g, r, l), s_ex(s, l), u);
}
pub proof fn arm_ax(g: &SymbolicAsyncGraph, r: ISet<Pt>, s: ISet<Pt>, l: ISet<Pt>)
    requires gok(g), ok(g, r, s)
    ensures ok(g, ax_l(g, r, l), s_ax(s, l))
{
    reveal(wf_graph);
    reveal(gok);
    reveal(ok);
    arm_not(g, r, s);
    arm_ex(g, neg(g, r), co(s), l);
    arm_not(g, ex_l(g, neg(g, r), l), s_ex(co(s), l));
}
pub proof fn lemma_eu_in_base(g: &SymbolicAsyncGraph, r1: ISet<Pt>, r2: ISet<Pt>)
    requires gok(g), r2.subset_of(base_unit()), r1.subset_of(base_unit())
    ensures eu_of(g, r1, r2).subset_of(base_unit())
{
    reveal(wf_graph);
    reveal(gok);
    assert(eu_closed(g, r1, r2, base_unit()));
}
pub proof fn arm_eu(g: &SymbolicAsyncGraph, r1: ISet<Pt>, s1: ISet<Pt>, r2: ISet<Pt>, s2: ISet<Pt>)
    requires gok(g), ok(g, r1, s1), ok(g, r2, s2)
    ensures ok(g, eu_of(g, r1, r2), s_eu(s1, s2))
{
    reveal(wf_graph);
    reveal(gok);
    reveal(ok);
    lemma_eu_agree(g, r1, r2, s1, s2);
    lemma_eu_rebase(g, &base_graph(), s1, s2);
    lemma_eu_in_base(g, r1, r2);
}
pub proof fn arm_ef(g: &SymbolicAsyncGraph, r: ISet<Pt>, s: ISet<Pt>)
    requires gok(g), ok(g, r, s)
    ensures ok(g, ef_of(g, r), s_ef(s))
{
    reveal(wf_graph);
    reveal(gok);
    reveal(ok);
    arm_true(g);
    arm_eu(g, unit_of(g), all_pts(), r, s);
}
pub proof fn arm_ag(g: &SymbolicAsyncGraph, r: ISet<Pt>, s: ISet<Pt>)
    requires gok(g), ok(g, r, s)
    ensures ok(g, ag_of(g, r), s_ag(s))
{
    reveal(wf_graph);
    reveal(gok);
    reveal(ok);
    arm_not(g, r, s);
    arm_ef(g, neg(g, r), co(s));
    arm_not(g, ef_of(g, neg(g, r)), s_ef(co(s)));
}
pub proof fn arm_eg(g: &SymbolicAsyncGraph, r: ISet<Pt>, s: ISet<Pt>, l: ISet<Pt>)
    requires gok(g), ok(g, r, s)
    ensures ok(g, eg_of(g, r, l), s_eg(s, l))
{
    reveal(wf_graph);
    reveal(gok);
    reveal(ok);
    lemma_eg_agree(g, r, s, l);
    lemma_eg_rebase(g, &base_graph(), s, l);
    assert forall|p: Pt| eg_of(g, r, l).contains(p) implies base_unit().contains(p) by {
        let z = choose|z: ISet<Pt>| eg_dense(g, r, l, z) && #[trigger] z.contains(p);
        assert(r.contains(p));
    }
}
pub proof fn arm_af(g: &SymbolicAsyncGraph, r: ISet<Pt>, s: ISet<Pt>, l: ISet<Pt>)
    requires gok(g), ok(g, r, s)
    ensures ok(g, af_of(g, r, l), s_af(s, l))
{
    reveal(wf_graph);
    reveal(gok);
    reveal(ok);
    arm_not(g, r, s);
    arm_eg(g, neg(g, r), co(s), l);
    arm_not(g, eg_of(g, neg(g, r), l), s_eg(co(s), l));
}
pub proof fn arm_au(g: &SymbolicAsyncGraph, r1: ISet<Pt>, s1: ISet<Pt>, r2: ISet<Pt>, s2: ISet<Pt>, l: ISet<Pt>)
    requires gok(g), ok(g, r1, s1), ok(g, r2, s2)
    ensures ok(g, au_of(g, r1, r2, l), s_au(s1, s2, l))
{
    reveal(wf_graph);
    reveal(gok);
    reveal(ok);
    let u = unit_of(g);
    let b = &base_graph();
    assert forall|p: Pt| u.contains(p) implies (au_of(g, r1, r2, l).contains(p) <==> s_au(s1, s2, l).contains(p)) by {
        if au_of(g, r1, r2, l).contains(p) {
            assert forall|z: ISet<Pt>| s_au_closed(s1, s2, l, z) implies #[trigger] z.contains(p) by {
                let z2 = ISet::new(|q: Pt| u.contains(q) ==> z.contains(q));
                assert(au_closed(g, r1, r2, l, z2)) by {
                    assert forall|q: Pt| r2.contains(q) implies z2.contains(q) by {
                        if u.contains(q) { lemma_agree_pt(r2, s2, u, q); }
                    }
                    assert forall|q: Pt| r1.intersect(ax_l(g, z2, l)).contains(q) implies z2.contains(q) by {
                        assert(u.contains(q));
                        lemma_agree_pt(r1, s1, u, q);
                        // q in s_ax(z, l)
                        if ex_l(b, co(z), l).contains(q) {
                            if pre_of(b, co(z)).contains(q) {
                                lemma_pre_rebase(g, b, co(z));
                                let v = choose|v: int| 0 <= v < dim_n() && #[trigger] var_pre_of(g, v, co(z)).contains(q);
                                let q2 = with_state(q, flip(q.s, v));
                                assert(u.contains(q2));
                                assert(neg(g, z2).contains(q2));
                                assert(var_pre_of(g, v, neg(g, z2)).contains(q));
                                assert(pre_of(g, neg(g, z2)).contains(q));
                            } else {
                                assert(neg(g, z2).intersect(l).contains(q));
                            }
                            assert(ex_l(g, neg(g, z2), l).contains(q));
                        }
                        assert(s1.intersect(s_ax(z, l)).contains(q));
                    }
                }
                assert(z2.contains(p));
            }
        }
        if s_au(s1, s2, l).contains(p) {
            assert forall|z: ISet<Pt>| au_closed(g, r1, r2, l, z) implies #[trigger] z.contains(p) by {
                let z2 = ISet::new(|q: Pt| u.contains(q) ==> z.contains(q));
                assert(s_au_closed(s1, s2, l, z2)) by {
                    assert forall|q: Pt| s2.contains(q) implies z2.contains(q) by {
                        if u.contains(q) { lemma_agree_pt(r2, s2, u, q); }
                    }
                    assert forall|q: Pt| s1.intersect(s_ax(z2, l)).contains(q) implies z2.contains(q) by {
                        if u.contains(q) {
                            lemma_agree_pt(r1, s1, u, q);
                            if ex_l(g, neg(g, z), l).contains(q) {
                                if pre_of(g, neg(g, z)).contains(q) {
                                    let v = choose|v: int| 0 <= v < dim_n() && #[trigger] var_pre_of(g, v, neg(g, z)).contains(q);
                                    let q2 = with_state(q, flip(q.s, v));
                                    assert(u.contains(q2) && !z.contains(q2));
                                    assert(co(z2).contains(q2));
                                    assert(var_pre_of(g, v, co(z2)).contains(q));
                                    assert(pre_of(g, co(z2)).contains(q));
                                    lemma_pre_rebase(g, b, co(z2));
                                } else {
                                    assert(co(z2).intersect(l).contains(q));
                                }
                                assert(ex_l(b, co(z2), l).contains(q));
                            }
                            assert(r1.intersect(ax_l(g, z, l)).contains(q));
                        }
                    }
                }
                assert(z2.contains(p));
            }
        }
    }
    lemma_agree_intro(au_of(g, r1, r2, l), s_au(s1, s2, l), u);
    assert(au_closed(g, r1, r2, l, base_unit()));
}
pub proof fn arm_ew(g: &SymbolicAsyncGraph, r1: ISet<Pt>, s1: ISet<Pt>, r2: ISet<Pt>, s2: ISet<Pt>, l: ISet<Pt>)
    requires gok(g), ok(g, r1, s1), ok(g, r2, s2)
    ensures ok(g, ew_spec(g, r1, r2, l), s_ew(s1, s2, l))
{
    reveal(wf_graph);
    reveal(gok);
    reveal(ok);
    let u = unit_of(g);
    assert(ok(g, within(g, r1), s1)) by {
        assert forall|p: Pt| u.contains(p) implies (within(g, r1).contains(p) <==> s1.contains(p)) by { lemma_agree_pt(r1, s1, u, p); }
        lemma_agree_intro(within(g, r1), s1, u);
    }
    assert(ok(g, within(g, r2), s2)) by {
        assert forall|p: Pt| u.contains(p) implies (within(g, r2).contains(p) <==> s2.contains(p)) by { lemma_agree_pt(r2, s2, u, p); }
        lemma_agree_intro(within(g, r2), s2, u);
    }
    arm_eu(g, within(g, r1), s1, within(g, r2), s2);
    arm_eg(g, within(g, r1), s1, l);
    arm_and_or(g, eu_of(g, within(g, r1), within(g, r2)), s_eu(s1, s2), eg_of(g, within(g, r1), l), s_eg(s1, l));
}
pub proof fn arm_aw(g: &SymbolicAsyncGraph, r1: ISet<Pt>, s1: ISet<Pt>, r2: ISet<Pt>, s2: ISet<Pt>)
    requires gok(g), ok(g, r1, s1), ok(g, r2, s2)
    ensures ok(g, aw_spec(g, r1, r2), s_aw(s1, s2))
{
    reveal(wf_graph);
    reveal(gok);
    reveal(ok);
    arm_not(g, r1, s1);
    arm_not(g, r2, s2);
    arm_and_or(g, neg(g, r1), co(s1), neg(g, r2), co(s2));
    arm_eu(g, neg(g, r2), co(s2), neg(g, r1).intersect(neg(g, r2)), co(s1).intersect(co(s2)));
    arm_not(g, eu_of(g, neg(g, r2), neg(g, r1).intersect(neg(g, r2))), s_eu(co(s2), co(s1).intersect(co(s2))));
}

// ---------------- hybrid operators without a domain
pub proof fn lemma_proj_slot_in_base(r: ISet<Pt>, k: int)
    requires wf_graph(&base_graph()), base_free(), 0 <= k < dim_k(), r.subset_of(base_unit())
    ensures proj_slot(r, k).subset_of(base_unit())
{
    reveal(wf_graph);
    assert(slot_free(&base_graph(), k));
    assert forall|p: Pt| proj_slot(r, k).contains(p) implies base_unit().contains(p) by {
        let q = choose|q: Pt| r.contains(q) && differ_slot(p, q, k);
        assert(unit_of(&base_graph()).contains(q));
        assert(differ_slot(q, p, k));
    }
}
pub proof fn arm_bind(g: &SymbolicAsyncGraph, r: ISet<Pt>, s: ISet<Pt>, k: int)
    requires gok(g), 0 <= k < dim_k(), slot_free(g, k), ok(g, r, s)
    ensures ok(g, proj_slot(comparator_state(g, k).intersect(r), k), bind_sem(s, k))
{
    reveal(wf_graph);
    reveal(gok);
    reveal(ok);
    let u = unit_of(g);
    assert forall|p: Pt| u.contains(p) implies (proj_slot(comparator_state(g, k).intersect(r), k).contains(p) <==> bind_sem(s, k).contains(p)) by {
        let p2 = with_slot(p, k, p.s);
        lemma_shaped_with_slot(p, k, p.s);
        assert(u.contains(p2));
        lemma_agree_pt(r, s, u, p2);
        if proj_slot(comparator_state(g, k).intersect(r), k).contains(p) {
            let q = choose|q: Pt| comparator_state(g, k).intersect(r).contains(q) && differ_slot(p, q, k);
            assert(shaped(q));
            lemma_differ_slot_is_with_slot(p, q, k);
            assert(q.e[k] =~= p.s);
            assert(q == p2);
        }
        if bind_sem(s, k).contains(p) {
            assert(eq_state(p2, k));
            assert(comparator_state(g, k).intersect(r).contains(p2));
        }
    }
    lemma_agree_intro(proj_slot(comparator_state(g, k).intersect(r), k), bind_sem(s, k), u);
    lemma_proj_slot_in_base(comparator_state(g, k).intersect(r), k);
}
pub proof fn arm_exists(g: &SymbolicAsyncGraph, r: ISet<Pt>, s: ISet<Pt>, k: int)
    requires gok(g), 0 <= k < dim_k(), slot_free(g, k), ok(g, r, s)
    ensures ok(g, proj_slot(r, k), exists_sem(s, k))
{
    reveal(wf_graph);
    reveal(gok);
    reveal(ok);
    let u = unit_of(g);
    assert forall|p: Pt| u.contains(p) implies (proj_slot(r, k).contains(p) <==> exists_sem(s, k).contains(p)) by {
        if proj_slot(r, k).contains(p) {
            let q = choose|q: Pt| r.contains(q) && differ_slot(p, q, k);
            assert(base_unit().contains(q));
            assert(shaped(q));
            lemma_differ_slot_is_with_slot(p, q, k);
            let v = q.e[k];
            assert(u.contains(q));
            lemma_agree_pt(r, s, u, q);
        }
        if exists_sem(s, k).contains(p) {
            let v = choose|v: Seq<bool>| v.len() == dim_n() && s.contains(with_slot(p, k, v));
            let p2 = with_slot(p, k, v);
            lemma_shaped_with_slot(p, k, v);
            assert(u.contains(p2));
            lemma_agree_pt(r, s, u, p2);
        }
    }
    lemma_agree_intro(proj_slot(r, k), exists_sem(s, k), u);
    lemma_proj_slot_in_base(r, k);
}
pub proof fn lemma_forall_dual(s: ISet<Pt>, k: int)
    requires 0 <= k < dim_k()
    ensures forall_sem(s, k) =~= co(exists_sem(co(s), k))
{
    assert forall|p: Pt| forall_sem(s, k).contains(p) <==> co(exists_sem(co(s), k)).contains(p) by {
        if shaped(p) {
            if forall_sem(s, k).contains(p) && exists_sem(co(s), k).contains(p) {
                let v = choose|v: Seq<bool>| v.len() == dim_n() && co(s).contains(with_slot(p, k, v));
                assert(s.contains(with_slot(p, k, v)));
            }
            if co(exists_sem(co(s), k)).contains(p) {
                assert forall|v: Seq<bool>| v.len() == dim_n() implies s.contains(with_slot(p, k, v)) by {
                    lemma_shaped_with_slot(p, k, v);
                    if !s.contains(with_slot(p, k, v)) { assert(co(s).contains(with_slot(p, k, v))); }
                }
            }
        }
    }
}
pub proof fn arm_forall(g: &SymbolicAsyncGraph, r: ISet<Pt>, s: ISet<Pt>, k: int)
    requires gok(g), 0 <= k < dim_k(), slot_free(g, k), ok(g, r, s)
    ensures ok(g, neg(g, proj_slot(neg(g, r), k)), forall_sem(s, k))
{
    reveal(wf_graph);
    reveal(gok);
    reveal(ok);
    arm_not(g, r, s);
    arm_exists(g, neg(g, r), co(s), k);
    arm_not(g, proj_slot(neg(g, r), k), exists_sem(co(s), k));
    lemma_forall_dual(s, k);
}
pub proof fn arm_jump(g: &SymbolicAsyncGraph, r: ISet<Pt>, s: ISet<Pt>, k: int)
    requires gok(g), 0 <= k < dim_k(), ok(g, r, s)
    ensures ok(g, proj_state(comparator_state(g, k).intersect(r)), jump_sem(s, k))
{
    reveal(wf_graph);
    reveal(gok);
    reveal(ok);
    let u = unit_of(g);
    let c = comparator_state(g, k).intersect(r);
    assert forall|p: Pt| u.contains(p) implies (proj_state(c).contains(p) <==> jump_sem(s, k).contains(p)) by {
        let p2 = with_state(p, p.e[k]);
        assert(u.contains(p2));
        lemma_agree_pt(r, s, u, p2);
        if proj_state(c).contains(p) {
            let q = choose|q: Pt| c.contains(q) && differ_state(p, q);
            assert(shaped(q));
            assert(q.s =~= q.e[k]);
            assert(q == p2);
        }
        if jump_sem(s, k).contains(p) {
            assert(eq_state(p2, k));
            assert(c.contains(p2));
            assert(differ_state(p, p2));
        }
    }
    lemma_agree_intro(proj_state(c), jump_sem(s, k), u);
    assert forall|p: Pt| proj_state(c).contains(p) implies base_unit().contains(p) by {
        let q = choose|q: Pt| c.contains(q) && differ_state(p, q);
        assert(base_unit().contains(q));
        assert(with_state(q, p.s) == p);
        assert(unit_of(&base_graph()).contains(with_state(q, p.s)));
    }
}

// ---------------- hybrid quantifiers with a restricted domain (C02)
// set computed by compute_valid_domain_for_var(g, D, x): valuations whose slot-k value is a state of D
pub open spec fn var_domain_set(g: &SymbolicAsyncGraph, k: int, d: ISet<Pt>) -> ISet<Pt> { proj_state(d.intersect(comparator_state(g, k))) }
pub open spec fn restricted(g2: &SymbolicAsyncGraph, g: &SymbolicAsyncGraph, k: int, d: ISet<Pt>) -> bool {
    unit_of(g2) == unit_of(g).intersect(var_domain_set(g, k, d)) && same_trans(g2, g)
}
pub proof fn lemma_var_domain_char(g: &SymbolicAsyncGraph, k: int, d: ISet<Pt>, p: Pt)
    requires gok(g), 0 <= k < dim_k(), unit_of(g).contains(p)
    ensures var_domain_set(g, k, d).contains(p) <==> d.contains(with_state(p, p.e[k]))
{
    reveal(wf_graph);
    reveal(gok);
    let p2 = with_state(p, p.e[k]);
    assert(unit_of(g).contains(p2));
    assert(shaped(p2));
    if var_domain_set(g, k, d).contains(p) {
        let q = choose|q: Pt| d.intersect(comparator_state(g, k)).contains(q) && differ_state(p, q);
        assert(shaped(q));
        assert(q.s =~= q.e[k]);
        assert(q == p2);
    }
    if d.contains(p2) {
        assert(eq_state(p2, k));
        assert(d.intersect(comparator_state(g, k)).contains(p2));
        assert(differ_state(p, p2));
    }
}
pub proof fn lemma_restricted_gok(g2: &SymbolicAsyncGraph, g: &SymbolicAsyncGraph, k: int, d: ISet<Pt>)
    requires gok(g), 0 <= k < dim_k(), restricted(g2, g, k, d), env_indep(d), has_network(g2)
    ensures
        gok(g2),
        forall|j: int| j != k && slot_free(g, j) ==> slot_free(g2, j),
{
    reveal(wf_graph);
    reveal(gok);
    assert forall|p: Pt, s: Seq<bool>| #![trigger unit_of(g2).contains(with_state(p, s))] unit_of(g2).contains(p) && s.len() == dim_n() implies unit_of(g2).contains(with_state(p, s)) by {
        let p2 = with_state(p, s);
        assert(unit_of(g).contains(p2));
        lemma_var_domain_char(g, k, d, p);
        lemma_var_domain_char(g, k, d, p2);
        assert(with_state(p2, p2.e[k]) == with_state(p, p.e[k]));
    }
    assert forall|j: int| j != k && slot_free(g, j) implies slot_free(g2, j) by {
        assert forall|p: Pt, q: Pt| #![trigger unit_of(g2).contains(p), differ_slot(p, q, j)] unit_of(g2).contains(p) && shaped(q) && differ_slot(p, q, j) implies unit_of(g2).contains(q) by {
            assert(unit_of(g).contains(q));
            lemma_var_domain_char(g, k, d, p);
            lemma_var_domain_char(g, k, d, q);
            let a = with_state(p, p.e[k]);
            let b = with_state(q, q.e[k]);
            assert(p.e[k] =~= q.e[k]);
            assert(shaped(b));
            assert(b.s == a.s && b.c == a.c);
        }
    }
}
pub proof fn arm_bind_dom(g2: &SymbolicAsyncGraph, g: &SymbolicAsyncGraph, r: ISet<Pt>, s: ISet<Pt>, k: int, d: ISet<Pt>)
    requires gok(g), 0 <= k < dim_k(), slot_free(g, k), restricted(g2, g, k, d), env_indep(d), ok(g2, r, s)
    ensures ok(g, proj_slot(comparator_state(g, k).intersect(r.intersect(unit_of(g2))), k), bind_dom_sem(s, k, d))
{
    reveal(wf_graph);
    reveal(gok);
    reveal(ok);
    let u = unit_of(g);
    let u2 = unit_of(g2);
    let c = comparator_state(g, k).intersect(r.intersect(u2));
    assert forall|p: Pt| u.contains(p) implies (proj_slot(c, k).contains(p) <==> bind_dom_sem(s, k, d).contains(p)) by {
        let p2 = with_slot(p, k, p.s);
        lemma_shaped_with_slot(p, k, p.s);
        assert(u.contains(p2));
        lemma_var_domain_char(g, k, d, p2);
        assert(with_state(p2, p2.e[k]) == p2);
        // d contains p2 <==> d contains p   (same state and colour)
        assert(p2.s == p.s && p2.c == p.c);
        if u2.contains(p2) { lemma_agree_pt(r, s, u2, p2); }
        if proj_slot(c, k).contains(p) {
            let q = choose|q: Pt| c.contains(q) && differ_slot(p, q, k);
            assert(shaped(q));
            lemma_differ_slot_is_with_slot(p, q, k);
            assert(q.e[k] =~= p.s);
            assert(q == p2);
        }
        if bind_dom_sem(s, k, d).contains(p) {
            assert(d.contains(p2));
            assert(eq_state(p2, k));
            assert(c.contains(p2));
        }
    }
    lemma_agree_intro(proj_slot(c, k), bind_dom_sem(s, k, d), u);
    lemma_proj_slot_in_base(c, k);
}
pub proof fn arm_exists_dom(g2: &SymbolicAsyncGraph, g: &SymbolicAsyncGraph, r: ISet<Pt>, s: ISet<Pt>, k: int, d: ISet<Pt>)
    requires gok(g), 0 <= k < dim_k(), slot_free(g, k), restricted(g2, g, k, d), env_indep(d), ok(g2, r, s)
    ensures ok(g, proj_slot(r.intersect(unit_of(g2)), k), exists_dom_sem(s, k, d))
{
    reveal(wf_graph);
    reveal(gok);
    reveal(ok);
    let u = unit_of(g);
    let u2 = unit_of(g2);
    let c = r.intersect(u2);
    assert forall|p: Pt| u.contains(p) implies (proj_slot(c, k).contains(p) <==> exists_dom_sem(s, k, d).contains(p)) by {
        if proj_slot(c, k).contains(p) {
            let q = choose|q: Pt| c.contains(q) && differ_slot(p, q, k);
            assert(shaped(q));
            lemma_differ_slot_is_with_slot(p, q, k);
            let v = q.e[k];
            lemma_agree_pt(r, s, u2, q);
            lemma_var_domain_char(g, k, d, q);
            let a = with_state(q, v);
            let b = with_state(p, v);
            assert(shaped(b));
            assert(b.s == a.s && b.c == a.c);
            assert(u2.contains(q));
            assert(d.contains(a));
            assert(d.contains(b));
            assert(v.len() == dim_n());
            assert(s.contains(with_slot(p, k, v)));
        }
        if exists_dom_sem(s, k, d).contains(p) {
            let v = choose|v: Seq<bool>| v.len() == dim_n() && d.contains(with_state(p, v)) && s.contains(with_slot(p, k, v));
            let q = with_slot(p, k, v);
            lemma_shaped_with_slot(p, k, v);
            assert(u.contains(q));
            lemma_var_domain_char(g, k, d, q);
            let a = with_state(p, v);
            let b = with_state(q, v);
            assert(shaped(b));
            assert(b.s == a.s && b.c == a.c);
            assert(d.contains(b));
            assert(u2.contains(q));
            lemma_agree_pt(r, s, u2, q);
            assert(c.contains(q));
        }
    }
    lemma_agree_intro(proj_slot(c, k), exists_dom_sem(s, k, d), u);
    lemma_proj_slot_in_base(c, k);
}
pub proof fn arm_forall_dom(g2: &SymbolicAsyncGraph, g: &SymbolicAsyncGraph, r: ISet<Pt>, s: ISet<Pt>, k: int, d: ISet<Pt>)
    requires gok(g), 0 <= k < dim_k(), slot_free(g, k), restricted(g2, g, k, d), env_indep(d), ok(g2, r, s)
    ensures ok(g, neg(g, proj_slot(neg(g2, r.intersect(unit_of(g2))), k)), forall_dom_sem(s, k, d))
{
    reveal(wf_graph);
    reveal(gok);
    reveal(ok);
    let u = unit_of(g);
    let u2 = unit_of(g2);
    let c = neg(g2, r.intersect(u2));
    assert forall|p: Pt| u.contains(p) implies (neg(g, proj_slot(c, k)).contains(p) <==> forall_dom_sem(s, k, d).contains(p)) by {
        if proj_slot(c, k).contains(p) && forall_dom_sem(s, k, d).contains(p) {
            let q = choose|q: Pt| c.contains(q) && differ_slot(p, q, k);
            assert(shaped(q));
            lemma_differ_slot_is_with_slot(p, q, k);
            let v = q.e[k];
            lemma_agree_pt(r, s, u2, q);
            lemma_var_domain_char(g, k, d, q);
            let a = with_state(q, v);
            let b = with_state(p, v);
            assert(shaped(b));
            assert(b.s == a.s && b.c == a.c);
            assert(d.contains(b));
            assert(s.contains(with_slot(p, k, v)));
        }
        if !proj_slot(c, k).contains(p) {
            assert forall|v: Seq<bool>| v.len() == dim_n() && d.contains(with_state(p, v)) implies s.contains(with_slot(p, k, v)) by {
                let q = with_slot(p, k, v);
                lemma_shaped_with_slot(p, k, v);
                assert(u.contains(q));
                lemma_var_domain_char(g, k, d, q);
                let a = with_state(p, v);
                let b = with_state(q, v);
                assert(shaped(b));
                assert(b.s == a.s && b.c == a.c);
                assert(u2.contains(q));
                lemma_agree_pt(r, s, u2, q);
                if !s.contains(q) { assert(c.contains(q)); }
            }
        }
    }
    lemma_agree_intro(neg(g, proj_slot(c, k)), forall_dom_sem(s, k, d), u);
}
pub proof fn arm_dom_empty(g: &SymbolicAsyncGraph, s: ISet<Pt>, k: int, d: ISet<Pt>)
    requires gok(g), 0 <= k < dim_k(), slot_free(g, k), env_indep(d), unit_of(g).intersect(var_domain_set(g, k, d)) == ISet::<Pt>::empty()
    ensures
        ok(g, ISet::<Pt>::empty(), bind_dom_sem(s, k, d)),
        ok(g, ISet::<Pt>::empty(), exists_dom_sem(s, k, d)),
        ok(g, unit_of(g), forall_dom_sem(s, k, d)),
{
    reveal(wf_graph);
    reveal(gok);
    reveal(ok);
    let u = unit_of(g);
    let e = u.intersect(var_domain_set(g, k, d));
    assert forall|p: Pt, v: Seq<bool>| u.contains(p) && v.len() == dim_n() implies !d.contains(with_state(p, v)) by {
        let q = with_slot(p, k, v);
        lemma_shaped_with_slot(p, k, v);
        assert(u.contains(q));
        lemma_var_domain_char(g, k, d, q);
        let a = with_state(p, v);
        let b = with_state(q, v);
        if d.contains(a) {
            assert(shaped(b));
            assert(b.s == a.s && b.c == a.c);
            assert(e.contains(q));
        }
    }
    assert forall|p: Pt| u.contains(p) implies !bind_dom_sem(s, k, d).contains(p) && !exists_dom_sem(s, k, d).contains(p) && forall_dom_sem(s, k, d).contains(p) by {
        assert(with_state(p, p.s) == p);
    }
    lemma_agree_intro(ISet::<Pt>::empty(), bind_dom_sem(s, k, d), u);
    lemma_agree_intro(ISet::<Pt>::empty(), exists_dom_sem(s, k, d), u);
    lemma_agree_intro(u, forall_dom_sem(s, k, d), u);
}

// ---------------- steady-state shortcut (C12): !{x}: AX {x}  is exactly "no outgoing transition"
pub proof fn arm_fixed_point(g: &SymbolicAsyncGraph, k: int)
    requires gok(g), 0 <= k < dim_k()
    ensures ok(g, steady_set(), bind_sem(s_ax(s_var(k), steady_set()), k))
{
    reveal(wf_graph);
    reveal(gok);
    reveal(ok);
    let u = unit_of(g);
    let b = &base_graph();
    let l = steady_set();
    assert forall|p: Pt| u.contains(p) implies (l.contains(p) <==> bind_sem(s_ax(s_var(k), l), k).contains(p)) by {
        let q = with_slot(p, k, p.s);
        lemma_shaped_with_slot(p, k, p.s);
        assert(eq_state(q, k));
        assert(s_var(k).contains(q));
        if has_succ(b, p) {
            let v = choose|v: int| 0 <= v < dim_n() && #[trigger] can_flip(b, v, p.s, p.c);
            let q2 = with_state(q, flip(q.s, v));
            assert(q2.e[k][v] != q2.s[v]);
            assert(!eq_state(q2, k));
            assert(shaped(q2));
            assert(co(s_var(k)).contains(q2));
            assert(var_pre_of(b, v, co(s_var(k))).contains(q));
            assert(pre_of(b, co(s_var(k))).contains(q));
        }
        if pre_of(b, co(s_var(k))).contains(q) {
            let v = choose|v: int| 0 <= v < dim_n() && #[trigger] var_pre_of(b, v, co(s_var(k))).contains(q);
            assert(can_flip(b, v, p.s, p.c));
        }
    }
    lemma_agree_intro(l, bind_sem(s_ax(s_var(k), l), k), u);
}

pub proof fn lemma_gok_facts(g: &SymbolicAsyncGraph)
    requires gok(g)
    ensures wf_graph(g), has_network(g), unit_of(g).subset_of(valid_colors()), sub_graph(g)
{
    reveal(gok);
}
