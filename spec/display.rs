// ======================================================================================
// R-display: the `impl fmt::Display` of the syntax types, verified against the rendering tables of spec/syntax.rs (disp_*), which are
// written from the property statement (C06) and used by `render`.  A Formatter is modelled as a text sink; `put` is the trusted
// model of `write!(f, ..)` = append the formatted text, return Ok.  That `x.to_string()` / `{x}` inside format! denote the text
// Display::fmt writes into an empty sink is the standard library's definition of ToString / format! (trusted, R-fmt-val / R-tostr).
// ======================================================================================
pub struct FmtSink { pub out: String }
impl FmtSink {
    #[verifier::external_body]
    pub fn put(&mut self, s: String) -> (r: Result<(), std::fmt::Error>)
        ensures r is Ok, final(self).out@ == old(self).out@ + s@
    { unimplemented!() }
}
//@dbgtable src/preprocessing/operator_enums.rs UnaryOp
//@dbgtable src/preprocessing/operator_enums.rs BinaryOp
