// ======================================================================================
// C09: "canonising a canonical form changes nothing".  The scanner is run a second time over what it produced; the two runs stay in
// lock-step: where the first run maps a variable to var<i>, the second maps var<i> to itself (`mirror`).
// TRUSTED: the decimal rendering of an integer contains no '}' (it consists of digits and possibly a sign).
// ======================================================================================
pub axiom fn axiom_dec_no_brace(k: int)
    ensures forall|i: int| 0 <= i < dec_digits_int(k).len() ==> #[trigger] dec_digits_int(k)[i] != '}';
pub open spec fn no_brace(s: Seq<char>) -> bool { forall|i: int| 0 <= i < s.len() ==> #[trigger] s[i] != '}' }
pub proof fn lemma_vname_no_brace(n: int)
    ensures no_brace(vname(n)), vname(n).len() >= 3
{
    reveal_strlit("var");
    axiom_dec_no_brace(n);
    let v = vname(n);
    assert forall|i: int| 0 <= i < v.len() implies #[trigger] v[i] != '}' by {
        if i >= 3 { assert(v[i] == dec_digits_int(n)[i - 3]); }
    }
}
pub proof fn lemma_until_concat(a: Seq<char>, b: Seq<char>)
    requires no_brace(a)
    ensures take_until(a + seq!['}'] + b) == a, drop_until(a + seq!['}'] + b) == b
    decreases a.len()
{
    let w = a + seq!['}'] + b;
    if a.len() == 0 {
        assert(w[0] == '}');
        assert(w.drop_first() =~= b);
        assert(a =~= Seq::<char>::empty());
    } else {
        assert(w[0] == a[0] && a[0] != '}');
        let a2 = a.drop_first();
        assert(w.drop_first() =~= a2 + seq!['}'] + b);
        assert forall|i: int| 0 <= i < a2.len() implies #[trigger] a2[i] != '}' by { assert(a2[i] == a[i + 1]); }
        lemma_until_concat(a2, b);
        assert(seq![a[0]] + a2 =~= a);
    }
}
// the second run's renaming mirrors the first one's
pub open spec fn mirror(m1: IMap<Seq<char>, Seq<char>>, m2: IMap<Seq<char>, Seq<char>>, n: int) -> bool {
    &&& forall|a: Seq<char>| #[trigger] m1.contains_key(a) ==> m2.contains_key(m1[a]) && m2[m1[a]] == m1[a]
    &&& forall|k: Seq<char>| #[trigger] m2.contains_key(k) ==> m2[k] == k && exists|i: int| 0 <= i < n && k == vname(i)
}
pub proof fn lemma_mirror_fresh(m1: IMap<Seq<char>, Seq<char>>, m2: IMap<Seq<char>, Seq<char>>, n: int)
    requires mirror(m1, m2, n)
    ensures !m2.contains_key(vname(n))
{
    if m2.contains_key(vname(n)) {
        let i = choose|i: int| 0 <= i < n && vname(n) == vname(i);
        lemma_vname_inj(n, i);
    }
}
pub proof fn lemma_mirror_bind(m1: IMap<Seq<char>, Seq<char>>, m2: IMap<Seq<char>, Seq<char>>, n: int, name: Seq<char>)
    requires mirror(m1, m2, n), ren_ok(m1, n), n >= 0
    ensures mirror(m1.insert(name, vname(n)), m2.insert(vname(n), vname(n)), n + 1)
{
    let a1 = m1.insert(name, vname(n)); let a2 = m2.insert(vname(n), vname(n));
    assert forall|a: Seq<char>| #[trigger] a1.contains_key(a) implies a2.contains_key(a1[a]) && a2[a1[a]] == a1[a] by {
        if a != name { assert(m1.contains_key(a)); assert(m2.contains_key(m1[a])); }
    }
    assert forall|k: Seq<char>| #[trigger] a2.contains_key(k) implies a2[k] == k && exists|i: int| 0 <= i < n + 1 && k == vname(i) by {
        if k == vname(n) { assert(0 <= n < n + 1 && k == vname(n)); }
        else { assert(m2.contains_key(k)); let i = choose|i: int| 0 <= i < n && k == vname(i); assert(0 <= i < n + 1 && k == vname(i)); }
    }
}
// what the first run appends to its output
pub open spec fn seg(st: SS, fuel: nat) -> Seq<char> { scan(st, fuel).out.subrange(st.out.len() as int, scan(st, fuel).out.len() as int) }
pub proof fn lemma_seg_step(st: SS, next: SS, piece: Seq<char>, f: nat, fn_: nat)
    requires next.out == st.out + piece, scan(st, f) == scan(next, fn_)
    ensures seg(st, f) == piece + seg(next, fn_)
{
    lemma_scan_prefix(next, fn_);
    let fin = scan(next, fn_).out;
    assert(fin.subrange(st.out.len() as int, fin.len() as int) =~= piece + fin.subrange(next.out.len() as int, fin.len() as int)) by {
        assert forall|i: int| 0 <= i < piece.len() implies fin[st.out.len() + i] == piece[i] by { assert(next.out[st.out.len() + i] == piece[i]); }
    }
}
// did the run end at a closing parenthesis of its own level?
pub open spec fn closed(st: SS, fuel: nat) -> bool decreases fuel {
    if fuel == 0 || st.rest.len() == 0 { false } else {
        let ch = st.rest[0];
        let r = st.rest.drop_first();
        let f1 = (fuel - 1) as nat;
        if ch == '(' { closed(scan(SS { rest: r, out: st.out.push('('), ..st }, f1), f1) }
        else if ch == ')' { true }
        else if is_quant(ch) && r.len() > 0 && r[0] == '{' {
            let r2 = r.drop_first();
            closed(SS { rest: drop_until(r2), out: st.out + seq![ch] + "{"@ + vname(st.n) + "}"@, m: st.m.insert(take_until(r2), vname(st.n)), n: st.n + 1 }, f1)
        } else if ch == '{' {
            let name = take_until(r);
            let m2 = if st.m.contains_key(name) { st.m } else { st.m.insert(name, vname(st.n)) };
            let n2 = if st.m.contains_key(name) { st.n } else { st.n + 1 };
            closed(SS { rest: drop_until(r), out: st.out + "{"@ + m2[name] + "}"@, m: m2, n: n2 }, f1)
        } else { closed(SS { rest: r, out: st.out.push(ch), ..st }, f1) }
    }
}
// the second run's renaming after the text produced by scan(st, fuel)
pub open spec fn mir(st: SS, m2: IMap<Seq<char>, Seq<char>>, fuel: nat) -> IMap<Seq<char>, Seq<char>> decreases fuel {
    if fuel == 0 || st.rest.len() == 0 { m2 } else {
        let ch = st.rest[0];
        let r = st.rest.drop_first();
        let f1 = (fuel - 1) as nat;
        if ch == '(' {
            let s1 = SS { rest: r, out: st.out.push('('), ..st };
            mir(scan(s1, f1), mir(s1, m2, f1), f1)
        } else if ch == ')' { m2 }
        else if is_quant(ch) && r.len() > 0 && r[0] == '{' {
            let r2 = r.drop_first();
            mir(SS { rest: drop_until(r2), out: st.out + seq![ch] + "{"@ + vname(st.n) + "}"@, m: st.m.insert(take_until(r2), vname(st.n)), n: st.n + 1 }, m2.insert(vname(st.n), vname(st.n)), f1)
        } else if ch == '{' {
            let name = take_until(r);
            let m1b = if st.m.contains_key(name) { st.m } else { st.m.insert(name, vname(st.n)) };
            let n2 = if st.m.contains_key(name) { st.n } else { st.n + 1 };
            let m2b = if st.m.contains_key(name) { m2 } else { m2.insert(vname(st.n), vname(st.n)) };
            mir(SS { rest: drop_until(r), out: st.out + "{"@ + m1b[name] + "}"@, m: m1b, n: n2 }, m2b, f1)
        } else { mir(SS { rest: r, out: st.out.push(ch), ..st }, m2, f1) }
    }
}
// a run ends at a closing parenthesis or at the end of the text
pub proof fn lemma_end(st: SS, fuel: nat)
    requires fuel >= st.rest.len()
    ensures closed(st, fuel) || scan(st, fuel).rest.len() == 0
    decreases fuel
{
    if fuel == 0 || st.rest.len() == 0 { } else {
        let ch = st.rest[0];
        let r = st.rest.drop_first();
        let f1 = (fuel - 1) as nat;
        if ch == '(' {
            let s1 = SS { rest: r, out: st.out.push('('), ..st };
            lemma_scan_shrinks(s1, f1);
            lemma_end(scan(s1, f1), f1);
        } else if ch == ')' {
        } else if is_quant(ch) && r.len() > 0 && r[0] == '{' {
            let r2 = r.drop_first();
            lemma_drop_until_len(r2);
            lemma_end(SS { rest: drop_until(r2), out: st.out + seq![ch] + "{"@ + vname(st.n) + "}"@, m: st.m.insert(take_until(r2), vname(st.n)), n: st.n + 1 }, f1);
        } else if ch == '{' {
            let name = take_until(r);
            let m2 = if st.m.contains_key(name) { st.m } else { st.m.insert(name, vname(st.n)) };
            let n2 = if st.m.contains_key(name) { st.n } else { st.n + 1 };
            lemma_drop_until_len(r);
            lemma_end(SS { rest: drop_until(r), out: st.out + "{"@ + m2[name] + "}"@, m: m2, n: n2 }, f1);
        } else {
            lemma_end(SS { rest: r, out: st.out.push(ch), ..st }, f1);
        }
    }
}
// the first character a run produces is the first character it reads
pub proof fn lemma_seg_first(st: SS, fuel: nat)
    requires st.rest.len() > 0, fuel >= st.rest.len()
    ensures seg(st, fuel).len() > 0, seg(st, fuel)[0] == st.rest[0]
{
    reveal_strlit("{");
    let ch = st.rest[0];
    let r = st.rest.drop_first();
    let f1 = (fuel - 1) as nat;
    if ch == '(' {
        let s1 = SS { rest: r, out: st.out.push('('), ..st };
        lemma_scan_prefix(s1, f1);
        lemma_scan_prefix(scan(s1, f1), f1);
        lemma_prefix_trans(s1.out, scan(s1, f1).out, scan(scan(s1, f1), f1).out);
        assert(s1.out[st.out.len() as int] == '(');
    } else if ch == ')' {
        assert(scan(st, fuel).out == st.out.push(')'));
    } else if is_quant(ch) && r.len() > 0 && r[0] == '{' {
        let r2 = r.drop_first();
        let s1 = SS { rest: drop_until(r2), out: st.out + seq![ch] + "{"@ + vname(st.n) + "}"@, m: st.m.insert(take_until(r2), vname(st.n)), n: st.n + 1 };
        lemma_scan_prefix(s1, f1);
        assert(s1.out[st.out.len() as int] == ch);
    } else if ch == '{' {
        let name = take_until(r);
        let m2 = if st.m.contains_key(name) { st.m } else { st.m.insert(name, vname(st.n)) };
        let n2 = if st.m.contains_key(name) { st.n } else { st.n + 1 };
        let s1 = SS { rest: drop_until(r), out: st.out + "{"@ + m2[name] + "}"@, m: m2, n: n2 };
        lemma_scan_prefix(s1, f1);
        assert(s1.out[st.out.len() as int] == '{');
    } else {
        let s1 = SS { rest: r, out: st.out.push(ch), ..st };
        lemma_scan_prefix(s1, f1);
        assert(s1.out[st.out.len() as int] == ch);
    }
}
pub proof fn lemma_out_split(st: SS, f: nat)
    ensures scan(st, f).out == st.out + seg(st, f)
{
    lemma_scan_prefix(st, f);
    assert(scan(st, f).out =~= st.out + seg(st, f));
}
pub open spec fn second(st: SS, f1: nat, o2: Seq<char>, m2: IMap<Seq<char>, Seq<char>>, tail: Seq<char>) -> SS {
    SS { rest: seg(st, f1) + tail, out: o2, m: m2, n: st.n }
}
pub open spec fn second_end(st: SS, f1: nat, o2: Seq<char>, m2: IMap<Seq<char>, Seq<char>>, tail: Seq<char>) -> SS {
    SS { rest: tail, out: o2 + seg(st, f1), m: mir(st, m2, f1), n: scan(st, f1).n }
}
// the lock-step lemma: scanning what the first run produced reproduces it, and the two renamings stay mirrors of each other
#[verifier::rlimit(200)] #[verifier::spinoff_prover]
pub proof fn lemma_idem(st: SS, f1: nat, o2: Seq<char>, m2: IMap<Seq<char>, Seq<char>>, tail: Seq<char>, f2: nat)
    requires
        f1 >= st.rest.len(), st.n >= 0, ren_ok(st.m, st.n), mirror(st.m, m2, st.n),
        closed(st, f1) || tail.len() == 0,
        f2 >= seg(st, f1).len() + tail.len(),
    ensures
        mirror(scan(st, f1).m, mir(st, m2, f1), scan(st, f1).n),
        scan(second(st, f1, o2, m2, tail), f2) == second_end(st, f1, o2, m2, tail),
    decreases f1
{
    reveal_strlit("{"); reveal_strlit("}");
    let st2 = second(st, f1, o2, m2, tail);
    if f1 == 0 || st.rest.len() == 0 {
        assert(seg(st, f1) =~= Seq::<char>::empty());
        assert(st2.rest =~= tail);
        assert(o2 + seg(st, f1) =~= o2);
    } else {
        let ch = st.rest[0];
        let r = st.rest.drop_first();
        let g1 = (f1 - 1) as nat;
        if ch == '(' {
            let s1 = SS { rest: r, out: st.out.push('('), ..st };
            let inner = scan(s1, g1);
            lemma_scan_shrinks(s1, g1);
            lemma_scan_ren(s1, g1);
            lemma_out_split(s1, g1);
            let piece1 = seq!['('] + seg(s1, g1);
            assert(inner.out =~= st.out + piece1);
            lemma_seg_step(st, inner, piece1, f1, g1);
            let tail1 = seg(inner, g1) + tail;
            lemma_end(s1, g1);
            if !closed(s1, g1) {
                assert(scan(inner, g1) == inner);
                assert(seg(inner, g1) =~= Seq::<char>::empty());
                assert(!closed(inner, g1));
                assert(closed(st, f1) == closed(inner, g1));
                assert(tail.len() == 0);
                assert(tail1 =~= Seq::<char>::empty());
            }
            assert(f2 >= 1);
            let g2 = (f2 - 1) as nat;
            let o2b = o2.push('(');
            assert(st2.rest =~= seq!['('] + (seg(s1, g1) + tail1));
            assert(st2.rest.drop_first() =~= seg(s1, g1) + tail1);
            lemma_idem(s1, g1, o2b, m2, tail1, g2);
            let inner2 = scan(second(s1, g1, o2b, m2, tail1), g2);
            assert(scan(st2, f2) == scan(inner2, g2));
            let o2c = o2b + seg(s1, g1);
            let m2c = mir(s1, m2, g1);
            assert(inner2 == second(inner, g1, o2c, m2c, tail));
            lemma_idem(inner, g1, o2c, m2c, tail, g2);
            assert(o2c + seg(inner, g1) =~= o2 + seg(st, f1));
        } else if ch == ')' {
            assert(scan(st, f1).out == st.out.push(')'));
            assert(seg(st, f1) =~= seq![')']);
            assert(st2.rest =~= seq![')'] + tail);
            assert(st2.rest.drop_first() =~= tail);
            assert(o2.push(')') =~= o2 + seg(st, f1));
        } else if is_quant(ch) && r.len() > 0 && r[0] == '{' {
            let r2 = r.drop_first();
            let name = take_until(r2);
            let piece = seq![ch] + "{"@ + vname(st.n) + "}"@;
            let next = SS { rest: drop_until(r2), out: st.out + seq![ch] + "{"@ + vname(st.n) + "}"@, m: st.m.insert(name, vname(st.n)), n: st.n + 1 };
            assert(next.out =~= st.out + piece);
            lemma_drop_until_len(r2);
            lemma_scan_fuel(next, g1, g1);
            lemma_seg_step(st, next, piece, f1, g1);
            lemma_ren_insert(st.m, st.n, name);
            lemma_mirror_bind(st.m, m2, st.n, name);
            lemma_vname_no_brace(st.n);
            let x = seg(next, g1) + tail;
            assert(st2.rest =~= seq![ch] + (seq!['{'] + (vname(st.n) + seq!['}'] + x)));
            let q = st2.rest.drop_first();
            assert(q =~= seq!['{'] + (vname(st.n) + seq!['}'] + x));
            assert(q[0] == '{');
            assert(q.drop_first() =~= vname(st.n) + seq!['}'] + x);
            lemma_until_concat(vname(st.n), x);
            let g2 = (f2 - 1) as nat;
            let m2b = m2.insert(vname(st.n), vname(st.n));
            let o2b = o2 + seq![ch] + "{"@ + vname(st.n) + "}"@;
            assert(scan(st2, f2) == scan(SS { rest: x, out: o2b, m: m2b, n: st.n + 1 }, g2));
            lemma_idem(next, g1, o2b, m2b, tail, g2);
            assert(o2b + seg(next, g1) =~= o2 + seg(st, f1));
        } else if ch == '{' {
            let name = take_until(r);
            let known = st.m.contains_key(name);
            let m1b = if known { st.m } else { st.m.insert(name, vname(st.n)) };
            let n2 = if known { st.n } else { st.n + 1 };
            let m2b = if known { m2 } else { m2.insert(vname(st.n), vname(st.n)) };
            let cn = m1b[name];
            let piece = "{"@ + cn + "}"@;
            let next = SS { rest: drop_until(r), out: st.out + "{"@ + cn + "}"@, m: m1b, n: n2 };
            assert(next.out =~= st.out + piece);
            lemma_drop_until_len(r);
            lemma_seg_step(st, next, piece, f1, g1);
            if !known { lemma_ren_insert(st.m, st.n, name); lemma_mirror_bind(st.m, m2, st.n, name); lemma_mirror_fresh(st.m, m2, st.n); lemma_vname_no_brace(st.n); }
            else {
                let i = choose|i: int| 0 <= i < st.n && st.m[name] == vname(i);
                lemma_vname_no_brace(i);
                assert(m2.contains_key(cn) && m2[cn] == cn);
            }
            let x = seg(next, g1) + tail;
            assert(st2.rest =~= seq!['{'] + (cn + seq!['}'] + x));
            assert(st2.rest.drop_first() =~= cn + seq!['}'] + x);
            lemma_until_concat(cn, x);
            let g2 = (f2 - 1) as nat;
            let o2b = o2 + "{"@ + cn + "}"@;
            assert(scan(st2, f2) == scan(SS { rest: x, out: o2b, m: m2b, n: n2 }, g2));
            lemma_idem(next, g1, o2b, m2b, tail, g2);
            assert(o2b + seg(next, g1) =~= o2 + seg(st, f1));
        } else {
            let next = SS { rest: r, out: st.out.push(ch), ..st };
            assert(next.out =~= st.out + seq![ch]);
            lemma_seg_step(st, next, seq![ch], f1, g1);
            let x = seg(next, g1) + tail;
            assert(st2.rest =~= seq![ch] + x);
            assert(st2.rest.drop_first() =~= x);
            // the second run also copies ch: it is not followed by '{' when it is a quantifier character
            if is_quant(ch) {
                if r.len() > 0 { lemma_seg_first(next, g1); assert(x[0] == r[0]); }
                else {
                    assert(scan(next, g1) == next);
                    assert(seg(next, g1) =~= Seq::<char>::empty());
                    assert(!closed(next, g1));
                    assert(closed(st, f1) == closed(next, g1));
                    assert(!closed(st, f1));
                    assert(x =~= Seq::<char>::empty());
                }
            }
            let g2 = (f2 - 1) as nat;
            let o2b = o2.push(ch);
            assert(scan(st2, f2) == scan(SS { rest: x, out: o2b, m: m2, n: st.n }, g2));
            lemma_idem(next, g1, o2b, m2, tail, g2);
            assert(o2b + seg(next, g1) =~= o2 + seg(st, f1));
        }
    }
}
// C09: canonising a canonical form changes nothing
pub proof fn lemma_canon_idempotent(s: Seq<char>)
    ensures canon_str(canon_str(s)) == canon_str(s)
{
    reveal(canon_str);
    let e = IMap::<Seq<char>, Seq<char>>::empty();
    let st = SS { rest: s, out: Seq::<char>::empty(), m: e, n: 0 };
    let c = scan(st, s.len()).out;
    assert(seg(st, s.len()) =~= c);
    lemma_end(st, s.len());
    // the first run may end at an unmatched ')' before the end of the text: whatever it produced is what is canonised again
    lemma_idem(st, s.len(), Seq::<char>::empty(), e, Seq::<char>::empty(), c.len());
    assert(second(st, s.len(), Seq::<char>::empty(), e, Seq::<char>::empty()).rest =~= c);
    assert(Seq::<char>::empty() + seg(st, s.len()) =~= c);
}
