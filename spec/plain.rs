// ======================================================================================
// C05: "the plain parser rejects wild-cards and domains": whatever the plain tokenizer accepts contains neither
// a wild-card proposition nor a domain, and neither does the tree built from it, nor the renamed tree.
// ======================================================================================
pub open spec fn stok_plain(t: STok) -> bool decreases t, 0int {
    match t {
        STok::Wild(_) => false,
        STok::Hybrid(_, _, d) => d is None,
        STok::Group(ts) => stoks_plain(ts),
        _ => true,
    }
}
pub open spec fn stoks_plain(ts: Seq<STok>) -> bool decreases ts, 1int {
    if ts.len() == 0 { true } else { stoks_plain(ts.subrange(0, ts.len() - 1)) && stok_plain(ts[ts.len() - 1]) }
}
pub proof fn lemma_stoks_plain_cons(t: STok, ts: Seq<STok>)
    requires stok_plain(t), stoks_plain(ts)
    ensures stoks_plain(seq![t] + ts)
    decreases ts.len()
{
    let w = seq![t] + ts;
    if ts.len() == 0 {
        assert(w.subrange(0, w.len() - 1) =~= Seq::<STok>::empty());
        assert(w[w.len() - 1] == t);
        assert(stoks_plain(Seq::<STok>::empty()));
    } else {
        let ts0 = ts.subrange(0, ts.len() - 1);
        lemma_stoks_plain_cons(t, ts0);
        assert(w.subrange(0, w.len() - 1) =~= seq![t] + ts0);
        assert(w[w.len() - 1] == ts[ts.len() - 1]);
    }
}
pub proof fn lemma_hdr_plain(s: Seq<char>)
    ensures lex_hdr(s, false) matches Some((n, d, r)) ==> d is None
{
}
pub proof fn lemma_lex_plain(s: Seq<char>, top: bool)
    ensures lex_group(s, top, false) matches Some((ts, r)) ==> stoks_plain(ts)
    decreases s.len()
{
    lemma_lex_group_unfold(s, top, false);
    if s.len() == 0 {
        assert(stoks_plain(Seq::<STok>::empty()));
    } else if is_white_space(s[0]) {
        lemma_lex_plain(s.drop_first(), top);
    } else if s[0] == ')' {
        assert(stoks_plain(Seq::<STok>::empty()));
    } else if s[0] == '(' {
        lemma_lex_plain(s.drop_first(), false);
        match lex_group(s.drop_first(), false, false) {
            Some((inner, r)) => {
                if r.len() < s.len() {
                    lemma_lex_plain(r, top);
                    match lex_group(r, top, false) {
                        Some((ts, r2)) => { lemma_stoks_plain_cons(STok::Group(inner), ts); },
                        None => {},
                    }
                }
            },
            None => {},
        }
    } else {
        match lex_one(s, false) {
            Some((tok, r)) => {
                if r.len() < s.len() {
                    lemma_lex_plain(r, top);
                    // a single token of the plain language is plain
                    assert(stok_plain(tok)) by {
                        lemma_hdr_plain(drop_name(s)); lemma_hdr_plain(s.drop_first()); lemma_hdr_plain(drop_name(s.drop_first()));
                    }
                    match lex_group(r, top, false) {
                        Some((ts, r2)) => { lemma_stoks_plain_cons(tok, ts); },
                        None => {},
                    }
                }
            },
            None => {},
        }
    }
}
// the parser builds wild-card atoms / domains only from wild-card tokens / domains
pub open spec fn toks_plain(ts: Seq<HctlToken>) -> bool { stoks_plain(view_toks(ts)) }
pub proof fn lemma_stoks_plain_index(ts: Seq<STok>, i: int)
    requires stoks_plain(ts), 0 <= i < ts.len()
    ensures stok_plain(ts[i])
    decreases ts.len()
{
    if i < ts.len() - 1 { lemma_stoks_plain_index(ts.subrange(0, ts.len() - 1), i); }
}
pub proof fn lemma_stoks_plain_from_index(ts: Seq<STok>)
    requires forall|i: int| 0 <= i < ts.len() ==> stok_plain(#[trigger] ts[i])
    ensures stoks_plain(ts)
    decreases ts.len()
{
    if ts.len() > 0 {
        let pre = ts.subrange(0, ts.len() - 1);
        assert forall|i: int| 0 <= i < pre.len() implies stok_plain(#[trigger] pre[i]) by { assert(pre[i] == ts[i]); }
        lemma_stoks_plain_from_index(pre);
    }
}
pub proof fn lemma_toks_plain_sub(ts: Seq<HctlToken>, a: int, b: int)
    requires toks_plain(ts), 0 <= a <= b <= ts.len()
    ensures toks_plain(ts.subrange(a, b))
{
    let sub = ts.subrange(a, b);
    lemma_view_toks_len(sub);
    lemma_view_toks_len(ts);
    assert forall|i: int| 0 <= i < view_toks(sub).len() implies stok_plain(#[trigger] view_toks(sub)[i]) by {
        lemma_view_toks_index(sub, i);
        lemma_view_toks_index(ts, a + i);
        lemma_stoks_plain_index(view_toks(ts), a + i);
    }
    lemma_stoks_plain_from_index(view_toks(sub));
}
pub proof fn lemma_tok_plain_at(ts: Seq<HctlToken>, i: int)
    requires toks_plain(ts), 0 <= i < ts.len()
    ensures stok_plain(view_tok(ts[i]))
{
    lemma_view_toks_index(ts, i);
    lemma_stoks_plain_index(view_toks(ts), i);
}
pub proof fn lemma_parse_plain(ts: Seq<HctlToken>, k: int)
    requires toks_plain(ts)
    ensures
        k == 10 ==> (sp_formula(ts) matches Some(t) ==> plain(t)),
        0 <= k <= 6 ==> (sp_level(ts, k) matches Some(t) ==> plain(t)),
        k == 7 ==> (sp_unary(ts) matches Some(t) ==> plain(t)),
        k == 8 ==> (sp_term(ts) matches Some(t) ==> plain(t)),
    decreases ts, (if k == 10 { 20int } else if 0 <= k <= 6 { 19 - k } else if k == 7 { 12int } else { 11int })
{
    if k == 10 {
        match first_idx(ts, -1) {
            Some(i) => {
                if i == 0 && ts.len() > 0 {
                    lemma_toks_plain_sub(ts, 1, ts.len() as int);
                    lemma_parse_plain(ts.subrange(1, ts.len() as int), 10);
                    lemma_tok_plain_at(ts, 0);
                }
            },
            None => { lemma_parse_plain(ts, 0); },
        }
    } else if 0 <= k <= 5 {
        match first_idx(ts, k) {
            Some(i) => {
                if 0 <= i < ts.len() {
                    lemma_toks_plain_sub(ts, 0, i);
                    lemma_toks_plain_sub(ts, i + 1, ts.len() as int);
                    lemma_parse_plain(ts.subrange(0, i), k + 1);
                    lemma_parse_plain(ts.subrange(i + 1, ts.len() as int), k);
                }
            },
            None => { lemma_parse_plain(ts, k + 1); },
        }
    } else if k == 6 {
        lemma_parse_plain(ts, 7);
    } else if k == 7 {
        match first_idx(ts, 6) {
            Some(i) => {
                if i == 0 && ts.len() > 0 {
                    lemma_toks_plain_sub(ts, 1, ts.len() as int);
                    lemma_parse_plain(ts.subrange(1, ts.len() as int), 7);
                }
            },
            None => { lemma_parse_plain(ts, 8); },
        }
    } else if k == 8 {
        if ts.len() == 1 {
            lemma_tok_plain_at(ts, 0);
            match ts[0] {
                HctlToken::Tokens(inner) => { lemma_parse_plain(inner@, 10); },
                _ => {},
            }
        }
    }
}
pub proof fn lemma_rename_plain(t: STree, m: IMap<Seq<char>, Seq<char>>, d: nat)
    requires plain(t)
    ensures plain(rename_spec(t, m, d))
    decreases t
{
    match t {
        STree::Term(_) => {},
        STree::Un(_, c) => { lemma_rename_plain(*c, m, d); },
        STree::Bin(_, a, b) => { lemma_rename_plain(*a, m, d); lemma_rename_plain(*b, m, d); },
        STree::Hyb(op, x, dd, c) => { if op is Jump { lemma_rename_plain(*c, m, d); } else { lemma_rename_plain(*c, m.insert(x, xs(d + 1)), d + 1); } },
    }
}

// ---- a preprocessed plain tree whose nesting depth the graph supports satisfies the evaluator's preconditions
pub open spec fn props_valid(t: STree) -> bool decreases t {
    match t {
        STree::Term(SAtom::Prop(n)) => prop_index(n) is Some,
        STree::Term(_) => true,
        STree::Un(_, c) => props_valid(*c),
        STree::Bin(_, a, b) => props_valid(*a) && props_valid(*b),
        STree::Hyb(_, _, _, c) => props_valid(*c),
    }
}
pub proof fn lemma_rename_props(t: STree, m: IMap<Seq<char>, Seq<char>>, d: nat)
    requires well_scoped(t, m.dom())
    ensures props_valid(rename_spec(t, m, d))
    decreases t
{
    match t {
        STree::Term(_) => {},
        STree::Un(_, c) => { lemma_rename_props(*c, m, d); },
        STree::Bin(_, a, b) => { lemma_rename_props(*a, m, d); lemma_rename_props(*b, m, d); },
        STree::Hyb(op, x, dd, c) => {
            if op is Jump { lemma_rename_props(*c, m, d); }
            else { assert(m.insert(x, xs(d + 1)).dom() =~= m.dom().insert(x)); lemma_rename_props(*c, m.insert(x, xs(d + 1)), d + 1); }
        },
    }
}
pub proof fn lemma_names_ok_canonical(t: STree, d: nat)
    requires canonical_names(t, d), qdepth(t, d) <= dim_k(), props_valid(t), plain(t), qdepth(t, d) <= usize::MAX
    ensures names_ok(t)
    decreases t
{
    lemma_qdepth_ge(t, d);
    match t {
        STree::Term(SAtom::Var(x)) => {
            let i = choose|i: nat| 1 <= i <= d && x == xs(i);
            lemma_slot_xs(i);
        },
        STree::Term(_) => {},
        STree::Un(_, c) => { lemma_names_ok_canonical(*c, d); },
        STree::Bin(_, a, b) => { lemma_qdepth_ge(*a, d); lemma_qdepth_ge(*b, d); lemma_names_ok_canonical(*a, d); lemma_names_ok_canonical(*b, d); },
        STree::Hyb(op, x, dd, c) => {
            if op is Jump {
                let i = choose|i: nat| 1 <= i <= d && x == xs(i);
                lemma_slot_xs(i);
                lemma_qdepth_ge(*c, d);
                lemma_names_ok_canonical(*c, d);
            } else {
                lemma_slot_xs(d + 1);
                lemma_qdepth_ge(*c, d + 1);
                lemma_names_ok_canonical(*c, d + 1);
            }
        },
    }
}
pub proof fn lemma_scope_canonical(t: STree, d: nat, busy: ISet<int>)
    requires canonical_names(t, d), forall|j: int| j >= d ==> !busy.contains(j)
    ensures scope_ok(t, busy)
    decreases t
{
    match t {
        STree::Term(_) => {},
        STree::Un(_, c) => { lemma_scope_canonical(*c, d, busy); },
        STree::Bin(_, a, b) => { lemma_scope_canonical(*a, d, busy); lemma_scope_canonical(*b, d, busy); },
        STree::Hyb(op, x, dd, c) => {
            if op is Jump { lemma_scope_canonical(*c, d, busy); }
            else {
                lemma_slot_xs(d + 1);
                lemma_scope_canonical(*c, d + 1, busy.insert(slot_name(x)));
            }
        },
    }
}
// on the graph handed to an entry point no slot is restricted
pub proof fn lemma_busy_empty(g: &SymbolicAsyncGraph)
    requires graph_ready(g)
    ensures forall|j: int| !busy_of(g).contains(j)
{
    reveal(gok); reveal(wf_graph);
    assert forall|j: int| slot_free(g, j) by {
        if 0 <= j < dim_k() {
            assert(slot_free(&base_graph(), j));
        } else {
            assert forall|p: Pt, q: Pt| #![trigger unit_of(g).contains(p), differ_slot(p, q, j)] unit_of(g).contains(p) && shaped(q) && differ_slot(p, q, j) implies unit_of(g).contains(q) by {
                assert(p.e =~= q.e) by {
                    assert forall|i: int| 0 <= i < dim_k() implies p.e[i] == q.e[i] by { assert(p.e[i] =~= q.e[i]); }
                }
                assert(p == q);
            }
        }
    }
}

// ---- acceptance of a formula text by the plain string entry points (C14: "an error is returned exactly when ...")
pub open spec fn supported(t: STree) -> bool { qdepth(t, 0) <= dim_k() }
pub open spec fn accepted(s: Seq<char>, ext: bool, t: STree) -> bool {
    lex(s, ext) matches Some(ts) && exists|toks: Seq<HctlToken>| #[trigger] view_toks(toks) == ts && (sp_formula(toks) matches Some(st)
        && well_scoped(st, ISet::<Seq<char>>::empty()) && t == rename_spec(st, IMap::<Seq<char>, Seq<char>>::empty(), 0) && supported(t))
}
pub open spec fn rejected(s: Seq<char>, ext: bool) -> bool {
    match lex(s, ext) {
        None => true,                                                 // not in the token language
        Some(ts) => exists|toks: Seq<HctlToken>| #[trigger] view_toks(toks) == ts && (match sp_formula(toks) {
            None => true,                                             // not derivable from the grammar
            Some(st) => !well_scoped(st, ISet::<Seq<char>>::empty())  // free / re-quantified variable, unknown proposition
                || !supported(rename_spec(st, IMap::<Seq<char>, Seq<char>>::empty(), 0)),   // not enough spare variable sets
        }),
    }
}
pub proof fn lemma_accepted_ready(s: Seq<char>, n: HctlTreeNode, g: &SymbolicAsyncGraph)
    requires graph_ready(g), wf(n), accepted(s, false, view_tree(n)), qdepth(view_tree(n), 0) <= usize::MAX
    ensures tree_ready(n, g), plain(view_tree(n))
{
    let t = view_tree(n);
    let ts = lex(s, false)->0;
    let toks = choose|toks: Seq<HctlToken>| #[trigger] view_toks(toks) == ts && (sp_formula(toks) matches Some(st)
        && well_scoped(st, ISet::<Seq<char>>::empty()) && t == rename_spec(st, IMap::<Seq<char>, Seq<char>>::empty(), 0) && supported(t));
    let st = sp_formula(toks)->0;
    let e = IMap::<Seq<char>, Seq<char>>::empty();
    assert(e.dom() =~= ISet::<Seq<char>>::empty());
    lemma_lex_plain(s, true);
    lemma_parse_plain(toks, 10);
    lemma_rename_plain(st, e, 0);
    lemma_rename_canonical(st, e, 0);
    lemma_rename_props(st, e, 0);
    lemma_names_ok_canonical(t, 0);
    lemma_busy_empty(g);
    lemma_scope_canonical(t, 0, busy_of(g));
}
// the result for an accepted formula text: it agrees with the semantics of the preprocessed formula (C01 / C03 / C04 at API level)
pub open spec fn result_ok(g: &SymbolicAsyncGraph, s: Seq<char>, ext: bool, r: ISet<Pt>) -> bool {
    exists|t: STree| accepted(s, ext, t) && #[trigger] ok(g, r, sem(t, steady_set()))
}
// the sanitised result: same points, expressed without auxiliary variables (C15)
pub open spec fn clean_result_ok(g: &SymbolicAsyncGraph, s: Seq<char>, ext: bool, r: &GraphColoredVertices) -> bool {
    result_ok(g, s, ext, gv(r)) && canonical_set(r)
}

// C05: "the extended parser yields the same tree as the plain one on every plain formula": on whatever the plain tokenizer
// accepts, the extended tokenizer returns the same tokens (the parser is the same function for both)
pub proof fn lemma_hdr_ext(s: Seq<char>)
    ensures lex_hdr(s, false) is Some ==> lex_hdr(s, true) == lex_hdr(s, false)
{
}
pub proof fn lemma_lex_ext(s: Seq<char>, top: bool)
    ensures lex_group(s, top, false) is Some ==> lex_group(s, top, true) == lex_group(s, top, false)
    decreases s.len()
{
    lemma_lex_group_unfold(s, top, false);
    lemma_lex_group_unfold(s, top, true);
    if s.len() == 0 {
    } else if is_white_space(s[0]) {
        lemma_lex_ext(s.drop_first(), top);
    } else if s[0] == ')' {
    } else if s[0] == '(' {
        lemma_lex_ext(s.drop_first(), false);
        match lex_group(s.drop_first(), false, false) {
            Some((inner, r)) => { if r.len() < s.len() { lemma_lex_ext(r, top); } },
            None => {},
        }
    } else {
        lemma_hdr_ext(drop_name(s)); lemma_hdr_ext(s.drop_first()); lemma_hdr_ext(drop_name(s.drop_first()));
        match lex_one(s, false) {
            Some((tok, r)) => {
                assert(lex_one(s, true) == lex_one(s, false));
                if r.len() < s.len() { lemma_lex_ext(r, top); }
            },
            None => {},
        }
    }
}

// size bounds for texts: every tree (vector) the texts are accepted as is small (see spec/size.rs)
pub open spec fn texts_small(fs: Seq<&str>, ext: bool) -> bool {
    forall|v: Seq<HctlTreeNode>| v.len() == fs.len() && (forall|i: int| 0 <= i < v.len() ==> accepted(fs[i]@, ext, view_tree(#[trigger] v[i])))
        ==> #[trigger] roots_total(v) < i32::MAX && (forall|i: int| 0 <= i < v.len() ==> rsmall(view_tree(#[trigger] v[i])))
}
pub open spec fn text_small(f: Seq<char>, ext: bool) -> bool { forall|t: STree| #[trigger] accepted(f, ext, t) ==> s_size(t) < i32::MAX && rsmall(t) }
pub proof fn lemma_text_small_single(f: &str, ext: bool, fs: Seq<&str>)
    requires text_small(f@, ext), fs.len() == 1, fs[0] == f
    ensures texts_small(fs, ext)
{
    assert forall|v: Seq<HctlTreeNode>| v.len() == fs.len() && (forall|i: int| 0 <= i < v.len() ==> accepted(fs[i]@, ext, view_tree(#[trigger] v[i])))
        implies #[trigger] roots_total(v) < i32::MAX && (forall|i: int| 0 <= i < v.len() ==> rsmall(view_tree(#[trigger] v[i]))) by {
        lemma_roots_single(v);
        assert(accepted(fs[0]@, ext, view_tree(v[0])));
    }
}
