// ======================================================================================
// The tree the grammar assigns to a token sequence depends only on the ABSTRACT tokens (view_toks): the specification of the string
// entry points quantifies over "some tokens with this view", and this lemma makes that choice immaterial -- a formula text has at most
// one preprocessed tree, and it cannot be accepted and rejected at the same time (C05 "the unique tree", C14 "exactly when").
// ======================================================================================
pub proof fn lemma_view_tok_class(x: HctlToken, y: HctlToken, k: int)
    requires view_tok(x) == view_tok(y)
    ensures in_class(x, k) == in_class(y, k)
{
}
pub proof fn lemma_view_toks_ext(a: Seq<HctlToken>, b: Seq<HctlToken>)
    requires a.len() == b.len(), forall|i: int| 0 <= i < a.len() ==> view_tok(#[trigger] a[i]) == view_tok(b[i])
    ensures view_toks(a) == view_toks(b)
    decreases a.len()
{
    if a.len() > 0 {
        let pa = a.subrange(0, a.len() - 1); let pb = b.subrange(0, b.len() - 1);
        assert forall|i: int| 0 <= i < pa.len() implies view_tok(#[trigger] pa[i]) == view_tok(pb[i]) by { assert(pa[i] == a[i] && pb[i] == b[i]); }
        lemma_view_toks_ext(pa, pb);
    }
}
pub proof fn lemma_view_pointwise(a: Seq<HctlToken>, b: Seq<HctlToken>)
    requires view_toks(a) == view_toks(b)
    ensures a.len() == b.len(), forall|i: int| 0 <= i < a.len() ==> view_tok(#[trigger] a[i]) == view_tok(b[i])
{
    lemma_view_toks_len(a); lemma_view_toks_len(b);
    assert forall|i: int| 0 <= i < a.len() implies view_tok(#[trigger] a[i]) == view_tok(b[i]) by {
        lemma_view_toks_index(a, i); lemma_view_toks_index(b, i);
    }
}
pub proof fn lemma_view_sub(a: Seq<HctlToken>, b: Seq<HctlToken>, i: int, j: int)
    requires view_toks(a) == view_toks(b), 0 <= i <= j <= a.len()
    ensures view_toks(a.subrange(i, j)) == view_toks(b.subrange(i, j))
{
    lemma_view_pointwise(a, b);
    let sa = a.subrange(i, j); let sb = b.subrange(i, j);
    assert forall|m: int| 0 <= m < sa.len() implies view_tok(#[trigger] sa[m]) == view_tok(sb[m]) by { assert(sa[m] == a[i + m] && sb[m] == b[i + m]); }
    lemma_view_toks_ext(sa, sb);
}
pub proof fn lemma_view_first(a: Seq<HctlToken>, b: Seq<HctlToken>, k: int)
    requires view_toks(a) == view_toks(b)
    ensures first_idx(a, k) == first_idx(b, k)
{
    lemma_view_pointwise(a, b);
    assert forall|i: int| 0 <= i < a.len() implies in_class(#[trigger] a[i], k) == in_class(b[i], k) by { lemma_view_tok_class(a[i], b[i], k); }
    if exists|i: int| first_at(a, k, i) {
        let i = choose|i: int| first_at(a, k, i);
        assert(first_at(b, k, i)) by {
            assert forall|j: int| 0 <= j < i implies !in_class(#[trigger] b[j], k) by { assert(in_class(a[j], k) == in_class(b[j], k)); }
        }
        lemma_first_some(a, k, i); lemma_first_some(b, k, i);
    } else {
        assert(none_at(a, k)) by {
            assert forall|j: int| 0 <= j < a.len() implies !in_class(#[trigger] a[j], k) by {
                if in_class(a[j], k) { lemma_exists_first(a, k, j); }
            }
        }
        assert(none_at(b, k)) by { assert forall|j: int| 0 <= j < b.len() implies !in_class(#[trigger] b[j], k) by { assert(in_class(a[j], k) == in_class(b[j], k)); } }
        lemma_first_none(a, k); lemma_first_none(b, k);
    }
}
// some token of the class exists => a first one exists
pub proof fn lemma_exists_first(ts: Seq<HctlToken>, k: int, j: int)
    requires 0 <= j < ts.len(), in_class(ts[j], k)
    ensures exists|i: int| first_at(ts, k, i)
    decreases j
{
    if forall|m: int| 0 <= m < j ==> !in_class(#[trigger] ts[m], k) {
        assert(first_at(ts, k, j));
    } else {
        let m = choose|m: int| 0 <= m < j && in_class(#[trigger] ts[m], k);
        lemma_exists_first(ts, k, m);
    }
}
pub proof fn lemma_sp_view(a: Seq<HctlToken>, b: Seq<HctlToken>, k: int)
    requires view_toks(a) == view_toks(b)
    ensures
        k == 10 ==> sp_formula(a) == sp_formula(b),
        0 <= k <= 6 ==> sp_level(a, k) == sp_level(b, k),
        k == 7 ==> sp_unary(a) == sp_unary(b),
        k == 8 ==> sp_term(a) == sp_term(b),
    decreases a, (if k == 10 { 20int } else if 0 <= k <= 6 { 19 - k } else if k == 7 { 12int } else { 11int })
{
    lemma_view_pointwise(a, b);
    if k == 10 {
        lemma_view_first(a, b, -1);
        match first_idx(a, -1) {
            Some(i) => {
                if i == 0 && a.len() > 0 {
                    lemma_view_sub(a, b, 1, a.len() as int);
                    lemma_sp_view(a.subrange(1, a.len() as int), b.subrange(1, b.len() as int), 10);
                    assert(view_tok(a[0]) == view_tok(b[0]));
                }
            },
            None => { lemma_sp_view(a, b, 0); },
        }
    } else if 0 <= k <= 5 {
        lemma_view_first(a, b, k);
        match first_idx(a, k) {
            Some(i) => {
                if 0 <= i < a.len() {
                    lemma_view_sub(a, b, 0, i);
                    lemma_view_sub(a, b, i + 1, a.len() as int);
                    lemma_sp_view(a.subrange(0, i), b.subrange(0, i), k + 1);
                    lemma_sp_view(a.subrange(i + 1, a.len() as int), b.subrange(i + 1, b.len() as int), k);
                    assert(view_tok(a[i]) == view_tok(b[i]));
                }
            },
            None => { lemma_sp_view(a, b, k + 1); },
        }
    } else if k == 6 {
        lemma_sp_view(a, b, 7);
    } else if k == 7 {
        lemma_view_first(a, b, 6);
        match first_idx(a, 6) {
            Some(i) => {
                if i == 0 && a.len() > 0 {
                    lemma_view_sub(a, b, 1, a.len() as int);
                    lemma_sp_view(a.subrange(1, a.len() as int), b.subrange(1, b.len() as int), 7);
                    assert(view_tok(a[0]) == view_tok(b[0]));
                }
            },
            None => { lemma_sp_view(a, b, 8); },
        }
    } else if k == 8 {
        if a.len() == 1 {
            assert(view_tok(a[0]) == view_tok(b[0]));
            match (a[0], b[0]) {
                (HctlToken::Tokens(va), HctlToken::Tokens(vb)) => { lemma_sp_view(va@, vb@, 10); },
                _ => {},
            }
        }
    }
}
// a formula text has at most one preprocessed tree ...
pub proof fn lemma_accepted_unique(s: Seq<char>, ext: bool, t1: STree, t2: STree)
    requires accepted(s, ext, t1), accepted(s, ext, t2)
    ensures t1 == t2
{
    let ts = lex(s, ext)->0;
    let e = IMap::<Seq<char>, Seq<char>>::empty();
    let k1 = choose|toks: Seq<HctlToken>| #[trigger] view_toks(toks) == ts && (sp_formula(toks) matches Some(st) && well_scoped(st, ISet::<Seq<char>>::empty()) && t1 == rename_spec(st, e, 0) && supported(t1));
    let k2 = choose|toks: Seq<HctlToken>| #[trigger] view_toks(toks) == ts && (sp_formula(toks) matches Some(st) && well_scoped(st, ISet::<Seq<char>>::empty()) && t2 == rename_spec(st, e, 0) && supported(t2));
    lemma_sp_view(k1, k2, 10);
}
// ... and is not accepted and rejected at the same time
pub proof fn lemma_accepted_not_rejected(s: Seq<char>, ext: bool, t: STree)
    requires accepted(s, ext, t)
    ensures !rejected(s, ext)
{
    let ts = lex(s, ext)->0;
    let e = IMap::<Seq<char>, Seq<char>>::empty();
    let k1 = choose|toks: Seq<HctlToken>| #[trigger] view_toks(toks) == ts && (sp_formula(toks) matches Some(st) && well_scoped(st, ISet::<Seq<char>>::empty()) && t == rename_spec(st, e, 0) && supported(t));
    if rejected(s, ext) {
        let k2 = choose|toks: Seq<HctlToken>| #[trigger] view_toks(toks) == ts && (match sp_formula(toks) {
            None => true,
            Some(st) => !well_scoped(st, ISet::<Seq<char>>::empty()) || !supported(rename_spec(st, e, 0)),
        });
        lemma_sp_view(k1, k2, 10);
    }
}
