// ======================================================================================
// Small general lemmas about the token language and the token views, shared by spec/plain.rs, spec/rewrites.rs, spec/labs.rs and
// the round trip files (spec/roundtrip*.rs).
// ======================================================================================
pub open spec fn name_str(s: Seq<char>) -> bool { forall|i: int| 0 <= i < s.len() ==> name_char(#[trigger] s[i]) }
pub proof fn lemma_view_toks_index(ts: Seq<HctlToken>, i: int)
    requires 0 <= i < ts.len()
    ensures view_toks(ts).len() == ts.len(), view_toks(ts)[i] == view_tok(ts[i])
    decreases ts.len()
{
    let pre = ts.subrange(0, ts.len() - 1);
    if ts.len() > 1 { lemma_view_toks_len(pre); }
    if i < ts.len() - 1 { lemma_view_toks_index(pre, i); assert(pre[i] == ts[i]); }
    else { lemma_view_toks_len(pre); }
}
pub proof fn lemma_view_toks_len(ts: Seq<HctlToken>)
    ensures view_toks(ts).len() == ts.len()
    decreases ts.len()
{
    if ts.len() > 0 { lemma_view_toks_len(ts.subrange(0, ts.len() - 1)); }
}
pub proof fn lemma_ws_front(s: Seq<char>, c: char, top: bool, ext: bool)
    requires is_white_space(c)
    ensures lex_group(seq![c] + s, top, ext) == lex_group(s, top, ext)
{
    let w = seq![c] + s;
    lemma_lex_group_unfold(w, top, ext);
    assert(w.drop_first() =~= s);
}
pub proof fn lemma_take_name_lit(lit: Seq<char>, r: Seq<char>)
    requires forall|i: int| 0 <= i < lit.len() ==> name_char(#[trigger] lit[i]), r.len() == 0 || !name_char(r[0])
    ensures take_name(lit + r) == lit, drop_name(lit + r) == r
    decreases lit.len()
{
    let w = lit + r;
    if lit.len() == 0 {
        assert(w =~= r);
        assert(take_name(w) =~= Seq::<char>::empty());
    } else {
        assert(w[0] == lit[0]);
        let lit2 = lit.drop_first();
        assert(w.drop_first() =~= lit2 + r);
        assert forall|i: int| 0 <= i < lit2.len() implies name_char(#[trigger] lit2[i]) by { assert(lit2[i] == lit[i + 1]); }
        lemma_take_name_lit(lit2, r);
        assert(seq![lit[0]] + lit2 =~= lit);
    }
}
pub proof fn lemma_take_name_str(s: Seq<char>)
    ensures name_str(take_name(s))
    decreases s.len()
{
    if s.len() > 0 && name_char(s[0]) {
        lemma_take_name_str(s.drop_first());
        let w = seq![s[0]] + take_name(s.drop_first());
        assert forall|i: int| 0 <= i < w.len() implies name_char(#[trigger] w[i]) by { if i > 0 { assert(w[i] == take_name(s.drop_first())[i - 1]); } }
    }
}
