// ======================================================================================
// S-GRAMMAR: the documented grammar as a function from token sequences to abstract trees,
// written from property C05 / the module comment of parser.rs:
//   hybrid operators bind weakest and are legal only at the start of a formula or group;
//   then <=>, =>, |, ^, & (weakest first), then binary temporal, then unary operators, then atoms
//   and parenthesised groups; every binary operator is right-associative ("split at the FIRST
//   token of the weakest class present"); a unary operator is legal only at the start of its operand.
// Every branch consumes ts[..i], ts[i], ts[i+1..] entirely: no token of an accepted input is ignored.
// ======================================================================================
pub open spec fn is_hybrid_tok(t: HctlToken) -> bool { t is Hybrid }
pub open spec fn is_unary_tok(t: HctlToken) -> bool { t is Unary }
pub open spec fn is_bin_temp_tok(t: HctlToken) -> bool {
    t matches HctlToken::Binary(op) && (op is EU || op is AU || op is EW || op is AW)
}
// token classes: -1 hybrid; boolean levels weakest first: 0 <=>, 1 =>, 2 |, 3 ^, 4 & ; 5 temporal binary ; 6 unary
pub open spec fn level_op(level: int) -> BinaryOp {
    if level == 0 { BinaryOp::Iff } else if level == 1 { BinaryOp::Imp } else if level == 2 { BinaryOp::Or } else if level == 3 { BinaryOp::Xor } else { BinaryOp::And }
}
pub open spec fn in_class(t: HctlToken, k: int) -> bool {
    if k == -1 { is_hybrid_tok(t) } else if k == 6 { is_unary_tok(t) } else if k == 5 { is_bin_temp_tok(t) } else { t == HctlToken::Binary(level_op(k)) }
}
pub open spec fn first_at(ts: Seq<HctlToken>, k: int, i: int) -> bool {
    0 <= i < ts.len() && in_class(ts[i], k) && forall|j: int| 0 <= j < i ==> !in_class(#[trigger] ts[j], k)
}
pub open spec fn none_at(ts: Seq<HctlToken>, k: int) -> bool {
    forall|j: int| 0 <= j < ts.len() ==> !in_class(#[trigger] ts[j], k)
}
pub open spec fn first_idx(ts: Seq<HctlToken>, k: int) -> Option<int> {
    if exists|i: int| first_at(ts, k, i) { Some(choose|i: int| first_at(ts, k, i)) } else { None }
}
pub proof fn lemma_first_some(ts: Seq<HctlToken>, k: int, i: int)
    requires first_at(ts, k, i)
    ensures first_idx(ts, k) == Some(i)
{
    let c = choose|c: int| first_at(ts, k, c);
    assert(first_at(ts, k, c));
    if c < i { assert(!in_class(ts[c], k)); }
    if i < c { assert(!in_class(ts[i], k)); }
}
pub proof fn lemma_first_none(ts: Seq<HctlToken>, k: int)
    requires none_at(ts, k)
    ensures first_idx(ts, k) is None
{
    if exists|i: int| first_at(ts, k, i) {
        let c = choose|c: int| first_at(ts, k, c);
        assert(!in_class(ts[c], k));
    }
}
pub proof fn lemma_first(ts: Seq<HctlToken>, k: int, r: Option<usize>)
    requires match r { Some(i) => first_at(ts, k, i as int), None => none_at(ts, k) }
    ensures match r { Some(i) => first_idx(ts, k) == Some(i as int), None => first_idx(ts, k) is None }
{
    match r { Some(i) => lemma_first_some(ts, k, i as int), None => lemma_first_none(ts, k) }
}

pub open spec fn sp_atom(a: Atomic) -> STree {
    match a {
        Atomic::Prop(name) =>
            if name@ == "true"@ || name@ == "True"@ || name@ == "1"@ { STree::Term(SAtom::True) }
            else if name@ == "false"@ || name@ == "False"@ || name@ == "0"@ { STree::Term(SAtom::False) }
            else { STree::Term(SAtom::Prop(name@)) },
        other => STree::Term(view_atom(other)),
    }
}

pub open spec fn sp_formula(ts: Seq<HctlToken>) -> Option<STree> decreases ts, 10int {
    match first_idx(ts, -1) {
        Some(i) => if i != 0 { None } else {
            match ts[0] {
                HctlToken::Hybrid(op, var, dom) => match sp_formula(ts.subrange(1, ts.len() as int)) {
                    Some(c) => Some(STree::Hyb(op, var@, view_opt(dom), Box::new(c))),
                    None => None,
                },
                _ => None,
            }
        },
        None => sp_level(ts, 0),
    }
}
pub open spec fn sp_level(ts: Seq<HctlToken>, level: int) -> Option<STree> decreases ts, 9 - level {
    if level < 0 || level > 6 { None }
    else if level == 6 { sp_unary(ts) }
    else {
        match first_idx(ts, level) {
            Some(i) => if !(0 <= i < ts.len()) { None } else {
                match (sp_level(ts.subrange(0, i), level + 1), sp_level(ts.subrange(i + 1, ts.len() as int), level), ts[i]) {
                    (Some(l), Some(r), HctlToken::Binary(op)) => Some(STree::Bin(op, Box::new(l), Box::new(r))),
                    _ => None,
                }
            },
            None => sp_level(ts, level + 1),
        }
    }
}
pub open spec fn sp_unary(ts: Seq<HctlToken>) -> Option<STree> decreases ts, 2int {
    match first_idx(ts, 6) {
        Some(i) => if i != 0 { None } else {
            match ts[0] {
                HctlToken::Unary(op) => match sp_unary(ts.subrange(1, ts.len() as int)) {
                    Some(c) => Some(STree::Un(op, Box::new(c))),
                    None => None,
                },
                _ => None,
            }
        },
        None => sp_term(ts),
    }
}
pub open spec fn sp_term(ts: Seq<HctlToken>) -> Option<STree> decreases ts, 1int {
    if ts.len() != 1 { None } else {
        match ts[0] {
            // constants are lexed as propositions; constant *tokens* are not part of the token language
            HctlToken::Atom(Atomic::True) => None,
            HctlToken::Atom(Atomic::False) => None,
            HctlToken::Atom(a) => Some(sp_atom(a)),
            HctlToken::Tokens(inner) => sp_formula(inner@),
            _ => None,
        }
    }
}

// ---- size of a token forest (bounds the tree height: machine arithmetic of `height + 1`)
pub open spec fn tok_size(ts: Seq<HctlToken>) -> nat decreases ts, 1int {
    if ts.len() == 0 { 0 } else { tok_size1(ts[0]) + tok_size(ts.subrange(1, ts.len() as int)) }
}
pub open spec fn tok_size1(t: HctlToken) -> nat decreases t, 0int {
    match t { HctlToken::Tokens(v) => 1 + tok_size(v@), _ => 1 }
}
pub proof fn lemma_tok_size_split(ts: Seq<HctlToken>, i: int)
    requires 0 <= i <= ts.len()
    ensures tok_size(ts) == tok_size(ts.subrange(0, i)) + tok_size(ts.subrange(i, ts.len() as int))
    decreases ts.len()
{
    if i == 0 {
        assert(ts.subrange(0, 0).len() == 0);
        assert(ts.subrange(0, ts.len() as int) == ts);
    } else {
        let tail = ts.subrange(1, ts.len() as int);
        lemma_tok_size_split(tail, i - 1);
        assert(tail.subrange(0, i - 1) == ts.subrange(0, i).subrange(1, i));
        assert(tail.subrange(i - 1, tail.len() as int) == ts.subrange(i, ts.len() as int));
        assert(ts.subrange(0, i)[0] == ts[0]);
    }
}
pub proof fn lemma_tok_size_at(ts: Seq<HctlToken>, i: int)
    requires 0 <= i < ts.len()
    ensures tok_size(ts) == tok_size(ts.subrange(0, i)) + tok_size1(ts[i]) + tok_size(ts.subrange(i + 1, ts.len() as int)),
            tok_size1(ts[i]) >= 1
{
    lemma_tok_size_split(ts, i);
    let rest = ts.subrange(i, ts.len() as int);
    assert(rest[0] == ts[i]);
    assert(rest.subrange(1, rest.len() as int) == ts.subrange(i + 1, ts.len() as int));
}

// result of a parsing function against the grammar: Ok(tree) iff the grammar derives the input, and then
// the tree is the one the grammar dictates and is internally consistent (C06)
pub open spec fn agrees(r: Result<HctlTreeNode, String>, s: Option<STree>, bound: nat) -> bool {
    match r {
        Ok(t) => wf(t) && s == Some(view_tree(t)) && t.height <= bound,
        Err(_) => s is None,
    }
}
pub proof fn lemma_tok_size_push(v: Seq<HctlToken>, t: HctlToken)
    ensures tok_size(v.push(t)) == tok_size(v) + tok_size1(t)
{
    let w = v.push(t);
    lemma_tok_size_split(w, v.len() as int);
    assert(w.subrange(0, v.len() as int) =~= v);
    let last = w.subrange(v.len() as int, w.len() as int);
    assert(last.len() == 1 && last[0] == t);
    assert(last.subrange(1, last.len() as int).len() == 0);
    reveal_with_fuel(tok_size, 3);
}
