// ======================================================================================
// C19: Shannon expansion of an unknown function into zero-arity parameters named by the argument valuation.
// ======================================================================================
pub open spec fn bch(b: bool) -> char { if b { '1' } else { '0' } }
pub open spec fn bstr(bits: Seq<bool>) -> Seq<char> { Seq::new(bits.len(), |i: int| bch(bits[i])) }
pub open spec fn evals(regs: Seq<FnUpdate>, vv: spec_fn(VariableId) -> bool, pi: spec_fn(ParameterId, Seq<bool>) -> bool) -> Seq<bool> {
    Seq::new(regs.len(), |i: int| feval(regs[i], vv, pi))
}
pub open spec fn grows(a: &BooleanNetwork, b: &BooleanNetwork) -> bool {
    &&& forall|nm: Seq<char>| #[trigger] ptab(a).contains_key(nm) ==> ptab(b).contains_key(nm) && ptab(b)[nm] == ptab(a)[nm]
    &&& forall|nm: Seq<char>| #[trigger] ptab(a).contains_key(nm) ==> pname(b, ptab(a)[nm]) == nm
    &&& same_vars(a, b)
}
pub open spec fn all_flat(regs: Seq<FnUpdate>) -> bool { forall|i: int| 0 <= i < regs.len() ==> is_flat(#[trigger] regs[i]) }
// the expansion of f(regs) with name prefix `pre`: every valuation string has its own constant, and the result evaluates to the
// constant selected by the values of the arguments
pub open spec fn exploded(r: FnUpdate, n: &BooleanNetwork, regs: Seq<FnUpdate>, pre: Seq<char>) -> bool {
    &&& forall|bits: Seq<bool>| bits.len() == regs.len() ==> ptab(n).contains_key(pre + #[trigger] bstr(bits))
    &&& forall|vv: spec_fn(VariableId) -> bool, pi: spec_fn(ParameterId, Seq<bool>) -> bool|
            #[trigger] feval(r, vv, pi) == pi(ptab(n)[pre + bstr(evals(regs, vv, pi))], Seq::<bool>::empty())
}
pub proof fn lemma_bstr_cons(b: bool, rest: Seq<bool>)
    ensures bstr(seq![b] + rest) =~= seq![bch(b)] + bstr(rest)
{
}
pub proof fn lemma_grows_trans(a: &BooleanNetwork, b: &BooleanNetwork, c: &BooleanNetwork)
    requires grows(a, b), grows(b, c)
    ensures grows(a, c)
{
    assert forall|nm: Seq<char>| #[trigger] ptab(a).contains_key(nm) implies ptab(c).contains_key(nm) && ptab(c)[nm] == ptab(a)[nm] && pname(c, ptab(a)[nm]) == nm by {
        assert(ptab(b).contains_key(nm));
    }
}
// semantics of the flattened function: an uninterpreted f(args) is the constant named f_<values of the args>
pub open spec fn fflat(f: FnUpdate, vv: spec_fn(VariableId) -> bool, pi: spec_fn(ParameterId, Seq<bool>) -> bool, n0: &BooleanNetwork, n: &BooleanNetwork) -> bool decreases f {
    match f {
        FnUpdate::Const(b) => b,
        FnUpdate::Var(x) => vv(x),
        FnUpdate::Param(id, args) => pi(ptab(n)[pname(n0, id) + "_"@ + bstr(Seq::new(args@.len(), |i: int| if 0 <= i < args@.len() { fflat(args@[i], vv, pi, n0, n) } else { false }))], Seq::<bool>::empty()),
        FnUpdate::Not(g) => !fflat(*g, vv, pi, n0, n),
        FnUpdate::Binary(op, l, r) => bop(op, fflat(*l, vv, pi, n0, n), fflat(*r, vv, pi, n0, n)),
    }
}
// one step of the Shannon expansion: r = (reg => t) & (!reg => f)
pub proof fn lemma_explode_step(n1: &BooleanNetwork, n2: &BooleanNetwork, regs: Seq<FnUpdate>, pre: Seq<char>, t: FnUpdate, f: FnUpdate, r: FnUpdate)
    requires
        regs.len() > 0,
        exploded(t, n1, regs.subrange(1, regs.len() as int), pre + "1"@),
        exploded(f, n2, regs.subrange(1, regs.len() as int), pre + "0"@),
        grows(n1, n2),
        forall|vv: spec_fn(VariableId) -> bool, pi: spec_fn(ParameterId, Seq<bool>) -> bool|
            #[trigger] feval(r, vv, pi) == ((!feval(regs[0], vv, pi) || feval(t, vv, pi)) && (feval(regs[0], vv, pi) || feval(f, vv, pi))),
    ensures exploded(r, n2, regs, pre)
{
    reveal_strlit("1"); reveal_strlit("0");
    let rest = regs.subrange(1, regs.len() as int);
    assert forall|bits: Seq<bool>| bits.len() == regs.len() implies ptab(n2).contains_key(pre + #[trigger] bstr(bits)) by {
        let tail = bits.subrange(1, bits.len() as int);
        assert(bits =~= seq![bits[0]] + tail);
        lemma_bstr_cons(bits[0], tail);
        if bits[0] {
            assert(pre + bstr(bits) =~= (pre + "1"@) + bstr(tail));
            assert(ptab(n1).contains_key((pre + "1"@) + bstr(tail)));
        } else {
            assert(pre + bstr(bits) =~= (pre + "0"@) + bstr(tail));
            assert(ptab(n2).contains_key((pre + "0"@) + bstr(tail)));
        }
    }
    assert forall|vv: spec_fn(VariableId) -> bool, pi: spec_fn(ParameterId, Seq<bool>) -> bool|
        #[trigger] feval(r, vv, pi) == pi(ptab(n2)[pre + bstr(evals(regs, vv, pi))], Seq::<bool>::empty()) by {
        let b = feval(regs[0], vv, pi);
        let tail = evals(rest, vv, pi);
        assert(evals(regs, vv, pi) =~= seq![b] + tail);
        lemma_bstr_cons(b, tail);
        if b {
            assert(pre + bstr(evals(regs, vv, pi)) =~= (pre + "1"@) + bstr(tail));
            assert(ptab(n1).contains_key((pre + "1"@) + bstr(tail)));
        } else {
            assert(pre + bstr(evals(regs, vv, pi)) =~= (pre + "0"@) + bstr(tail));
        }
    }
}
pub proof fn lemma_explode_base(n: &BooleanNetwork, pre: Seq<char>, id: ParameterId, r: FnUpdate, regs: Seq<FnUpdate>)
    requires regs.len() == 0, ptab(n).contains_key(pre), ptab(n)[pre] == id, r matches FnUpdate::Param(i, a) && i == id && a@.len() == 0
    ensures exploded(r, n, regs, pre), is_flat(r)
{
    assert forall|bits: Seq<bool>| bits.len() == regs.len() implies ptab(n).contains_key(pre + #[trigger] bstr(bits)) by { assert(pre + bstr(bits) =~= pre); }
    assert forall|vv: spec_fn(VariableId) -> bool, pi: spec_fn(ParameterId, Seq<bool>) -> bool|
        #[trigger] feval(r, vv, pi) == pi(ptab(n)[pre + bstr(evals(regs, vv, pi))], Seq::<bool>::empty()) by {
        assert(evals(regs, vv, pi) =~= Seq::<bool>::empty());
        assert(bstr(Seq::<bool>::empty()) =~= Seq::<char>::empty());
        assert(pre + bstr(evals(regs, vv, pi)) =~= pre);
        let a = r->Param_1;
        assert(r == FnUpdate::Param(id, a));
        assert(Seq::new(a@.len(), |i: int| if 0 <= i < a@.len() { feval(a@[i], vv, pi) } else { false }) =~= Seq::<bool>::empty());
        assert forall|s: Seq<bool>| s.len() == 0 implies #[trigger] pi(id, s) == pi(id, Seq::<bool>::empty()) by { assert(s =~= Seq::<bool>::empty()); }
        assert(feval(r, vv, pi) == pi(id, Seq::<bool>::empty()));
    }
}
// every parameter id of f is a parameter of the network
pub open spec fn params_valid(f: FnUpdate, n: &BooleanNetwork) -> bool decreases f {
    match f {
        FnUpdate::Const(_) => true,
        FnUpdate::Var(_) => true,
        FnUpdate::Param(id, args) => ptab(n).contains_key(pname(n, id)) && ptab(n)[pname(n, id)] == id
            && (forall|i: int| 0 <= i < args@.len() ==> params_valid(#[trigger] args@[i], n)),
        FnUpdate::Not(g) => params_valid(*g, n),
        FnUpdate::Binary(_, l, r) => params_valid(*l, n) && params_valid(*r, n),
    }
}
// every constant the flattened semantics of f can look up exists in n
pub open spec fn covered(f: FnUpdate, n0: &BooleanNetwork, n: &BooleanNetwork) -> bool decreases f {
    match f {
        FnUpdate::Const(_) => true,
        FnUpdate::Var(_) => true,
        FnUpdate::Param(id, args) => (forall|bits: Seq<bool>| bits.len() == args@.len() ==> ptab(n).contains_key(pname(n0, id) + "_"@ + #[trigger] bstr(bits)))
            && (forall|i: int| 0 <= i < args@.len() ==> covered(#[trigger] args@[i], n0, n)),
        FnUpdate::Not(g) => covered(*g, n0, n),
        FnUpdate::Binary(_, l, r) => covered(*l, n0, n) && covered(*r, n0, n),
    }
}
pub open spec fn flat_args(args: Seq<FnUpdate>, vv: spec_fn(VariableId) -> bool, pi: spec_fn(ParameterId, Seq<bool>) -> bool, n0: &BooleanNetwork, n: &BooleanNetwork) -> Seq<bool> {
    Seq::new(args.len(), |i: int| fflat(args[i], vv, pi, n0, n))
}
pub proof fn lemma_fflat_param(id: ParameterId, args: Vec<FnUpdate>, vv: spec_fn(VariableId) -> bool, pi: spec_fn(ParameterId, Seq<bool>) -> bool, n0: &BooleanNetwork, n: &BooleanNetwork)
    ensures fflat(FnUpdate::Param(id, args), vv, pi, n0, n) == pi(ptab(n)[pname(n0, id) + "_"@ + bstr(flat_args(args@, vv, pi, n0, n))], Seq::<bool>::empty())
{
    let fa = flat_args(args@, vv, pi, n0, n);
    assert forall|s: Seq<bool>| s.len() == args@.len() && (forall|i: int| 0 <= i < s.len() ==> s[i] == fflat(args@[i], vv, pi, n0, n)) implies #[trigger] bstr(s) == bstr(fa) by {
        assert(s =~= fa);
    }
}
pub proof fn lemma_covered_grow(f: FnUpdate, n0: &BooleanNetwork, n1: &BooleanNetwork, n2: &BooleanNetwork)
    requires covered(f, n0, n1), grows(n1, n2)
    ensures covered(f, n0, n2)
    decreases f
{
    match f {
        FnUpdate::Param(id, args) => {
            assert forall|bits: Seq<bool>| bits.len() == args@.len() implies ptab(n2).contains_key(pname(n0, id) + "_"@ + #[trigger] bstr(bits)) by {
                assert(ptab(n1).contains_key(pname(n0, id) + "_"@ + bstr(bits)));
            }
            assert forall|i: int| 0 <= i < args@.len() implies covered(#[trigger] args@[i], n0, n2) by { lemma_covered_grow(args@[i], n0, n1, n2); }
        },
        FnUpdate::Not(g) => { lemma_covered_grow(*g, n0, n1, n2); },
        FnUpdate::Binary(_, l, r) => { lemma_covered_grow(*l, n0, n1, n2); lemma_covered_grow(*r, n0, n1, n2); },
        _ => {},
    }
}
// later additions to the table do not change the flattened semantics
pub proof fn lemma_fflat_grow(f: FnUpdate, vv: spec_fn(VariableId) -> bool, pi: spec_fn(ParameterId, Seq<bool>) -> bool, n0: &BooleanNetwork, n1: &BooleanNetwork, n2: &BooleanNetwork)
    requires covered(f, n0, n1), grows(n1, n2)
    ensures fflat(f, vv, pi, n0, n1) == fflat(f, vv, pi, n0, n2)
    decreases f
{
    match f {
        FnUpdate::Param(id, args) => {
            lemma_fflat_param(id, args, vv, pi, n0, n1);
            lemma_fflat_param(id, args, vv, pi, n0, n2);
            assert forall|i: int| 0 <= i < args@.len() implies fflat(args@[i], vv, pi, n0, n1) == fflat(args@[i], vv, pi, n0, n2) by {
                assert(covered(args@[i], n0, n1));
                lemma_fflat_grow(args@[i], vv, pi, n0, n1, n2);
            }
            assert(flat_args(args@, vv, pi, n0, n1) =~= flat_args(args@, vv, pi, n0, n2));
            let bits = flat_args(args@, vv, pi, n0, n1);
            assert(ptab(n1).contains_key(pname(n0, id) + "_"@ + bstr(bits)));
        },
        FnUpdate::Not(g) => { lemma_fflat_grow(*g, vv, pi, n0, n1, n2); },
        FnUpdate::Binary(_, l, r) => { lemma_fflat_grow(*l, vv, pi, n0, n1, n2); lemma_fflat_grow(*r, vv, pi, n0, n1, n2); },
        _ => {},
    }
}
pub proof fn lemma_params_valid_grow(f: FnUpdate, n0: &BooleanNetwork, n1: &BooleanNetwork)
    requires params_valid(f, n0), grows(n0, n1)
    ensures params_valid(f, n1)
    decreases f
{
    match f {
        FnUpdate::Param(id, args) => {
            let nm = pname(n0, id);
            assert(ptab(n0).contains_key(nm));
            assert(pname(n1, id) == nm);
            assert forall|i: int| 0 <= i < args@.len() implies params_valid(#[trigger] args@[i], n1) by { lemma_params_valid_grow(args@[i], n0, n1); }
        },
        FnUpdate::Not(g) => { lemma_params_valid_grow(*g, n0, n1); },
        FnUpdate::Binary(_, l, r) => { lemma_params_valid_grow(*l, n0, n1); lemma_params_valid_grow(*r, n0, n1); },
        _ => {},
    }
}
// the names are those of the ORIGINAL network whichever later state of the table they are read from
pub proof fn lemma_fflat_base(f: FnUpdate, vv: spec_fn(VariableId) -> bool, pi: spec_fn(ParameterId, Seq<bool>) -> bool, n0: &BooleanNetwork, n1: &BooleanNetwork, n: &BooleanNetwork)
    requires params_valid(f, n0), grows(n0, n1)
    ensures fflat(f, vv, pi, n0, n) == fflat(f, vv, pi, n1, n), covered(f, n1, n) == covered(f, n0, n)
    decreases f
{
    match f {
        FnUpdate::Param(id, args) => {
            let nm = pname(n0, id);
            assert(ptab(n0).contains_key(nm));
            assert(pname(n1, id) == nm);
            lemma_fflat_param(id, args, vv, pi, n0, n);
            lemma_fflat_param(id, args, vv, pi, n1, n);
            assert forall|i: int| 0 <= i < args@.len() implies fflat(args@[i], vv, pi, n0, n) == fflat(args@[i], vv, pi, n1, n) && covered(args@[i], n1, n) == covered(args@[i], n0, n) by {
                lemma_fflat_base(args@[i], vv, pi, n0, n1, n);
            }
            assert(flat_args(args@, vv, pi, n0, n) =~= flat_args(args@, vv, pi, n1, n));
        },
        FnUpdate::Not(g) => { lemma_fflat_base(*g, vv, pi, n0, n1, n); },
        FnUpdate::Binary(_, l, r) => { lemma_fflat_base(*l, vv, pi, n0, n1, n); lemma_fflat_base(*r, vv, pi, n0, n1, n); },
        _ => {},
    }
}
// the arm of flatten_fn_update for an uninterpreted function f(args): args flattened first (repair of D12), then exploded
pub proof fn lemma_param_arm(f: FnUpdate, id: ParameterId, args: Vec<FnUpdate>, n0: &BooleanNetwork, nk: &BooleanNetwork, nf: &BooleanNetwork, fargs: Seq<FnUpdate>, r: FnUpdate)
    requires
        f == FnUpdate::Param(id, args), fargs.len() == args@.len(),
        grows(n0, nk), grows(nk, nf),
        forall|j: int| 0 <= j < args@.len() ==> covered(#[trigger] args@[j], n0, nk),
        forall|j: int, vv: spec_fn(VariableId) -> bool, pi: spec_fn(ParameterId, Seq<bool>) -> bool| 0 <= j < args@.len() ==>
            #[trigger] feval(fargs[j], vv, pi) == fflat(args@[j], vv, pi, n0, nk),
        exploded(r, nf, fargs, pname(n0, id) + "_"@),
    ensures
        covered(f, n0, nf),
        forall|vv: spec_fn(VariableId) -> bool, pi: spec_fn(ParameterId, Seq<bool>) -> bool| #[trigger] feval(r, vv, pi) == fflat(f, vv, pi, n0, nf),
{
    let pre = pname(n0, id) + "_"@;
    assert forall|j: int| 0 <= j < args@.len() implies covered(#[trigger] args@[j], n0, nf) by { lemma_covered_grow(args@[j], n0, nk, nf); }
    assert forall|bits: Seq<bool>| bits.len() == args@.len() implies ptab(nf).contains_key(pname(n0, id) + "_"@ + #[trigger] bstr(bits)) by {
        assert(ptab(nf).contains_key(pre + bstr(bits)));
    }
    assert forall|vv: spec_fn(VariableId) -> bool, pi: spec_fn(ParameterId, Seq<bool>) -> bool| #[trigger] feval(r, vv, pi) == fflat(f, vv, pi, n0, nf) by {
        lemma_fflat_param(id, args, vv, pi, n0, nf);
        assert(evals(fargs, vv, pi) =~= flat_args(args@, vv, pi, n0, nf)) by {
            assert forall|j: int| 0 <= j < args@.len() implies evals(fargs, vv, pi)[j] == flat_args(args@, vv, pi, n0, nf)[j] by {
                lemma_fflat_grow(args@[j], vv, pi, n0, nk, nf);
            }
        }
    }
}
// ======================================================================================
// "As the constants range over all Boolean values, the function ranges over exactly the instantiations of the input's function":
// the naming scheme name_ + bits is uniquely decodable, hence (A) every interpretation of the original parameters is matched by a choice
// of the constants, and (B) every choice of the constants is an interpretation of the original parameters.
// ======================================================================================
pub open spec fn cname(n0: &BooleanNetwork, id: ParameterId, bits: Seq<bool>) -> Seq<char> { pname(n0, id) + "_"@ + bstr(bits) }
pub proof fn lemma_decode(a1: Seq<char>, b1: Seq<bool>, a2: Seq<char>, b2: Seq<bool>)
    requires a1 + "_"@ + bstr(b1) == a2 + "_"@ + bstr(b2)
    ensures a1 == a2, b1 == b2
    decreases b1.len() + b2.len()
{
    reveal_strlit("_");
    let s1 = a1 + "_"@ + bstr(b1);
    let s2 = a2 + "_"@ + bstr(b2);
    assert(s1.len() == a1.len() + 1 + b1.len() && s2.len() == a2.len() + 1 + b2.len());
    if b1.len() > 0 && b2.len() > 0 {
        assert(s1.last() == bch(b1.last()) && s2.last() == bch(b2.last()));
        assert(b1.last() == b2.last());
        assert(s1.drop_last() =~= a1 + "_"@ + bstr(b1.drop_last()));
        assert(s2.drop_last() =~= a2 + "_"@ + bstr(b2.drop_last()));
        lemma_decode(a1, b1.drop_last(), a2, b2.drop_last());
        assert(b1 =~= b1.drop_last().push(b1.last()));
        assert(b2 =~= b2.drop_last().push(b2.last()));
    } else if b1.len() == 0 && b2.len() == 0 {
        assert(s1.drop_last() =~= a1);
        assert(s2.drop_last() =~= a2);
        assert(b1 =~= b2);
    } else if b1.len() == 0 {
        assert(s1.last() == '_' && s2.last() == bch(b2.last()));
    } else {
        assert(s2.last() == '_' && s1.last() == bch(b1.last()));
    }
}
// (B) a choice of the constants IS an interpretation of the original parameters
pub open spec fn pi_of(pc: spec_fn(ParameterId, Seq<bool>) -> bool, n0: &BooleanNetwork, n: &BooleanNetwork) -> spec_fn(ParameterId, Seq<bool>) -> bool {
    |id: ParameterId, bits: Seq<bool>| pc(ptab(n)[cname(n0, id, bits)], Seq::<bool>::empty())
}
pub proof fn lemma_constants_are_instantiations(f: FnUpdate, vv: spec_fn(VariableId) -> bool, pc: spec_fn(ParameterId, Seq<bool>) -> bool, n0: &BooleanNetwork, n: &BooleanNetwork)
    ensures fflat(f, vv, pc, n0, n) == feval(f, vv, pi_of(pc, n0, n))
    decreases f
{
    let pi = pi_of(pc, n0, n);
    match f {
        FnUpdate::Param(id, args) => {
            lemma_fflat_param(id, args, vv, pc, n0, n);
            assert forall|i: int| 0 <= i < args@.len() implies fflat(args@[i], vv, pc, n0, n) == feval(args@[i], vv, pi) by {
                lemma_constants_are_instantiations(args@[i], vv, pc, n0, n);
            }
            let fa = flat_args(args@, vv, pc, n0, n);
            assert forall|s: Seq<bool>| s.len() == args@.len() && (forall|i: int| 0 <= i < s.len() ==> s[i] == feval(args@[i], vv, pi)) implies #[trigger] pi(id, s) == pi(id, fa) by {
                assert(s =~= fa);
            }
        },
        FnUpdate::Not(g) => { lemma_constants_are_instantiations(*g, vv, pc, n0, n); },
        FnUpdate::Binary(_, l, r) => { lemma_constants_are_instantiations(*l, vv, pc, n0, n); lemma_constants_are_instantiations(*r, vv, pc, n0, n); },
        _ => {},
    }
}
// (A) every interpretation of the original parameters is matched by a choice of the constants
pub open spec fn is_const_of(q: ParameterId, id: ParameterId, bits: Seq<bool>, n0: &BooleanNetwork, n: &BooleanNetwork) -> bool {
    ptab(n0).contains_key(pname(n0, id)) && ptab(n0)[pname(n0, id)] == id && ptab(n).contains_key(cname(n0, id, bits)) && ptab(n)[cname(n0, id, bits)] == q
}
pub open spec fn pc_of(pi: spec_fn(ParameterId, Seq<bool>) -> bool, n0: &BooleanNetwork, n: &BooleanNetwork) -> spec_fn(ParameterId, Seq<bool>) -> bool {
    |q: ParameterId, s: Seq<bool>| {
        let w = choose|w: (ParameterId, Seq<bool>)| is_const_of(q, w.0, w.1, n0, n);
        pi(w.0, w.1)
    }
}
pub proof fn lemma_const_unique(q: ParameterId, id1: ParameterId, b1: Seq<bool>, id2: ParameterId, b2: Seq<bool>, n0: &BooleanNetwork, n: &BooleanNetwork)
    requires net_ok(n), is_const_of(q, id1, b1, n0, n), is_const_of(q, id2, b2, n0, n)
    ensures id1 == id2, b1 == b2
{
    // two names with the same id in a consistent table are the same name
    assert(pname(n, q) == cname(n0, id1, b1) && pname(n, q) == cname(n0, id2, b2));
    lemma_decode(pname(n0, id1), b1, pname(n0, id2), b2);
}
pub proof fn lemma_instantiations_are_constants(f: FnUpdate, vv: spec_fn(VariableId) -> bool, pi: spec_fn(ParameterId, Seq<bool>) -> bool, n0: &BooleanNetwork, n: &BooleanNetwork)
    requires net_ok(n), params_valid(f, n0), covered(f, n0, n)
    ensures fflat(f, vv, pc_of(pi, n0, n), n0, n) == feval(f, vv, pi)
    decreases f
{
    let pc = pc_of(pi, n0, n);
    match f {
        FnUpdate::Param(id, args) => {
            lemma_fflat_param(id, args, vv, pc, n0, n);
            assert forall|i: int| 0 <= i < args@.len() implies fflat(args@[i], vv, pc, n0, n) == feval(args@[i], vv, pi) by {
                lemma_instantiations_are_constants(args@[i], vv, pi, n0, n);
            }
            let fa = flat_args(args@, vv, pc, n0, n);
            assert(fa.len() == args@.len());
            assert(ptab(n).contains_key(pname(n0, id) + "_"@ + bstr(fa)));
            let q = ptab(n)[cname(n0, id, fa)];
            assert(is_const_of(q, id, fa, n0, n));
            let w = choose|w: (ParameterId, Seq<bool>)| is_const_of(q, w.0, w.1, n0, n);
            assert(is_const_of(q, (id, fa).0, (id, fa).1, n0, n));
            lemma_const_unique(q, id, fa, w.0, w.1, n0, n);
            assert(pc(q, Seq::<bool>::empty()) == pi(id, fa));
            assert forall|s: Seq<bool>| s.len() == args@.len() && (forall|i: int| 0 <= i < s.len() ==> s[i] == feval(args@[i], vv, pi)) implies #[trigger] pi(id, s) == pi(id, fa) by {
                assert(s =~= fa);
            }
        },
        FnUpdate::Not(g) => { lemma_instantiations_are_constants(*g, vv, pi, n0, n); },
        FnUpdate::Binary(_, l, r) => { lemma_instantiations_are_constants(*l, vv, pi, n0, n); lemma_instantiations_are_constants(*r, vv, pi, n0, n); },
        _ => {},
    }
}
pub open spec fn var_terms(regs: Seq<VariableId>) -> Seq<FnUpdate> { Seq::new(regs.len(), |i: int| FnUpdate::Var(regs[i])) }
pub proof fn lemma_fflat_same_tab(f: FnUpdate, vv: spec_fn(VariableId) -> bool, pi: spec_fn(ParameterId, Seq<bool>) -> bool, n0: &BooleanNetwork, n1: &BooleanNetwork, n2: &BooleanNetwork)
    requires ptab(n1) == ptab(n2)
    ensures fflat(f, vv, pi, n0, n1) == fflat(f, vv, pi, n0, n2)
    decreases f
{
    match f {
        FnUpdate::Param(id, args) => {
            lemma_fflat_param(id, args, vv, pi, n0, n1);
            lemma_fflat_param(id, args, vv, pi, n0, n2);
            assert forall|i: int| 0 <= i < args@.len() implies fflat(args@[i], vv, pi, n0, n1) == fflat(args@[i], vv, pi, n0, n2) by { lemma_fflat_same_tab(args@[i], vv, pi, n0, n1, n2); }
            assert(flat_args(args@, vv, pi, n0, n1) =~= flat_args(args@, vv, pi, n0, n2));
        },
        FnUpdate::Not(g) => { lemma_fflat_same_tab(*g, vv, pi, n0, n1, n2); },
        FnUpdate::Binary(_, l, r) => { lemma_fflat_same_tab(*l, vv, pi, n0, n1, n2); lemma_fflat_same_tab(*r, vv, pi, n0, n1, n2); },
        _ => {},
    }
}
