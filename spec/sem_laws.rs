// ======================================================================================
// Lemmas over the semantics that property statements mention explicitly.
// ======================================================================================
// C18: the set of self-loop states cannot matter for formulae without EX, AX, AF, EG, AU, EW
pub proof fn lemma_loop_insensitive(t: STree, l1: ISet<Pt>, l2: ISet<Pt>)
    requires loop_insensitive(t)
    ensures sem(t, l1) == sem(t, l2)
    decreases t
{
    match t {
        STree::Term(_) => {},
        STree::Un(op, c) => { lemma_loop_insensitive(*c, l1, l2); },
        STree::Bin(op, a, b) => { lemma_loop_insensitive(*a, l1, l2); lemma_loop_insensitive(*b, l1, l2); },
        STree::Hyb(op, x, d, c) => { lemma_loop_insensitive(*c, l1, l2); },
    }
}
// C18: on a network without steady states the two variants are the same call
pub proof fn lemma_no_steady_states()
    requires steady_set() == ISet::<Pt>::empty()
    ensures forall|t: STree| #[trigger] sem(t, steady_set()) == sem(t, ISet::<Pt>::empty())
{
}

// C02: the three equivalences of the README, for every body formula
//   !{x} in %A%: phi        ==  !{x}: %A% & phi
//   3{x} in %A%: @{x}: phi  ==  3{x}: @{x}: %A% & phi
//   V{x} in %A%: @{x}: phi  ==  V{x}: @{x}: %A% => phi
pub proof fn lemma_readme_bind(phi: STree, x: Seq<char>, a: Seq<char>, l: ISet<Pt>)
    requires valid_name(x), env_indep(wc_set(a))
    ensures
        sem(STree::Hyb(HybridOp::Bind, x, Some(a), Box::new(phi)), l)
            == sem(STree::Hyb(HybridOp::Bind, x, None, Box::new(STree::Bin(BinaryOp::And, Box::new(STree::Term(SAtom::Wild(a))), Box::new(phi)))), l)
{
    let k = slot_name(x);
    let d = wc_set(a);
    let s = sem(phi, l);
    reveal_with_fuel(sem, 3);
    assert forall|p: Pt| bind_dom_sem(s, k, d).contains(p) <==> bind_sem(d.intersect(s), k).contains(p) by {
        if shaped(p) {
            let q = with_slot(p, k, p.s);
            lemma_shaped_with_slot(p, k, p.s);
            assert(q.s == p.s && q.c == p.c);
        }
    }
    assert(bind_dom_sem(s, k, d) =~= bind_sem(d.intersect(s), k));
}
pub proof fn lemma_readme_exists(phi: STree, x: Seq<char>, a: Seq<char>, l: ISet<Pt>)
    requires valid_name(x), env_indep(wc_set(a))
    ensures
        sem(STree::Hyb(HybridOp::Exists, x, Some(a), Box::new(STree::Hyb(HybridOp::Jump, x, None, Box::new(phi)))), l)
            == sem(STree::Hyb(HybridOp::Exists, x, None, Box::new(STree::Hyb(HybridOp::Jump, x, None,
                    Box::new(STree::Bin(BinaryOp::And, Box::new(STree::Term(SAtom::Wild(a))), Box::new(phi)))))), l)
{
    let k = slot_name(x);
    let d = wc_set(a);
    let s = sem(phi, l);
    reveal_with_fuel(sem, 4);
    let lhs = exists_dom_sem(jump_sem(s, k), k, d);
    let rhs = exists_sem(jump_sem(d.intersect(s), k), k);
    assert forall|p: Pt| lhs.contains(p) <==> rhs.contains(p) by {
        if shaped(p) {
            if lhs.contains(p) {
                let v = choose|v: Seq<bool>| v.len() == dim_n() && d.contains(with_state(p, v)) && jump_sem(s, k).contains(with_slot(p, k, v));
                let q = with_slot(p, k, v);
                lemma_shaped_with_slot(p, k, v);
                let q2 = with_state(q, q.e[k]);
                let p2 = with_state(p, v);
                assert(shaped(q2));
                assert(q2.s == p2.s && q2.c == p2.c);
                assert(d.contains(q2));
                assert(jump_sem(d.intersect(s), k).contains(q));
            }
            if rhs.contains(p) {
                let v = choose|v: Seq<bool>| v.len() == dim_n() && jump_sem(d.intersect(s), k).contains(with_slot(p, k, v));
                let q = with_slot(p, k, v);
                lemma_shaped_with_slot(p, k, v);
                let q2 = with_state(q, q.e[k]);
                let p2 = with_state(p, v);
                assert(shaped(p2));
                assert(q2.s == p2.s && q2.c == p2.c);
                assert(d.contains(p2));
                assert(jump_sem(s, k).contains(q));
            }
        }
    }
    assert(lhs =~= rhs);
}
pub proof fn lemma_readme_forall(phi: STree, x: Seq<char>, a: Seq<char>, l: ISet<Pt>)
    requires valid_name(x), env_indep(wc_set(a))
    ensures
        sem(STree::Hyb(HybridOp::Forall, x, Some(a), Box::new(STree::Hyb(HybridOp::Jump, x, None, Box::new(phi)))), l)
            == sem(STree::Hyb(HybridOp::Forall, x, None, Box::new(STree::Hyb(HybridOp::Jump, x, None,
                    Box::new(STree::Bin(BinaryOp::Imp, Box::new(STree::Term(SAtom::Wild(a))), Box::new(phi)))))), l)
{
    let k = slot_name(x);
    let d = wc_set(a);
    let s = sem(phi, l);
    reveal_with_fuel(sem, 4);
    let lhs = forall_dom_sem(jump_sem(s, k), k, d);
    let rhs = forall_sem(jump_sem(co(d).union(s), k), k);
    assert forall|p: Pt| lhs.contains(p) <==> rhs.contains(p) by {
        if shaped(p) {
            if lhs.contains(p) {
                assert forall|v: Seq<bool>| v.len() == dim_n() implies jump_sem(co(d).union(s), k).contains(with_slot(p, k, v)) by {
                    let q = with_slot(p, k, v);
                    lemma_shaped_with_slot(p, k, v);
                    let q2 = with_state(q, q.e[k]);
                    let p2 = with_state(p, v);
                    assert(shaped(q2) && shaped(p2));
                    assert(q2.s == p2.s && q2.c == p2.c);
                    if d.contains(q2) { assert(d.contains(p2)); assert(jump_sem(s, k).contains(q)); }
                }
            }
            if rhs.contains(p) {
                assert forall|v: Seq<bool>| v.len() == dim_n() && d.contains(with_state(p, v)) implies jump_sem(s, k).contains(with_slot(p, k, v)) by {
                    let q = with_slot(p, k, v);
                    lemma_shaped_with_slot(p, k, v);
                    let q2 = with_state(q, q.e[k]);
                    let p2 = with_state(p, v);
                    assert(shaped(q2));
                    assert(q2.s == p2.s && q2.c == p2.c);
                    assert(d.contains(q2));
                    assert(jump_sem(co(d).union(s), k).contains(q));
                }
            }
        }
    }
    assert(lhs =~= rhs);
}
