// ======================================================================================
// S-CTX: preconditions on the tree handed to eval_node, the invariant of the evaluation context
// (stage 1: the duplicate table only holds wild-card propositions, i.e. sub-formula sharing is off),
// and the abstract contract of the canonical key.
// ======================================================================================
pub open spec fn valid_name(x: Seq<char>) -> bool { 1 <= encode_utf8(x).len() <= usize::MAX && slot_name(x) < dim_k() }
pub open spec fn plain_char(c: char) -> bool { c != '(' && c != ')' && c != '{' && c != '}' && c != '%' && c != '!' }
pub open spec fn plain_name(s: Seq<char>) -> bool { forall|i: int| 0 <= i < s.len() ==> plain_char(#[trigger] s[i]) }
// names: HCTL variables have a slot in the graph, propositions are network variables, labels are plain
pub open spec fn names_ok(t: STree) -> bool decreases t {
    match t {
        STree::Term(SAtom::Var(x)) => valid_name(x),
        STree::Term(SAtom::Prop(n)) => prop_index(n) is Some,
        STree::Term(SAtom::Wild(p)) => plain_name(p),
        STree::Term(_) => true,
        STree::Un(_, c) => names_ok(*c),
        STree::Bin(_, a, b) => names_ok(*a) && names_ok(*b),
        STree::Hyb(_, x, d, c) => valid_name(x) && names_ok(*c) && (d matches Some(l) ==> plain_name(l)),
    }
}
// scoping: a quantifier never re-uses the slot of an enclosing quantifier (names x, xx, xxx, ... by depth)
pub open spec fn scope_ok(t: STree, busy: ISet<int>) -> bool decreases t {
    match t {
        STree::Term(_) => true,
        STree::Un(_, c) => scope_ok(*c, busy),
        STree::Bin(_, a, b) => scope_ok(*a, busy) && scope_ok(*b, busy),
        STree::Hyb(op, x, d, c) => if op is Jump { scope_ok(*c, busy) } else { !busy.contains(slot_name(x)) && scope_ok(*c, busy.insert(slot_name(x))) },
    }
}
pub open spec fn busy_of(g: &SymbolicAsyncGraph) -> ISet<int> { ISet::new(|k: int| !slot_free(g, k)) }
pub proof fn lemma_scope_mono(t: STree, b1: ISet<int>, b2: ISet<int>)
    requires scope_ok(t, b1), b2.subset_of(b1)
    ensures scope_ok(t, b2)
    decreases t
{
    match t {
        STree::Term(_) => {},
        STree::Un(_, c) => { lemma_scope_mono(*c, b1, b2); },
        STree::Bin(_, a, b) => { lemma_scope_mono(*a, b1, b2); lemma_scope_mono(*b, b1, b2); },
        STree::Hyb(op, x, d, c) => {
            if op is Jump { lemma_scope_mono(*c, b1, b2); }
            else { lemma_scope_mono(*c, b1.insert(slot_name(x)), b2.insert(slot_name(x))); }
        },
    }
}
// formulae on which the set of self-loop states cannot matter (C18)
pub open spec fn loop_insensitive(t: STree) -> bool decreases t {
    match t {
        STree::Term(_) => true,
        STree::Un(op, c) => !(op is EX || op is AX || op is AF || op is EG) && loop_insensitive(*c),
        STree::Bin(op, a, b) => !(op is AU || op is EW) && loop_insensitive(*a) && loop_insensitive(*b),
        STree::Hyb(_, _, _, c) => loop_insensitive(*c),
    }
}
// number of occurrences of the wild-card proposition p
pub open spec fn occ(t: STree, p: Seq<char>) -> nat decreases t {
    match t {
        STree::Term(SAtom::Wild(q)) => if q == p { 1 } else { 0 },
        STree::Term(_) => 0,
        STree::Un(_, c) => occ(*c, p),
        STree::Bin(_, a, b) => occ(*a, p) + occ(*b, p),
        STree::Hyb(_, _, _, c) => occ(*c, p),
    }
}
// every domain label of the tree has a raw set in the context
pub open spec fn doms_present(t: STree, m: Map<String, GraphColoredVertices>) -> bool decreases t {
    match t {
        STree::Term(_) => true,
        STree::Un(_, c) => doms_present(*c, m),
        STree::Bin(_, a, b) => doms_present(*a, m) && doms_present(*b, m),
        STree::Hyb(_, _, d, c) => doms_present(*c, m) && (d matches Some(l) ==> exists|s: String| #[trigger] m.contains_key(s) && s@ == l),
    }
}

// ---- the canonical key (contract of get_canonical_and_renaming as seen by the evaluator)
pub uninterp spec fn canon_str(s: Seq<char>) -> Seq<char>;
pub uninterp spec fn canon_map(s: Seq<char>) -> Map<Seq<char>, Seq<char>>;
pub open spec fn wc_key(p: Seq<char>) -> Seq<char> { "%"@ + p + "%"@ }
// ASSUMED here (facts about the scanner canonize_subform on rendered trees; see unit canon):
//  K1a  a wild-card proposition with a plain label is its own canonical form and has no variables
//  K1b  only a wild-card proposition has a canonical form of that shape
pub axiom fn axiom_canon_wild(p: Seq<char>)
    requires plain_name(p)
    ensures canon_str(wc_key(p)) == wc_key(p), canon_map(wc_key(p)) == Map::<Seq<char>, Seq<char>>::empty();
pub axiom fn axiom_canon_not_wild(t: STree, p: Seq<char>)
    requires names_ok(t), canon_str(render(t)) == wc_key(p)
    ensures t == STree::Term(SAtom::Wild(p));
pub proof fn lemma_wc_key_inj(p: Seq<char>, q: Seq<char>)
    requires wc_key(p) == wc_key(q)
    ensures p == q
{
    reveal_strlit("%");
    let a = wc_key(p);
    let b = wc_key(q);
    assert(a.len() == p.len() + 2 && b.len() == q.len() + 2);
    assert forall|i: int| 0 <= i < p.len() implies p[i] == q[i] by {
        assert(a[i + 1] == p[i]);
        assert(b[i + 1] == q[i]);
    }
    assert(p =~= q);
}

// ---- the evaluation context
pub open spec fn is_wc_key(k: FormulaWithDomains, p: Seq<char>) -> bool {
    k.0@ == wc_key(p) && k.1@ == Map::<String, Option<String>>::empty()
}
#[verifier::opaque]
pub open spec fn ctx_inv(c: EvalContext) -> bool {
    &&& forall|k: FormulaWithDomains| #[trigger] c.duplicates@.contains_key(k) ==> c.duplicates@[k] >= 1 && exists|p: Seq<char>| is_wc_key(k, p)
    &&& forall|k: FormulaWithDomains| #[trigger] c.cache@.contains_key(k) ==> exists|p: Seq<char>| is_wc_key(k, p) && gv(&c.cache@[k].0) == wc_set(p)
            && wc_set(p).subset_of(base_unit()) && c.cache@[k].1@ == Map::<String, String>::empty()
    &&& forall|d: String| #[trigger] c.domain_raw_sets@.contains_key(d) ==> gv(&c.domain_raw_sets@[d]) == wc_set(d@) && env_indep(wc_set(d@))
}
// the wild-card p can still be served n times from the cache
pub open spec fn has_wc(c: EvalContext, p: Seq<char>, n: int) -> bool {
    exists|k: FormulaWithDomains| is_wc_key(k, p) && #[trigger] c.duplicates@.contains_key(k) && c.cache@.contains_key(k) && c.duplicates@[k] >= n
}
#[verifier::opaque]
pub open spec fn budget_pre(c: EvalContext, t: STree) -> bool {
    forall|p: Seq<char>| occ(t, p) > 0 ==> has_wc(c, p, #[trigger] occ(t, p) as int)
}
#[verifier::opaque]
pub open spec fn budget_post(c0: EvalContext, c1: EvalContext, t: STree) -> bool {
    forall|p: Seq<char>, n: int| n >= 1 && #[trigger] has_wc(c0, p, n + occ(t, p)) ==> has_wc(c1, p, n)
}
pub proof fn lemma_keys_equal(a: FormulaWithDomains, b: FormulaWithDomains)
    requires a.0@ == b.0@, a.1@ == b.1@
    ensures a == b
{
    axiom_string_ext(a.0, b.0);
    axiom_btreemap_ext(a.1, b.1);
}
pub proof fn lemma_loops_total(g: &SymbolicAsyncGraph)
    requires gok(g)
    ensures loops_total(g, steady_set())
{
    reveal(wf_graph);
    reveal(gok);
    let u = unit_of(g);
    assert forall|p: Pt| u.contains(p) implies ex_l(g, u, steady_set()).contains(p) by {
        if has_succ(g, p) {
            let v = choose|v: int| 0 <= v < dim_n() && #[trigger] can_flip(g, v, p.s, p.c);
            let q = with_state(p, flip(p.s, v));
            assert(u.contains(q));
            assert(var_pre_of(g, v, u).contains(p));
            assert(pre_of(g, u).contains(p));
        } else {
            assert(base_unit().contains(p));
            if has_succ(&base_graph(), p) {
                let v = choose|v: int| 0 <= v < dim_n() && #[trigger] can_flip(&base_graph(), v, p.s, p.c);
                assert(can_flip(g, v, p.s, p.c));
            }
            assert(steady_set().contains(p));
        }
    }
}

// ---- the parts of the context the invariants talk about
pub open spec fn same_core(a: EvalContext, b: EvalContext) -> bool {
    a.duplicates == b.duplicates && a.cache == b.cache && a.domain_raw_sets == b.domain_raw_sets
}
pub proof fn lemma_core_inv(a: EvalContext, b: EvalContext)
    requires same_core(a, b)
    ensures ctx_inv(a) == ctx_inv(b)
{
    reveal(ctx_inv);
}
pub proof fn lemma_core_has_wc(a: EvalContext, b: EvalContext)
    requires same_core(a, b)
    ensures forall|p: Seq<char>, n: int| #[trigger] has_wc(a, p, n) == has_wc(b, p, n)
{
}
pub proof fn lemma_core_budget(a: EvalContext, b: EvalContext, c: EvalContext, t: STree)
    requires same_core(a, b)
    ensures budget_pre(a, t) == budget_pre(b, t), budget_post(a, c, t) == budget_post(b, c, t), budget_post(c, a, t) == budget_post(c, b, t)
{
    reveal(budget_pre); reveal(budget_post);
    lemma_core_has_wc(a, b);
    lemma_core_has_wc(b, a);
    assert forall|p: Seq<char>, n: int| has_wc(a, p, n) == has_wc(b, p, n) by {}
    if budget_pre(a, t) {
        assert forall|p: Seq<char>| occ(t, p) > 0 implies has_wc(b, p, #[trigger] occ(t, p) as int) by { assert(has_wc(a, p, occ(t, p) as int)); }
    }
    if budget_pre(b, t) {
        assert forall|p: Seq<char>| occ(t, p) > 0 implies has_wc(a, p, #[trigger] occ(t, p) as int) by { assert(has_wc(b, p, occ(t, p) as int)); }
    }
    if budget_post(a, c, t) {
        assert forall|p: Seq<char>, n: int| n >= 1 && #[trigger] has_wc(b, p, n + occ(t, p)) implies has_wc(c, p, n) by { assert(has_wc(a, p, n + occ(t, p))); }
    }
    if budget_post(b, c, t) {
        assert forall|p: Seq<char>, n: int| n >= 1 && #[trigger] has_wc(a, p, n + occ(t, p)) implies has_wc(c, p, n) by { assert(has_wc(b, p, n + occ(t, p))); }
    }
    if budget_post(c, a, t) {
        assert forall|p: Seq<char>, n: int| n >= 1 && #[trigger] has_wc(c, p, n + occ(t, p)) implies has_wc(b, p, n) by { assert(has_wc(a, p, n)); }
    }
    if budget_post(c, b, t) {
        assert forall|p: Seq<char>, n: int| n >= 1 && #[trigger] has_wc(c, p, n + occ(t, p)) implies has_wc(a, p, n) by { assert(has_wc(b, p, n)); }
    }
}
pub proof fn lemma_has_wc_mono(c: EvalContext, p: Seq<char>, n: int, m: int)
    requires has_wc(c, p, n), m <= n
    ensures has_wc(c, p, m)
{
    let k = choose|k: FormulaWithDomains| is_wc_key(k, p) && #[trigger] c.duplicates@.contains_key(k) && c.cache@.contains_key(k) && c.duplicates@[k] >= n;
    assert(c.duplicates@.contains_key(k));
}
// nothing evaluated: the budget can only be too large
pub proof fn lemma_budget_skip(c: EvalContext, t: STree)
    ensures budget_post(c, c, t)
{
    reveal(budget_post);
    assert forall|p: Seq<char>, n: int| n >= 1 && #[trigger] has_wc(c, p, n + occ(t, p)) implies has_wc(c, p, n) by {
        lemma_has_wc_mono(c, p, n + occ(t, p), n);
    }
}
// a node with a single evaluated child (unary, hybrid)
pub proof fn lemma_budget_child(c0: EvalContext, t: STree, u: STree)
    requires budget_pre(c0, t), forall|p: Seq<char>| #[trigger] occ(u, p) == occ(t, p)
    ensures budget_pre(c0, u)
{
    reveal(budget_pre);
    assert forall|p: Seq<char>| occ(u, p) > 0 implies has_wc(c0, p, #[trigger] occ(u, p) as int) by {
        assert(occ(t, p) > 0);
    }
}
pub proof fn lemma_budget_child_post(c0: EvalContext, c1: EvalContext, t: STree, u: STree)
    requires budget_post(c0, c1, u), forall|p: Seq<char>| #[trigger] occ(u, p) == occ(t, p)
    ensures budget_post(c0, c1, t)
{
    reveal(budget_post);
    assert forall|p: Seq<char>, n: int| n >= 1 && #[trigger] has_wc(c0, p, n + occ(t, p)) implies has_wc(c1, p, n) by {
        assert(occ(u, p) == occ(t, p));
        assert(has_wc(c0, p, n + occ(u, p)));
    }
}
// a node with two children evaluated left to right
pub proof fn lemma_budget_left(c0: EvalContext, t: STree, tl: STree, tr: STree)
    requires budget_pre(c0, t), forall|p: Seq<char>| #[trigger] occ(t, p) == occ(tl, p) + occ(tr, p)
    ensures budget_pre(c0, tl)
{
    reveal(budget_pre);
    assert forall|p: Seq<char>| occ(tl, p) > 0 implies has_wc(c0, p, #[trigger] occ(tl, p) as int) by {
        assert(occ(t, p) == occ(tl, p) + occ(tr, p));
        lemma_has_wc_mono(c0, p, occ(t, p) as int, occ(tl, p) as int);
    }
}
pub proof fn lemma_budget_right(c0: EvalContext, c1: EvalContext, t: STree, tl: STree, tr: STree)
    requires budget_pre(c0, t), budget_post(c0, c1, tl), forall|p: Seq<char>| #[trigger] occ(t, p) == occ(tl, p) + occ(tr, p)
    ensures budget_pre(c1, tr)
{
    reveal(budget_pre); reveal(budget_post);
    assert forall|p: Seq<char>| occ(tr, p) > 0 implies has_wc(c1, p, #[trigger] occ(tr, p) as int) by {
        assert(occ(t, p) == occ(tl, p) + occ(tr, p));
        assert(has_wc(c0, p, occ(t, p) as int));
        assert(has_wc(c0, p, (occ(tr, p) + occ(tl, p)) as int));
    }
}
pub proof fn lemma_budget_seq(c0: EvalContext, c1: EvalContext, c2: EvalContext, t: STree, tl: STree, tr: STree)
    requires budget_post(c0, c1, tl), budget_post(c1, c2, tr), forall|p: Seq<char>| #[trigger] occ(t, p) == occ(tl, p) + occ(tr, p)
    ensures budget_post(c0, c2, t)
{
    reveal(budget_post);
    assert forall|p: Seq<char>, n: int| n >= 1 && #[trigger] has_wc(c0, p, n + occ(t, p)) implies has_wc(c2, p, n) by {
        assert(occ(t, p) == occ(tl, p) + occ(tr, p));
        assert(has_wc(c0, p, (n + occ(tr, p)) + occ(tl, p)));
        assert(has_wc(c1, p, n + occ(tr, p)));
    }
}
