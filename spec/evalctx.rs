// ======================================================================================
// S-CTX: preconditions on the tree handed to eval_node, the invariant of the evaluation context
// (stage 1: the duplicate table only holds wild-card propositions, i.e. sub-formula sharing is off),
// and the abstract contract of the canonical key.
// ======================================================================================
pub open spec fn valid_name(x: Seq<char>) -> bool { 1 <= encode_utf8(x).len() <= usize::MAX && slot_name(x) < dim_k() }
pub open spec fn plain_char(c: char) -> bool { c != '(' && c != ')' && c != '{' && c != '}' && c != '%' && c != '!' }
pub open spec fn plain_name(s: Seq<char>) -> bool { forall|i: int| 0 <= i < s.len() ==> plain_char(#[trigger] s[i]) }
// names: HCTL variables have a slot in the graph, propositions are network variables, labels are plain
pub open spec fn names_ok(t: STree) -> bool decreases t {
    match t {
        STree::Term(SAtom::Var(x)) => valid_name(x),
        STree::Term(SAtom::Prop(n)) => prop_index(n) is Some,
        STree::Term(SAtom::Wild(p)) => plain_name(p),
        STree::Term(_) => true,
        STree::Un(_, c) => names_ok(*c),
        STree::Bin(_, a, b) => names_ok(*a) && names_ok(*b),
        STree::Hyb(_, x, d, c) => valid_name(x) && names_ok(*c) && (d matches Some(l) ==> plain_name(l)),
    }
}
// scoping: a quantifier never re-uses the slot of an enclosing quantifier (names x, xx, xxx, ... by depth)
pub open spec fn scope_ok(t: STree, busy: ISet<int>) -> bool decreases t {
    match t {
        STree::Term(_) => true,
        STree::Un(_, c) => scope_ok(*c, busy),
        STree::Bin(_, a, b) => scope_ok(*a, busy) && scope_ok(*b, busy),
        STree::Hyb(op, x, d, c) => if op is Jump { scope_ok(*c, busy) } else { !busy.contains(slot_name(x)) && scope_ok(*c, busy.insert(slot_name(x))) },
    }
}
pub open spec fn busy_of(g: &SymbolicAsyncGraph) -> ISet<int> { ISet::new(|k: int| !slot_free(g, k)) }
pub proof fn lemma_scope_mono(t: STree, b1: ISet<int>, b2: ISet<int>)
    requires scope_ok(t, b1), b2.subset_of(b1)
    ensures scope_ok(t, b2)
    decreases t
{
    match t {
        STree::Term(_) => {},
        STree::Un(_, c) => { lemma_scope_mono(*c, b1, b2); },
        STree::Bin(_, a, b) => { lemma_scope_mono(*a, b1, b2); lemma_scope_mono(*b, b1, b2); },
        STree::Hyb(op, x, d, c) => {
            if op is Jump { lemma_scope_mono(*c, b1, b2); }
            else { lemma_scope_mono(*c, b1.insert(slot_name(x)), b2.insert(slot_name(x))); }
        },
    }
}
// formulae on which the set of self-loop states cannot matter (C18)
pub open spec fn loop_insensitive(t: STree) -> bool decreases t {
    match t {
        STree::Term(_) => true,
        STree::Un(op, c) => !(op is EX || op is AX || op is AF || op is EG) && loop_insensitive(*c),
        STree::Bin(op, a, b) => !(op is AU || op is EW) && loop_insensitive(*a) && loop_insensitive(*b),
        STree::Hyb(_, _, _, c) => loop_insensitive(*c),
    }
}
// number of occurrences of the wild-card proposition p
pub open spec fn occ(t: STree, p: Seq<char>) -> nat decreases t {
    match t {
        STree::Term(SAtom::Wild(q)) => if q == p { 1 } else { 0 },
        STree::Term(_) => 0,
        STree::Un(_, c) => occ(*c, p),
        STree::Bin(_, a, b) => occ(*a, p) + occ(*b, p),
        STree::Hyb(_, _, _, c) => occ(*c, p),
    }
}
// every domain label of the tree has a raw set in the context
pub open spec fn doms_present(t: STree, m: Map<String, GraphColoredVertices>) -> bool decreases t {
    match t {
        STree::Term(_) => true,
        STree::Un(_, c) => doms_present(*c, m),
        STree::Bin(_, a, b) => doms_present(*a, m) && doms_present(*b, m),
        STree::Hyb(_, _, d, c) => doms_present(*c, m) && (d matches Some(l) ==> exists|s: String| #[trigger] m.contains_key(s) && s@ == l),
    }
}

// ---- the canonical key (contract of get_canonical_and_renaming as seen by the evaluator)
// canon_str / canon_map: defined in spec/canon.rs (the scanner specification that canonize_subform is proved to implement)
pub open spec fn wc_key(p: Seq<char>) -> Seq<char> { "%"@ + p + "%"@ }
// Two facts about the scanner on rendered trees (they were axioms until unit canon existed; now proved from the definition of `scan`):
//  K1a  a wild-card proposition with a plain label is its own canonical form and has no variables
//  K1b  only a wild-card proposition has a canonical form of that shape
// TRUSTED: the name of a network variable is not empty and contains none of the characters ( ) { } % (lib-param-bn accepts [a-zA-Z0-9_]+)
pub axiom fn axiom_prop_names(n: Seq<char>)
    requires prop_index(n) is Some
    ensures n.len() > 0, forall|i: int| 0 <= i < n.len() ==> #[trigger] n[i] != '(' && n[i] != ')' && n[i] != '{' && n[i] != '}' && n[i] != '%';
// the first character of the canonical form of a non-empty text is its first character
pub proof fn lemma_canon_first(s: Seq<char>)
    requires s.len() > 0
    ensures canon_str(s).len() > 0, canon_str(s)[0] == s[0]
{
    reveal(canon_str);
    reveal_strlit("{");
    let st = SS { rest: s, out: Seq::<char>::empty(), m: IMap::<Seq<char>, Seq<char>>::empty(), n: 0 };
    let ch = s[0];
    let r = s.drop_first();
    let f1 = (s.len() - 1) as nat;
    if ch == '(' {
        let s1 = SS { rest: r, out: st.out.push('('), ..st };
        lemma_scan_prefix(s1, f1);
        lemma_scan_prefix(scan(s1, f1), f1);
        lemma_prefix_trans(s1.out, scan(s1, f1).out, scan(scan(s1, f1), f1).out);
        assert(s1.out.len() == 1 && s1.out[0] == '(');
        assert(scan(st, s.len()) == scan(scan(s1, f1), f1));
    } else if ch == ')' {
        assert(scan(st, s.len()).out =~= seq![')']);
    } else if is_quant(ch) && r.len() > 0 && r[0] == '{' {
        let r2 = r.drop_first();
        let s1 = SS { rest: drop_until(r2), out: st.out + seq![ch] + "{"@ + vname(st.n) + "}"@, m: st.m.insert(take_until(r2), vname(st.n)), n: st.n + 1 };
        lemma_scan_prefix(s1, f1);
        assert(s1.out.len() > 0 && s1.out[0] == ch);
        assert(scan(st, s.len()) == scan(s1, f1));
    } else if ch == '{' {
        let name = take_until(r);
        let m2 = if st.m.contains_key(name) { st.m } else { st.m.insert(name, vname(st.n)) };
        let n2 = if st.m.contains_key(name) { st.n } else { st.n + 1 };
        let s1 = SS { rest: drop_until(r), out: st.out + "{"@ + m2[name] + "}"@, m: m2, n: n2 };
        lemma_scan_prefix(s1, f1);
        assert(s1.out.len() > 0 && s1.out[0] == '{');
        assert(scan(st, s.len()) == scan(s1, f1));
    } else {
        let s1 = SS { rest: r, out: st.out.push(ch), ..st };
        lemma_scan_prefix(s1, f1);
        assert(s1.out.len() == 1 && s1.out[0] == ch);
        assert(scan(st, s.len()) == scan(s1, f1));
    }
}
pub proof fn lemma_canon_inert(s: Seq<char>)
    requires inert(s)
    ensures canon_str(s) == s, canon_map(s) == IMap::<Seq<char>, Seq<char>>::empty()
{
    reveal(canon_str); reveal(canon_map);
    let st = SS { rest: s, out: Seq::<char>::empty(), m: IMap::<Seq<char>, Seq<char>>::empty(), n: 0 };
    lemma_scan_inert(st, s.len());
    assert(st.out + s =~= s);
}
pub proof fn lemma_canon_wild(p: Seq<char>)
    requires plain_name(p)
    ensures canon_str(wc_key(p)) == wc_key(p), canon_map(wc_key(p)) == IMap::<Seq<char>, Seq<char>>::empty()
{
    reveal_strlit("%");
    let w = wc_key(p);
    assert forall|i: int| 0 <= i < w.len() implies #[trigger] w[i] != '(' && w[i] != ')' && w[i] != '{' by {
        if 0 < i < w.len() - 1 { assert(w[i] == p[i - 1]); assert(plain_char(p[i - 1])); }
    }
    lemma_canon_inert(w);
}
pub proof fn lemma_canon_not_wild(t: STree, p: Seq<char>)
    requires names_ok(t), canon_str(render(t)) == wc_key(p)
    ensures t == STree::Term(SAtom::Wild(p))
{
    reveal_strlit("%"); reveal_strlit("("); reveal_strlit("{"); reveal_strlit("True"); reveal_strlit("False");
    let w = wc_key(p);
    assert(w.len() >= 2 && w[0] == '%');
    match t {
        STree::Term(SAtom::Wild(q)) => { lemma_canon_wild(q); lemma_wc_key_inj(q, p); },
        STree::Term(SAtom::Var(x)) => { assert(render(t)[0] == '{'); lemma_canon_first(render(t)); },
        STree::Term(SAtom::Prop(n)) => {
            axiom_prop_names(n);
            assert(inert(n));
            lemma_canon_inert(n);
            assert(n[0] != '%');
        },
        STree::Term(SAtom::True) => { lemma_canon_first(render(t)); },
        STree::Term(SAtom::False) => { lemma_canon_first(render(t)); },
        _ => { assert(render(t).len() > 0 && render(t)[0] == '('); lemma_canon_first(render(t)); },
    }
}
pub proof fn lemma_wc_key_inj(p: Seq<char>, q: Seq<char>)
    requires wc_key(p) == wc_key(q)
    ensures p == q
{
    reveal_strlit("%");
    let a = wc_key(p);
    let b = wc_key(q);
    assert(a.len() == p.len() + 2 && b.len() == q.len() + 2);
    assert forall|i: int| 0 <= i < p.len() implies p[i] == q[i] by {
        assert(a[i + 1] == p[i]);
        assert(b[i + 1] == q[i]);
    }
    assert(p =~= q);
}

// ---- the evaluation context
pub open spec fn is_wc_key(k: FormulaWithDomains, p: Seq<char>) -> bool {
    k.0@ == wc_key(p) && k.1@ == Map::<String, Option<String>>::empty()
}
// names of a preprocessed tree: the quantifier at nesting depth d is named x^d, variables refer to enclosing quantifiers
pub open spec fn canonical_names(t: STree, d: nat) -> bool decreases t {
    match t {
        STree::Term(SAtom::Var(x)) => exists|i: nat| 1 <= i <= d && x == xs(i),
        STree::Term(_) => true,
        STree::Un(_, c) => canonical_names(*c, d),
        STree::Bin(_, a, b) => canonical_names(*a, d) && canonical_names(*b, d),
        STree::Hyb(op, x, dd, c) =>
            if op is Jump { (exists|i: nat| 1 <= i <= d && x == xs(i)) && canonical_names(*c, d) }
            else { x == xs(d + 1) && canonical_names(*c, d + 1) },
    }
}
// frame of the evaluator: the domains of the variables that are free at this point belong to the enclosing quantifiers (depth names)
pub open spec fn fvd_le(m: Map<String, Option<String>>, d: nat) -> bool { forall|k: String| #[trigger] m.contains_key(k) ==> exists|i: nat| 1 <= i <= d && k@ == xs(i) }
pub open spec fn fvd_ok(m: Map<String, Option<String>>, t: STree) -> bool { exists|d: nat| canonical_names(t, d) && fvd_le(m, d) }
pub proof fn lemma_fvd_fresh(m: Map<String, Option<String>>, d: nat, v: String)
    requires fvd_le(m, d), v@ == xs(d + 1)
    ensures !m.contains_key(v)
{
    if m.contains_key(v) {
        let i = choose|i: nat| 1 <= i <= d && v@ == xs(i);
        assert(xs(i).len() == i && xs(d + 1).len() == d + 1);
    }
}
pub open spec fn tree_pre(t: STree) -> bool { names_ok(t) && exists|d: nat| canonical_names(t, d) }
pub open spec fn small(m: IMap<Seq<char>, Seq<char>>) -> bool { forall|x: Seq<char>, y: Seq<char>| m.contains_key(x) && m.contains_key(y) ==> x == y }
pub open spec fn is_wild_tree(t: STree) -> bool { t matches STree::Term(SAtom::Wild(_)) }
// ASSUMED (soundness of canonical keys, i.e. the "only if" direction of property C09, in its semantic form):
// two preprocessed trees with the same canonical text have renamings of the same shape, and (for at most one
// variable name) their semantics differ exactly by moving that variable's slot
pub axiom fn axiom_key_sound_core(t: STree, n: STree, l: ISet<Pt>)
    requires tree_pre(t), tree_pre(n), canon_str(render(t)) == canon_str(render(n)), small(canon_map(render(t)))
    ensures
        small(canon_map(render(n))),
        (forall|a: Seq<char>| !canon_map(render(t)).contains_key(a)) <==> (forall|b: Seq<char>| !canon_map(render(n)).contains_key(b)),
        (forall|a: Seq<char>| !canon_map(render(t)).contains_key(a)) ==> sem(n, l) == sem(t, l),
        forall|a: Seq<char>, b: Seq<char>| #![trigger canon_map(render(t)).contains_key(a), canon_map(render(n)).contains_key(b)]
            canon_map(render(t)).contains_key(a) && canon_map(render(n)).contains_key(b) ==> (
                canon_map(render(t))[a] == canon_map(render(n))[b] && valid_name(a) && valid_name(b)
                && (a == b <==> slot_name(a) == slot_name(b))
                && (forall|p: Pt| shaped(p) ==> (sem(n, l).contains(p) <==> #[trigger] sem(t, l).contains(with_slot(p, slot_name(a), p.e[slot_name(b)])))));
// PROVED part: a wild-card proposition shares its canonical text only with itself (from the scanner specification)
pub proof fn lemma_key_wild(t: STree, n: STree)
    requires tree_pre(t), tree_pre(n), canon_str(render(t)) == canon_str(render(n))
    ensures is_wild_tree(t) == is_wild_tree(n)
{
    reveal_strlit("%");
    if is_wild_tree(t) {
        let p = t->Term_0->Wild_0;
        lemma_canon_wild(p);
        assert(render(t) == wc_key(p));
        lemma_canon_not_wild(n, p);
    }
    if is_wild_tree(n) {
        let p = n->Term_0->Wild_0;
        lemma_canon_wild(p);
        assert(render(n) == wc_key(p));
        lemma_canon_not_wild(t, p);
    }
}
pub proof fn axiom_key_sound(t: STree, n: STree, l: ISet<Pt>)
    requires tree_pre(t), tree_pre(n), canon_str(render(t)) == canon_str(render(n)), small(canon_map(render(t)))
    ensures
        small(canon_map(render(n))),
        is_wild_tree(t) == is_wild_tree(n),
        (forall|a: Seq<char>| !canon_map(render(t)).contains_key(a)) <==> (forall|b: Seq<char>| !canon_map(render(n)).contains_key(b)),
        (forall|a: Seq<char>| !canon_map(render(t)).contains_key(a)) ==> sem(n, l) == sem(t, l),
        forall|a: Seq<char>, b: Seq<char>| #![trigger canon_map(render(t)).contains_key(a), canon_map(render(n)).contains_key(b)]
            canon_map(render(t)).contains_key(a) && canon_map(render(n)).contains_key(b) ==> (
                canon_map(render(t))[a] == canon_map(render(n))[b] && valid_name(a) && valid_name(b)
                && (a == b <==> slot_name(a) == slot_name(b))
                && (forall|p: Pt| shaped(p) ==> (sem(n, l).contains(p) <==> #[trigger] sem(t, l).contains(with_slot(p, slot_name(a), p.e[slot_name(b)])))))
{
    axiom_key_sound_core(t, n, l);
    lemma_key_wild(t, n);
}
// a cached value: either a wild-card proposition (raw user set) or the result of a sub-formula, valid inside the
// unit set `w` of the graph it was computed on
pub open spec fn entry_wild(k: FormulaWithDomains, v: (GraphColoredVertices, VarRenameMap)) -> bool {
    exists|p: Seq<char>| is_wc_key(k, p) && gv(&v.0) == wc_set(p) && wc_set(p).subset_of(base_unit()) && v.1@ == Map::<String, String>::empty()
}
pub open spec fn witness_ok(k: FormulaWithDomains, v: (GraphColoredVertices, VarRenameMap), l: ISet<Pt>, t: STree, w: ISet<Pt>) -> bool {
    &&& k.0@ == canon_str(render(t))
    &&& tree_pre(t) && !is_wild_tree(t)
    &&& mview(v.1@) == canon_map(render(t)) && small(canon_map(render(t)))
    &&& agree(gv(&v.0), sem(t, l), w) && gv(&v.0).subset_of(base_unit())
}
pub open spec fn entry_formula(k: FormulaWithDomains, v: (GraphColoredVertices, VarRenameMap), l: ISet<Pt>) -> bool {
    exists|t: STree, w: ISet<Pt>| witness_ok(k, v, l, t, w)
}
pub open spec fn dup_ok(k: FormulaWithDomains) -> bool {
    (exists|p: Seq<char>| is_wc_key(k, p))
    || (exists|t0: STree| k.0@ == canon_str(render(t0)) && tree_pre(t0) && !is_wild_tree(t0) && small(canon_map(render(t0))))
}
#[verifier::opaque]
pub open spec fn ctx_inv(c: EvalContext, l: ISet<Pt>) -> bool {
    &&& forall|k: FormulaWithDomains| #[trigger] c.duplicates@.contains_key(k) ==> c.duplicates@[k] >= 1 && dup_ok(k)
    &&& forall|k: FormulaWithDomains| #[trigger] c.cache@.contains_key(k) ==> entry_wild(k, c.cache@[k]) || entry_formula(k, c.cache@[k], l)
    &&& forall|d: String| #[trigger] c.domain_raw_sets@.contains_key(d) ==> gv(&c.domain_raw_sets@[d]) == wc_set(d@) && env_indep(wc_set(d@))
}
// the wild-card p can still be served n times from the cache
pub open spec fn has_wc(c: EvalContext, p: Seq<char>, n: int) -> bool {
    exists|k: FormulaWithDomains| is_wc_key(k, p) && #[trigger] c.duplicates@.contains_key(k) && c.cache@.contains_key(k) && c.duplicates@[k] >= n
}
#[verifier::opaque]
pub open spec fn budget_pre(c: EvalContext, t: STree) -> bool {
    forall|p: Seq<char>| occ(t, p) > 0 ==> has_wc(c, p, #[trigger] occ(t, p) as int)
}
#[verifier::opaque]
pub open spec fn budget_post(c0: EvalContext, c1: EvalContext, t: STree) -> bool {
    forall|p: Seq<char>, n: int| n >= 1 && #[trigger] has_wc(c0, p, n + occ(t, p)) ==> has_wc(c1, p, n)
}
pub proof fn lemma_keys_equal(a: FormulaWithDomains, b: FormulaWithDomains)
    requires a.0@ == b.0@, a.1@ == b.1@
    ensures a == b
{
    axiom_string_ext(a.0, b.0);
    axiom_btreemap_ext(a.1, b.1);
}
pub proof fn lemma_loops_total(g: &SymbolicAsyncGraph)
    requires gok(g)
    ensures loops_total(g, steady_set())
{
    reveal(wf_graph);
    reveal(gok);
    let u = unit_of(g);
    assert forall|p: Pt| u.contains(p) implies ex_l(g, u, steady_set()).contains(p) by {
        if has_succ(g, p) {
            let v = choose|v: int| 0 <= v < dim_n() && #[trigger] can_flip(g, v, p.s, p.c);
            let q = with_state(p, flip(p.s, v));
            assert(u.contains(q));
            assert(var_pre_of(g, v, u).contains(p));
            assert(pre_of(g, u).contains(p));
        } else {
            assert(base_unit().contains(p));
            if has_succ(&base_graph(), p) {
                let v = choose|v: int| 0 <= v < dim_n() && #[trigger] can_flip(&base_graph(), v, p.s, p.c);
                assert(can_flip(g, v, p.s, p.c));
            }
            assert(steady_set().contains(p));
        }
    }
}

// ---- the parts of the context the invariants talk about
pub open spec fn same_core(a: EvalContext, b: EvalContext) -> bool {
    a.duplicates == b.duplicates && a.cache == b.cache && a.domain_raw_sets == b.domain_raw_sets
}
pub proof fn lemma_core_inv(a: EvalContext, b: EvalContext, l: ISet<Pt>)
    requires same_core(a, b)
    ensures ctx_inv(a, l) == ctx_inv(b, l)
{
    reveal(ctx_inv);
}
pub proof fn lemma_core_has_wc(a: EvalContext, b: EvalContext)
    requires same_core(a, b)
    ensures forall|p: Seq<char>, n: int| #[trigger] has_wc(a, p, n) == has_wc(b, p, n)
{
}
pub proof fn lemma_core_budget(a: EvalContext, b: EvalContext, c: EvalContext, t: STree)
    requires same_core(a, b)
    ensures budget_pre(a, t) == budget_pre(b, t), budget_post(a, c, t) == budget_post(b, c, t), budget_post(c, a, t) == budget_post(c, b, t)
{
    reveal(budget_pre); reveal(budget_post);
    lemma_core_has_wc(a, b);
    lemma_core_has_wc(b, a);
    assert forall|p: Seq<char>, n: int| has_wc(a, p, n) == has_wc(b, p, n) by {}
    if budget_pre(a, t) {
        assert forall|p: Seq<char>| occ(t, p) > 0 implies has_wc(b, p, #[trigger] occ(t, p) as int) by { assert(has_wc(a, p, occ(t, p) as int)); }
    }
    if budget_pre(b, t) {
        assert forall|p: Seq<char>| occ(t, p) > 0 implies has_wc(a, p, #[trigger] occ(t, p) as int) by { assert(has_wc(b, p, occ(t, p) as int)); }
    }
    if budget_post(a, c, t) {
        assert forall|p: Seq<char>, n: int| n >= 1 && #[trigger] has_wc(b, p, n + occ(t, p)) implies has_wc(c, p, n) by { assert(has_wc(a, p, n + occ(t, p))); }
    }
    if budget_post(b, c, t) {
        assert forall|p: Seq<char>, n: int| n >= 1 && #[trigger] has_wc(a, p, n + occ(t, p)) implies has_wc(c, p, n) by { assert(has_wc(b, p, n + occ(t, p))); }
    }
    if budget_post(c, a, t) {
        assert forall|p: Seq<char>, n: int| n >= 1 && #[trigger] has_wc(c, p, n + occ(t, p)) implies has_wc(b, p, n) by { assert(has_wc(a, p, n)); }
    }
    if budget_post(c, b, t) {
        assert forall|p: Seq<char>, n: int| n >= 1 && #[trigger] has_wc(c, p, n + occ(t, p)) implies has_wc(a, p, n) by { assert(has_wc(b, p, n)); }
    }
}
pub proof fn lemma_has_wc_mono(c: EvalContext, p: Seq<char>, n: int, m: int)
    requires has_wc(c, p, n), m <= n
    ensures has_wc(c, p, m)
{
    let k = choose|k: FormulaWithDomains| is_wc_key(k, p) && #[trigger] c.duplicates@.contains_key(k) && c.cache@.contains_key(k) && c.duplicates@[k] >= n;
    assert(c.duplicates@.contains_key(k));
}
// nothing evaluated: the budget can only be too large
pub proof fn lemma_budget_skip(c: EvalContext, t: STree)
    ensures budget_post(c, c, t)
{
    reveal(budget_post);
    assert forall|p: Seq<char>, n: int| n >= 1 && #[trigger] has_wc(c, p, n + occ(t, p)) implies has_wc(c, p, n) by {
        lemma_has_wc_mono(c, p, n + occ(t, p), n);
    }
}
// a node with a single evaluated child (unary, hybrid)
pub proof fn lemma_budget_child(c0: EvalContext, t: STree, u: STree)
    requires budget_pre(c0, t), forall|p: Seq<char>| #[trigger] occ(u, p) == occ(t, p)
    ensures budget_pre(c0, u)
{
    reveal(budget_pre);
    assert forall|p: Seq<char>| occ(u, p) > 0 implies has_wc(c0, p, #[trigger] occ(u, p) as int) by {
        assert(occ(t, p) > 0);
    }
}
pub proof fn lemma_budget_child_post(c0: EvalContext, c1: EvalContext, t: STree, u: STree)
    requires budget_post(c0, c1, u), forall|p: Seq<char>| #[trigger] occ(u, p) == occ(t, p)
    ensures budget_post(c0, c1, t)
{
    reveal(budget_post);
    assert forall|p: Seq<char>, n: int| n >= 1 && #[trigger] has_wc(c0, p, n + occ(t, p)) implies has_wc(c1, p, n) by {
        assert(occ(u, p) == occ(t, p));
        assert(has_wc(c0, p, n + occ(u, p)));
    }
}
// a node with two children evaluated left to right
pub proof fn lemma_budget_left(c0: EvalContext, t: STree, tl: STree, tr: STree)
    requires budget_pre(c0, t), forall|p: Seq<char>| #[trigger] occ(t, p) == occ(tl, p) + occ(tr, p)
    ensures budget_pre(c0, tl)
{
    reveal(budget_pre);
    assert forall|p: Seq<char>| occ(tl, p) > 0 implies has_wc(c0, p, #[trigger] occ(tl, p) as int) by {
        assert(occ(t, p) == occ(tl, p) + occ(tr, p));
        lemma_has_wc_mono(c0, p, occ(t, p) as int, occ(tl, p) as int);
    }
}
pub proof fn lemma_budget_right(c0: EvalContext, c1: EvalContext, t: STree, tl: STree, tr: STree)
    requires budget_pre(c0, t), budget_post(c0, c1, tl), forall|p: Seq<char>| #[trigger] occ(t, p) == occ(tl, p) + occ(tr, p)
    ensures budget_pre(c1, tr)
{
    reveal(budget_pre); reveal(budget_post);
    assert forall|p: Seq<char>| occ(tr, p) > 0 implies has_wc(c1, p, #[trigger] occ(tr, p) as int) by {
        assert(occ(t, p) == occ(tl, p) + occ(tr, p));
        assert(has_wc(c0, p, occ(t, p) as int));
        assert(has_wc(c0, p, (occ(tr, p) + occ(tl, p)) as int));
    }
}
pub proof fn lemma_budget_seq(c0: EvalContext, c1: EvalContext, c2: EvalContext, t: STree, tl: STree, tr: STree)
    requires budget_post(c0, c1, tl), budget_post(c1, c2, tr), forall|p: Seq<char>| #[trigger] occ(t, p) == occ(tl, p) + occ(tr, p)
    ensures budget_post(c0, c2, t)
{
    reveal(budget_post);
    assert forall|p: Seq<char>, n: int| n >= 1 && #[trigger] has_wc(c0, p, n + occ(t, p)) implies has_wc(c2, p, n) by {
        assert(occ(t, p) == occ(tl, p) + occ(tr, p));
        assert(has_wc(c0, p, (n + occ(tr, p)) + occ(tl, p)));
        assert(has_wc(c1, p, n + occ(tr, p)));
    }
}

// ---- the cache-hit path: renaming of the (at most one) variable of a cached result
// `rn` = set computed by substitute_hctl_var(graph, S, a, b); ka / kb the slots of a / b
pub open spec fn subst_set(g: &SymbolicAsyncGraph, s0: ISet<Pt>, same: bool, ka: int, kb: int) -> ISet<Pt> {
    if same { s0 } else { proj_slot(s0.intersect(comparator_slots(g, ka, kb)), ka) }
}
pub proof fn lemma_hit_rename(g: &SymbolicAsyncGraph, s0: ISet<Pt>, st: ISet<Pt>, sn: ISet<Pt>, w: ISet<Pt>, same: bool, ka: int, kb: int)
    requires
        gok(g), 0 <= ka < dim_k(), 0 <= kb < dim_k(), same <==> ka == kb,
        agree(s0, st, w), s0.subset_of(base_unit()),
        forall|p: Pt| shaped(p) ==> (sn.contains(p) <==> #[trigger] st.contains(with_slot(p, ka, p.e[kb]))),
        !same ==> slot_free(g, ka),                                                                   // fails for defect D8
        forall|p: Pt| unit_of(g).contains(p) ==> #[trigger] w.contains(with_slot(p, ka, p.e[kb])),    // fails for defect D5
    ensures ok(g, subst_set(g, s0, same, ka, kb), sn)
{
    reveal(ok); reveal(gok); reveal(wf_graph);
    let u = unit_of(g);
    let r = subst_set(g, s0, same, ka, kb);
    assert forall|p: Pt| u.contains(p) implies (r.contains(p) <==> sn.contains(p)) by {
        let qs = with_slot(p, ka, p.e[kb]);
        lemma_shaped_with_slot(p, ka, p.e[kb]);
        lemma_agree_pt(s0, st, w, qs);
        if same {
            assert(qs.e =~= p.e);
            assert(qs == p);
        } else {
            assert(u.contains(qs));
            assert(qs.e[kb] == p.e[kb]);
            assert(eq_slots(qs, ka, kb));
            if r.contains(p) {
                let q = choose|q: Pt| s0.intersect(comparator_slots(g, ka, kb)).contains(q) && differ_slot(p, q, ka);
                assert(shaped(q));
                lemma_differ_slot_is_with_slot(p, q, ka);
                assert(q.e[kb] =~= p.e[kb]);
                assert(q.e[ka] =~= q.e[kb]);
                assert(q == qs);
            }
            if sn.contains(p) {
                assert(s0.intersect(comparator_slots(g, ka, kb)).contains(qs));
            }
        }
    }
    lemma_agree_intro(r, sn, u);
    if !same { lemma_proj_slot_in_base(s0.intersect(comparator_slots(g, ka, kb)), ka); }
}
pub proof fn lemma_hit_closed(g: &SymbolicAsyncGraph, s0: ISet<Pt>, st: ISet<Pt>, w: ISet<Pt>)
    requires
        agree(s0, st, w), s0.subset_of(base_unit()),
        unit_of(g).subset_of(w),                                                                      // fails for defect D5
    ensures ok(g, s0, st)
{
    reveal(ok);
    assert forall|p: Pt| unit_of(g).contains(p) implies (s0.contains(p) <==> st.contains(p)) by { lemma_agree_pt(s0, st, w, p); }
    lemma_agree_intro(s0, st, unit_of(g));
}
pub proof fn lemma_small_strings(m: Map<String, String>)
    requires small(mview(m))
    ensures forall|x: String, y: String| m.contains_key(x) && m.contains_key(y) ==> x == y
{
    assert forall|x: String, y: String| m.contains_key(x) && m.contains_key(y) implies x == y by {
        lemma_mview_key(m, x); lemma_mview_key(m, y);
        axiom_string_ext(x, y);
    }
}
// everything the hit path knows about the cached witness `wt` and the current formula `t` (carried through the loops)
pub open spec fn hit_facts(l: ISet<Pt>, t: STree, wt: STree, ww: ISet<Pt>, has_var: bool, va: Seq<char>, vb: Seq<char>, ka: int, kb: int, s0: ISet<Pt>) -> bool {
    let cmt = canon_map(render(wt));
    let cmn = canon_map(render(t));
    &&& has_var == (exists|a: Seq<char>| cmt.contains_key(a))
    &&& small(cmt) && small(cmn)
    &&& ka == slot_name(va) && kb == slot_name(vb)
    &&& agree(s0, sem(wt, l), ww) && s0.subset_of(base_unit())
    &&& !has_var ==> sem(t, l) == sem(wt, l) && (forall|b: Seq<char>| !cmn.contains_key(b))
    &&& has_var ==> (cmt.contains_key(va) && cmn.contains_key(vb) && cmt[va] == cmn[vb] && valid_name(va) && valid_name(vb) && (va == vb <==> ka == kb)
            && (forall|p: Pt| shaped(p) ==> (sem(t, l).contains(p) <==> #[trigger] sem(wt, l).contains(with_slot(p, ka, p.e[kb])))))
}
// storing a (non wild-card) result does not touch the wild-card bookkeeping
pub proof fn lemma_budget_grow(c0: EvalContext, c1: EvalContext, t: STree)
    requires c1.duplicates@ == c0.duplicates@, forall|k: FormulaWithDomains| #[trigger] c0.cache@.contains_key(k) ==> c1.cache@.contains_key(k)
    ensures budget_post(c0, c1, t), forall|u: STree| budget_pre(c0, u) ==> #[trigger] budget_pre(c1, u)
{
    reveal(budget_post); reveal(budget_pre);
    assert forall|p: Seq<char>, n: int| #[trigger] has_wc(c0, p, n) implies has_wc(c1, p, n) by {
        let k = choose|k: FormulaWithDomains| is_wc_key(k, p) && #[trigger] c0.duplicates@.contains_key(k) && c0.cache@.contains_key(k) && c0.duplicates@[k] >= n;
        assert(c1.duplicates@.contains_key(k) && c1.cache@.contains_key(k));
    }
    assert forall|p: Seq<char>, n: int| n >= 1 && #[trigger] has_wc(c0, p, n + occ(t, p)) implies has_wc(c1, p, n) by {
        lemma_has_wc_mono(c0, p, n + occ(t, p), n);
    }
    assert forall|u: STree| budget_pre(c0, u) implies #[trigger] budget_pre(c1, u) by {
        assert forall|p: Seq<char>| occ(u, p) > 0 implies has_wc(c1, p, #[trigger] occ(u, p) as int) by {
            assert(has_wc(c0, p, occ(u, p) as int));
        }
    }
}
pub proof fn lemma_budget_trans(c0: EvalContext, c1: EvalContext, c2: EvalContext, t: STree)
    requires budget_post(c0, c1, t), c2.duplicates@ == c1.duplicates@, forall|k: FormulaWithDomains| #[trigger] c1.cache@.contains_key(k) ==> c2.cache@.contains_key(k)
    ensures budget_post(c0, c2, t)
{
    reveal(budget_post);
    assert forall|p: Seq<char>, n: int| n >= 1 && #[trigger] has_wc(c0, p, n + occ(t, p)) implies has_wc(c2, p, n) by {
        assert(has_wc(c1, p, n));
        let k = choose|k: FormulaWithDomains| is_wc_key(k, p) && #[trigger] c1.duplicates@.contains_key(k) && c1.cache@.contains_key(k) && c1.duplicates@[k] >= n;
        assert(c2.duplicates@.contains_key(k) && c2.cache@.contains_key(k));
    }
}
// a stored result is a valid cache entry
pub proof fn lemma_store_entry(c1: EvalContext, c2: EvalContext, key: FormulaWithDomains, v: (GraphColoredVertices, VarRenameMap), l: ISet<Pt>, t: STree, g: &SymbolicAsyncGraph)
    requires
        ctx_inv(c1, l), c2.duplicates@ == c1.duplicates@, c2.domain_raw_sets@ == c1.domain_raw_sets@, c2.cache@ == c1.cache@.insert(key, v),
        key.0@ == canon_str(render(t)), tree_pre(t), !is_wild_tree(t), mview(v.1@) == canon_map(render(t)), small(canon_map(render(t))),
        ok(g, gv(&v.0), sem(t, l)),
    ensures ctx_inv(c2, l)
{
    reveal(ctx_inv); reveal(ok);
    assert(witness_ok(key, v, l, t, unit_of(g)));
    assert(entry_formula(key, v, l));
}
// the two facts about scopes that a cache hit relies on and that the cache key does NOT guarantee (defects D5 / D8)
pub open spec fn hit_universe_ok(g: &SymbolicAsyncGraph, ww: ISet<Pt>, has_var: bool, ka: int, kb: int) -> bool {
    if has_var { forall|p: Pt| unit_of(g).contains(p) ==> #[trigger] ww.contains(with_slot(p, ka, p.e[kb])) } else { unit_of(g).subset_of(ww) }
}
pub open spec fn hit_slot_ok(g: &SymbolicAsyncGraph, has_var: bool, va: Seq<char>, vb: Seq<char>, ka: int) -> bool {
    has_var && va != vb ==> slot_free(g, ka)
}
