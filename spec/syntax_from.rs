// `Atomic::from(bool)`: spec side of the std `From` trait (vstd wants a FromSpecImpl next to an `impl From`)
impl vstd::std_specs::convert::FromSpecImpl<bool> for Atomic {
    open spec fn obeys_from_spec() -> bool { true }
    open spec fn from_spec(v: bool) -> Atomic { if v { Atomic::True } else { Atomic::False } }
}

