// ======================================================================================
// S-ALPHA: scoping and renaming of state variables, written from property C07:
//   preprocessing accepts a tree exactly when every state-variable occurrence (including jump targets)
//   lies in the scope of a quantifier for it, no variable is re-quantified inside its own scope, and every
//   proposition names a network variable; the result names the variable of every quantifier by its nesting
//   depth (x, xx, xxx, ...).
// ======================================================================================
pub open spec fn well_scoped(t: STree, scope: ISet<Seq<char>>) -> bool decreases t {
    match t {
        STree::Term(SAtom::Var(x)) => scope.contains(x),
        STree::Term(SAtom::Prop(n)) => prop_index(n) is Some,
        STree::Term(_) => true,
        STree::Un(_, c) => well_scoped(*c, scope),
        STree::Bin(_, a, b) => well_scoped(*a, scope) && well_scoped(*b, scope),
        STree::Hyb(op, x, d, c) =>
            if op is Jump { scope.contains(x) && well_scoped(*c, scope) }
            else { !scope.contains(x) && well_scoped(*c, scope.insert(x)) },
    }
}
pub open spec fn rename_spec(t: STree, m: IMap<Seq<char>, Seq<char>>, depth: nat) -> STree decreases t {
    match t {
        STree::Term(SAtom::Var(x)) => STree::Term(SAtom::Var(m[x])),
        STree::Term(a) => STree::Term(a),
        STree::Un(op, c) => STree::Un(op, Box::new(rename_spec(*c, m, depth))),
        STree::Bin(op, a, b) => STree::Bin(op, Box::new(rename_spec(*a, m, depth)), Box::new(rename_spec(*b, m, depth))),
        STree::Hyb(op, x, d, c) =>
            if op is Jump { STree::Hyb(op, m[x], d, Box::new(rename_spec(*c, m, depth))) }
            else { STree::Hyb(op, xs(depth + 1), d, Box::new(rename_spec(*c, m.insert(x, xs(depth + 1)), depth + 1))) },
    }
}
pub proof fn lemma_rename_height(t: STree, m: IMap<Seq<char>, Seq<char>>, depth: nat)
    ensures s_height(rename_spec(t, m, depth)) == s_height(t)
    decreases t
{
    match t {
        STree::Term(_) => {},
        STree::Un(_, c) => { lemma_rename_height(*c, m, depth); },
        STree::Bin(_, a, b) => { lemma_rename_height(*a, m, depth); lemma_rename_height(*b, m, depth); },
        STree::Hyb(op, x, d, c) => {
            if op is Jump { lemma_rename_height(*c, m, depth); } else { lemma_rename_height(*c, m.insert(x, xs(depth + 1)), depth + 1); }
        },
    }
}
pub open spec fn rename_ok(r: Result<HctlTreeNode, String>, orig: HctlTreeNode, m: IMap<Seq<char>, Seq<char>>, depth: nat) -> bool {
    match r {
        Ok(t2) => well_scoped(view_tree(orig), m.dom()) && wf(t2) && view_tree(t2) == rename_spec(view_tree(orig), m, depth) && t2.height == orig.height,
        Err(_) => !well_scoped(view_tree(orig), m.dom()),
    }
}
pub proof fn lemma_xs_push(n: nat)
    ensures xs(n).push('x') =~= xs(n + 1)
{
}

// ---- what the string entry points of the front end return
// tokens: Ok exactly when the text is in the token language; tree: Ok exactly when, in addition, the grammar derives the tokens
pub open spec fn parse_ok(r: Result<HctlTreeNode, String>, s: Seq<char>, ext: bool) -> bool {
    match lex(s, ext) {
        None => r is Err,
        Some(ts) => exists|toks: Seq<HctlToken>| #[trigger] view_toks(toks) == ts && agrees(r, sp_formula(toks), tok_size(toks)),
    }
}
// preprocessed tree: Ok exactly when, in addition, the tree is well scoped and its propositions are network variables (C07 / C14)
pub open spec fn preprocess_ok(r: Result<HctlTreeNode, String>, s: Seq<char>, ext: bool) -> bool {
    match lex(s, ext) {
        None => r is Err,
        Some(ts) => exists|toks: Seq<HctlToken>| #[trigger] view_toks(toks) == ts && (match sp_formula(toks) {
            None => r is Err,
            Some(st) => if well_scoped(st, ISet::<Seq<char>>::empty()) {
                    r matches Ok(t) && wf(t) && view_tree(t) == rename_spec(st, IMap::<Seq<char>, Seq<char>>::empty(), 0)
                } else { r is Err },
        }),
    }
}

// ---- C07: "preprocessing an already preprocessed tree changes nothing"
// all values of the renaming map are depth names x^i with 1 <= i <= d
pub open spec fn vals_le(m: IMap<Seq<char>, Seq<char>>, d: nat) -> bool {
    forall|x: Seq<char>| #[trigger] m.contains_key(x) ==> exists|i: nat| 1 <= i <= d && m[x] == xs(i)
}
pub open spec fn depth_names(d: nat) -> ISet<Seq<char>> { ISet::new(|n: Seq<char>| exists|i: nat| 1 <= i <= d && n == xs(i)) }
pub open spec fn id_on(d: nat) -> IMap<Seq<char>, Seq<char>> { IMap::new(|n: Seq<char>| depth_names(d).contains(n), |n: Seq<char>| n) }
pub proof fn lemma_xs_inj(i: nat, j: nat)
    requires xs(i) == xs(j)
    ensures i == j
{
    assert(xs(i).len() == i && xs(j).len() == j);
}
pub proof fn lemma_rename_idempotent(t: STree, m: IMap<Seq<char>, Seq<char>>, d: nat)
    requires well_scoped(t, m.dom()), vals_le(m, d)
    ensures
        well_scoped(rename_spec(t, m, d), depth_names(d)),
        rename_spec(rename_spec(t, m, d), id_on(d), d) == rename_spec(t, m, d),
    decreases t
{
    match t {
        STree::Term(SAtom::Var(x)) => {
            assert(m.contains_key(x));
            let i = choose|i: nat| 1 <= i <= d && m[x] == xs(i);
            assert(depth_names(d).contains(m[x]));
        },
        STree::Term(_) => {},
        STree::Un(_, c) => { lemma_rename_idempotent(*c, m, d); },
        STree::Bin(_, a, b) => { lemma_rename_idempotent(*a, m, d); lemma_rename_idempotent(*b, m, d); },
        STree::Hyb(op, x, dd, c) => {
            if op is Jump {
                assert(m.contains_key(x));
                let i = choose|i: nat| 1 <= i <= d && m[x] == xs(i);
                assert(depth_names(d).contains(m[x]));
                lemma_rename_idempotent(*c, m, d);
            } else {
                let nm = xs(d + 1);
                let m2 = m.insert(x, nm);
                assert(vals_le(m2, d + 1)) by {
                    assert forall|y: Seq<char>| #[trigger] m2.contains_key(y) implies exists|i: nat| 1 <= i <= d + 1 && m2[y] == xs(i) by {
                        if y == x { assert(m2[y] == xs((d + 1) as nat)); } else {
                            assert(m.contains_key(y));
                            let i = choose|i: nat| 1 <= i <= d && m[y] == xs(i);
                            assert(1 <= i <= d + 1 && m2[y] == xs(i));
                        }
                    }
                }
                assert(m2.dom() =~= m.dom().insert(x));
                lemma_rename_idempotent(*c, m2, d + 1);
                // the new name is not among the names of the enclosing scope
                assert(!depth_names(d).contains(nm)) by {
                    if depth_names(d).contains(nm) {
                        let i = choose|i: nat| 1 <= i <= d && nm == xs(i);
                        lemma_xs_inj(i, d + 1);
                    }
                }
                assert(depth_names(d + 1) =~= depth_names(d).insert(nm)) by {
                    assert forall|n: Seq<char>| depth_names(d + 1).contains(n) <==> depth_names(d).insert(nm).contains(n) by {
                        if depth_names(d + 1).contains(n) {
                            let i = choose|i: nat| 1 <= i <= d + 1 && n == xs(i);
                            if i <= d { assert(depth_names(d).contains(n)); }
                        }
                        if depth_names(d).contains(n) {
                            let i = choose|i: nat| 1 <= i <= d && n == xs(i);
                            assert(1 <= i <= d + 1 && n == xs(i));
                        }
                        if n == nm { assert(1 <= d + 1 <= d + 1 && n == xs((d + 1) as nat)); }
                    }
                }
                assert(id_on(d).insert(nm, nm) =~= id_on(d + 1));
            }
        },
    }
}
pub proof fn lemma_preprocess_idempotent(t: STree)
    requires well_scoped(t, ISet::<Seq<char>>::empty())
    ensures
        well_scoped(rename_spec(t, IMap::<Seq<char>, Seq<char>>::empty(), 0), ISet::<Seq<char>>::empty()),
        rename_spec(rename_spec(t, IMap::<Seq<char>, Seq<char>>::empty(), 0), IMap::<Seq<char>, Seq<char>>::empty(), 0)
            == rename_spec(t, IMap::<Seq<char>, Seq<char>>::empty(), 0),
{
    let e = IMap::<Seq<char>, Seq<char>>::empty();
    assert(e.dom() =~= ISet::<Seq<char>>::empty());
    lemma_rename_idempotent(t, e, 0);
    assert(depth_names(0) =~= ISet::<Seq<char>>::empty());
    assert(id_on(0) =~= e);
}

// ---- C07: "the accepted result is alpha-equivalent to the input"
// alpha-equivalence relative to the lists of binders in scope (innermost last): two variable occurrences correspond
// iff they refer to the binder at the same position
pub open spec fn pos_of(e: Seq<Seq<char>>, x: Seq<char>) -> int decreases e.len() {
    if e.len() == 0 { -1 } else if e[e.len() - 1] == x { e.len() - 1 } else { pos_of(e.subrange(0, e.len() - 1), x) }
}
pub open spec fn alpha_eq(t1: STree, t2: STree, e1: Seq<Seq<char>>, e2: Seq<Seq<char>>) -> bool decreases t1 {
    match (t1, t2) {
        (STree::Term(SAtom::Var(x)), STree::Term(SAtom::Var(y))) => pos_of(e1, x) == pos_of(e2, y) && pos_of(e1, x) >= 0,
        (STree::Term(a), STree::Term(b)) => a == b && !(a is Var),
        (STree::Un(o1, c1), STree::Un(o2, c2)) => o1 == o2 && alpha_eq(*c1, *c2, e1, e2),
        (STree::Bin(o1, a1, b1), STree::Bin(o2, a2, b2)) => o1 == o2 && alpha_eq(*a1, *a2, e1, e2) && alpha_eq(*b1, *b2, e1, e2),
        (STree::Hyb(o1, x, d1, c1), STree::Hyb(o2, y, d2, c2)) => o1 == o2 && d1 == d2 && (
            if o1 is Jump { pos_of(e1, x) == pos_of(e2, y) && pos_of(e1, x) >= 0 && alpha_eq(*c1, *c2, e1, e2) }
            else { alpha_eq(*c1, *c2, e1.push(x), e2.push(y)) }),
        _ => false,
    }
}
pub open spec fn env_xs(d: nat) -> Seq<Seq<char>> { Seq::new(d, |i: int| xs((i + 1) as nat)) }
pub proof fn lemma_pos_env_xs(d: nat, i: nat)
    requires 1 <= i <= d
    ensures pos_of(env_xs(d), xs(i)) == i - 1
    decreases d
{
    let e = env_xs(d);
    if i == d { assert(e[e.len() - 1] == xs(d)); }
    else {
        assert(e[e.len() - 1] == xs(d));
        if xs(d) == xs(i) { lemma_xs_inj(d, i); }
        assert(e.subrange(0, e.len() - 1) =~= env_xs((d - 1) as nat));
        lemma_pos_env_xs((d - 1) as nat, i);
    }
}
pub proof fn lemma_pos_push(e: Seq<Seq<char>>, x: Seq<char>, y: Seq<char>)
    ensures pos_of(e.push(x), y) == (if x == y { e.len() as int } else { pos_of(e, y) })
{
    assert(e.push(x).subrange(0, e.push(x).len() - 1) =~= e);
}
pub proof fn lemma_pos_absent(e: Seq<Seq<char>>, x: Seq<char>)
    requires forall|i: int| 0 <= i < e.len() ==> e[i] != x
    ensures pos_of(e, x) == -1
    decreases e.len()
{
    if e.len() > 0 { lemma_pos_absent(e.subrange(0, e.len() - 1), x); }
}
// the renaming map sends every variable in scope to the depth name of the position of its binder
pub open spec fn map_tracks(m: IMap<Seq<char>, Seq<char>>, e1: Seq<Seq<char>>) -> bool {
    &&& forall|x: Seq<char>| #[trigger] m.contains_key(x) <==> pos_of(e1, x) >= 0
    &&& forall|x: Seq<char>| #[trigger] m.contains_key(x) ==> m[x] == xs((pos_of(e1, x) + 1) as nat)
}
pub proof fn lemma_pos_bound(e: Seq<Seq<char>>, x: Seq<char>)
    ensures -1 <= pos_of(e, x) < e.len(), pos_of(e, x) >= 0 ==> e[pos_of(e, x)] == x
    decreases e.len()
{
    if e.len() > 0 && e[e.len() - 1] != x { lemma_pos_bound(e.subrange(0, e.len() - 1), x); }
}
pub proof fn lemma_rename_alpha(t: STree, m: IMap<Seq<char>, Seq<char>>, e1: Seq<Seq<char>>)
    requires well_scoped(t, m.dom()), map_tracks(m, e1)
    ensures alpha_eq(t, rename_spec(t, m, e1.len()), e1, env_xs(e1.len()))
    decreases t
{
    let d = e1.len();
    match t {
        STree::Term(SAtom::Var(x)) => {
            assert(m.contains_key(x));
            lemma_pos_bound(e1, x);
            lemma_pos_env_xs(d, (pos_of(e1, x) + 1) as nat);
        },
        STree::Term(_) => {},
        STree::Un(_, c) => { lemma_rename_alpha(*c, m, e1); },
        STree::Bin(_, a, b) => { lemma_rename_alpha(*a, m, e1); lemma_rename_alpha(*b, m, e1); },
        STree::Hyb(op, x, dd, c) => {
            if op is Jump {
                assert(m.contains_key(x));
                lemma_pos_bound(e1, x);
                lemma_pos_env_xs(d, (pos_of(e1, x) + 1) as nat);
                lemma_rename_alpha(*c, m, e1);
            } else {
                let nm = xs(d + 1);
                let m2 = m.insert(x, nm);
                let e1b = e1.push(x);
                assert(map_tracks(m2, e1b)) by {
                    assert forall|y: Seq<char>| (#[trigger] m2.contains_key(y) <==> pos_of(e1b, y) >= 0)
                        && (m2.contains_key(y) ==> m2[y] == xs((pos_of(e1b, y) + 1) as nat)) by {
                        lemma_pos_push(e1, x, y);
                        lemma_pos_bound(e1, y);
                    }
                }
                assert(m2.dom() =~= m.dom().insert(x));
                lemma_rename_alpha(*c, m2, e1b);
                assert(env_xs(d).push(nm) =~= env_xs(d + 1));
            }
        },
    }
}
pub proof fn lemma_preprocess_alpha(t: STree)
    requires well_scoped(t, ISet::<Seq<char>>::empty())
    ensures alpha_eq(t, rename_spec(t, IMap::<Seq<char>, Seq<char>>::empty(), 0), Seq::<Seq<char>>::empty(), Seq::<Seq<char>>::empty())
{
    let e = IMap::<Seq<char>, Seq<char>>::empty();
    assert(e.dom() =~= ISet::<Seq<char>>::empty());
    assert(map_tracks(e, Seq::<Seq<char>>::empty()));
    lemma_rename_alpha(t, e, Seq::<Seq<char>>::empty());
    assert(env_xs(0) =~= Seq::<Seq<char>>::empty());
}
