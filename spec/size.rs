// ======================================================================================
// size of a formula / of a batch of formulae (number of nodes): the duplicate counters are i32, their increments are proved not to
// overflow for batches with fewer than 2^31 nodes
// ======================================================================================
pub open spec fn s_size(t: STree) -> nat decreases t {
    match t {
        STree::Term(_) => 1,
        STree::Un(_, c) => 1 + s_size(*c),
        STree::Bin(_, a, b) => 1 + s_size(*a) + s_size(*b),
        STree::Hyb(_, _, _, c) => 1 + s_size(*c),
    }
}
pub open spec fn roots_total(v: Seq<HctlTreeNode>) -> nat decreases v.len() {
    if v.len() == 0 { 0 } else { roots_total(v.drop_last()) + s_size(view_tree(v.last())) }
}
pub proof fn lemma_size_pos(t: STree) ensures s_size(t) >= 1 {}
pub proof fn lemma_roots_take(v: Seq<HctlTreeNode>, i: int)
    requires 0 <= i < v.len()
    ensures roots_total(v.take(i + 1)) == roots_total(v.take(i)) + s_size(view_tree(v[i]))
{
    assert(v.take(i + 1).drop_last() =~= v.take(i));
}
pub proof fn lemma_roots_single(v: Seq<HctlTreeNode>)
    requires v.len() == 1
    ensures roots_total(v) == s_size(view_tree(v[0]))
{
    assert(v.drop_last().len() == 0);
    assert(roots_total(v.drop_last()) == 0);
}
// the canoniser counts variables in an i32 while scanning the rendered text of a (sub-)formula: texts shorter than 2^31 characters
#[verifier::opaque]
pub open spec fn rsmall(t: STree) -> bool { render(t).len() < i32::MAX }
pub proof fn lemma_rsmall_children(t: STree)
    requires rsmall(t)
    ensures
        t matches STree::Un(_, c) ==> rsmall(*c),
        t matches STree::Bin(_, a, b) ==> rsmall(*a) && rsmall(*b),
        t matches STree::Hyb(_, _, _, c) ==> rsmall(*c),
{
    reveal(rsmall);
}
pub proof fn lemma_rsmall_len(t: STree)
    requires rsmall(t)
    ensures render(t).len() < i32::MAX
{
    reveal(rsmall);
}
