// ======================================================================================
// Extended formulae (wild-card propositions %p%, quantifier domains `in %d%`) at the API level -- C02, C10, C14.
// ======================================================================================
// labels of the wild-card propositions / of the domains of a tree
pub open spec fn wilds(t: STree) -> ISet<Seq<char>> decreases t {
    match t {
        STree::Term(SAtom::Wild(p)) => ISet::<Seq<char>>::empty().insert(p),
        STree::Term(_) => ISet::<Seq<char>>::empty(),
        STree::Un(_, c) => wilds(*c),
        STree::Bin(_, a, b) => wilds(*a).union(wilds(*b)),
        STree::Hyb(_, _, _, c) => wilds(*c),
    }
}
pub open spec fn dlabels(t: STree) -> ISet<Seq<char>> decreases t {
    match t {
        STree::Term(_) => ISet::<Seq<char>>::empty(),
        STree::Un(_, c) => dlabels(*c),
        STree::Bin(_, a, b) => dlabels(*a).union(dlabels(*b)),
        STree::Hyb(_, _, d, c) => match d { Some(l) => dlabels(*c).insert(l), None => dlabels(*c) },
    }
}
// a label -> set map as seen through the characters of its keys
pub open spec fn ctx_has(m: Map<String, GraphColoredVertices>, k: Seq<char>) -> bool { exists|s: String| #[trigger] m.contains_key(s) && s@ == k }
pub open spec fn ctx_keys(m: Map<String, GraphColoredVertices>) -> ISet<Seq<char>> { ISet::new(|k: Seq<char>| ctx_has(m, k)) }
// m is the restriction of the context c to the labels in `labels` (values: the same sets)
pub open spec fn ctx_restr(m: Map<String, GraphColoredVertices>, c: Map<String, GraphColoredVertices>, labels: ISet<Seq<char>>) -> bool {
    &&& forall|s: String| #[trigger] m.contains_key(s) ==> labels.contains(s@) && c.contains_key(s) && gv(&m[s]) == gv(&c[s])
    &&& forall|k: Seq<char>| labels.contains(k) ==> #[trigger] ctx_has(m, k)
}
pub proof fn lemma_occ_wilds(t: STree, p: Seq<char>)
    ensures occ(t, p) > 0 <==> wilds(t).contains(p)
    decreases t
{
    match t {
        STree::Term(_) => {},
        STree::Un(_, c) => { lemma_occ_wilds(*c, p); },
        STree::Bin(_, a, b) => { lemma_occ_wilds(*a, p); lemma_occ_wilds(*b, p); },
        STree::Hyb(_, _, _, c) => { lemma_occ_wilds(*c, p); },
    }
}
pub proof fn lemma_doms_present(t: STree, m: Map<String, GraphColoredVertices>)
    requires forall|k: Seq<char>| dlabels(t).contains(k) ==> #[trigger] ctx_has(m, k)
    ensures doms_present(t, m)
    decreases t
{
    match t {
        STree::Term(_) => {},
        STree::Un(_, c) => { lemma_doms_present(*c, m); },
        STree::Bin(_, a, b) => { lemma_doms_present(*a, m); lemma_doms_present(*b, m); },
        STree::Hyb(_, _, d, c) => {
            lemma_doms_present(*c, m);
            if d is Some { assert(dlabels(t).contains(d->0)); assert(ctx_has(m, d->0)); }
        },
    }
}
pub proof fn lemma_borrow_ctx(m: Map<String, GraphColoredVertices>)
    ensures forall|k: &str| #[trigger] contains_borrowed_key(m, k) <==> ctx_has(m, k@)
{
    assert forall|k: &str| #[trigger] contains_borrowed_key(m, k) <==> ctx_has(m, k@) by { axiom_str_borrow_contains(m, k); }
}
// the context sets supplied by the caller ARE the ambient wild-card sets (this ties the uninterpreted wc_set of spec/sem.rs to the
// actual arguments) and satisfy the documented requirements: they do not depend on the auxiliary variables and are sets of the graph
pub open spec fn ctx_sound(m: Map<String, GraphColoredVertices>) -> bool {
    forall|s: String| #[trigger] m.contains_key(s) ==> gv(&m[s]) == wc_set(s@) && env_indep(wc_set(s@)) && wc_set(s@).subset_of(base_unit())
}
pub open spec fn ctx_grows(c1: EvalContext, c2: EvalContext) -> bool {
    &&& forall|k: FormulaWithDomains| #[trigger] c1.duplicates@.contains_key(k) ==> c2.duplicates@.contains_key(k) && c2.duplicates@[k] >= c1.duplicates@[k]
    &&& forall|k: FormulaWithDomains| #[trigger] c1.cache@.contains_key(k) ==> c2.cache@.contains_key(k)
}
pub proof fn lemma_has_wc_grow(c1: EvalContext, c2: EvalContext, p: Seq<char>, n: int)
    requires ctx_grows(c1, c2), has_wc(c1, p, n)
    ensures has_wc(c2, p, n)
{
    let k = choose|k: FormulaWithDomains| is_wc_key(k, p) && #[trigger] c1.duplicates@.contains_key(k) && c1.cache@.contains_key(k) && c1.duplicates@[k] >= n;
    assert(c2.duplicates@.contains_key(k) && c2.cache@.contains_key(k));
}
// one step of extend_context_with_wild_cards: a wild-card entry with a positive counter keeps the invariant
pub proof fn lemma_ext_step(c1: EvalContext, c2: EvalContext, key: FormulaWithDomains, n: i32, v: (GraphColoredVertices, VarRenameMap), p: Seq<char>, l: ISet<Pt>)
    requires
        ctx_inv(c1, l), is_wc_key(key, p), n >= 1, gv(&v.0) == wc_set(p), wc_set(p).subset_of(base_unit()), v.1@ == Map::<String, String>::empty(),
        c2.duplicates@ == c1.duplicates@.insert(key, n), c2.cache@ == c1.cache@.insert(key, v), c2.domain_raw_sets@ == c1.domain_raw_sets@,
    ensures ctx_inv(c2, l)
{
    reveal(ctx_inv);
    assert(dup_ok(key));
    assert(entry_wild(key, v));
}
pub proof fn lemma_ext_dom_step(c1: EvalContext, c2: EvalContext, d: String, s: GraphColoredVertices, l: ISet<Pt>)
    requires
        ctx_inv(c1, l), gv(&s) == wc_set(d@), env_indep(wc_set(d@)),
        c2.duplicates@ == c1.duplicates@, c2.cache@ == c1.cache@, c2.domain_raw_sets@ == c1.domain_raw_sets@.insert(d, s),
    ensures ctx_inv(c2, l)
{
    reveal(ctx_inv);
}
// labels over a batch of trees
pub open spec fn all_wilds(v: Seq<HctlTreeNode>) -> ISet<Seq<char>> { ISet::new(|k: Seq<char>| exists|i: int| 0 <= i < v.len() && #[trigger] wilds(view_tree(v[i])).contains(k)) }
pub open spec fn all_dlabels(v: Seq<HctlTreeNode>) -> ISet<Seq<char>> { ISet::new(|k: Seq<char>| exists|i: int| 0 <= i < v.len() && #[trigger] dlabels(view_tree(v[i])).contains(k)) }
// acceptance / rejection of an extended formula text by the extended entry points (C14)
pub open spec fn accepted_ext(s: Seq<char>, t: STree, c: Map<String, GraphColoredVertices>) -> bool {
    accepted(s, true, t) && (forall|k: Seq<char>| wilds(t).contains(k) || dlabels(t).contains(k) ==> #[trigger] ctx_has(c, k))
}
pub open spec fn rejected_ext(s: Seq<char>, c: Map<String, GraphColoredVertices>) -> bool {
    rejected(s, true)                                                                                          // token language / grammar / scoping / spare variable sets
    || exists|t: STree, k: Seq<char>| #![trigger accepted(s, true, t), ctx_has(c, k)] accepted(s, true, t) && (wilds(t).contains(k) || dlabels(t).contains(k)) && !ctx_has(c, k)   // a label without a set in the context
}
pub proof fn lemma_restr_union(m1: Map<String, GraphColoredVertices>, m2: Map<String, GraphColoredVertices>, c: Map<String, GraphColoredVertices>, l1: ISet<Seq<char>>, l2: ISet<Seq<char>>)
    requires ctx_restr(m1, c, l1), ctx_restr(m2, c, l2)
    ensures ctx_restr(m1.union_prefer_right(m2), c, l1.union(l2))
{
    let m = m1.union_prefer_right(m2);
    assert forall|k: Seq<char>| l1.union(l2).contains(k) implies #[trigger] ctx_has(m, k) by {
        if l2.contains(k) { assert(ctx_has(m2, k)); let s = choose|s: String| #[trigger] m2.contains_key(s) && s@ == k; assert(m.contains_key(s)); }
        else { assert(ctx_has(m1, k)); let s = choose|s: String| #[trigger] m1.contains_key(s) && s@ == k; assert(m.contains_key(s)); }
    }
}
