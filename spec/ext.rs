// ======================================================================================
// Extended formulae (wild-card propositions %p%, quantifier domains `in %d%`) at the API level -- C02, C10, C14.
// ======================================================================================
// labels of the wild-card propositions / of the domains of a tree
pub open spec fn wilds(t: STree) -> ISet<Seq<char>> decreases t {
    match t {
        STree::Term(SAtom::Wild(p)) => ISet::<Seq<char>>::empty().insert(p),
        STree::Term(_) => ISet::<Seq<char>>::empty(),
        STree::Un(_, c) => wilds(*c),
        STree::Bin(_, a, b) => wilds(*a).union(wilds(*b)),
        STree::Hyb(_, _, _, c) => wilds(*c),
    }
}
pub open spec fn dlabels(t: STree) -> ISet<Seq<char>> decreases t {
    match t {
        STree::Term(_) => ISet::<Seq<char>>::empty(),
        STree::Un(_, c) => dlabels(*c),
        STree::Bin(_, a, b) => dlabels(*a).union(dlabels(*b)),
        STree::Hyb(_, _, d, c) => match d { Some(l) => dlabels(*c).insert(l), None => dlabels(*c) },
    }
}
// a label -> set map as seen through the characters of its keys
pub open spec fn ctx_has(m: Map<String, GraphColoredVertices>, k: Seq<char>) -> bool { exists|s: String| #[trigger] m.contains_key(s) && s@ == k }
pub open spec fn ctx_keys(m: Map<String, GraphColoredVertices>) -> ISet<Seq<char>> { ISet::new(|k: Seq<char>| ctx_has(m, k)) }
// m is the restriction of the context c to the labels in `labels` (values: the same sets)
pub open spec fn ctx_restr(m: Map<String, GraphColoredVertices>, c: Map<String, GraphColoredVertices>, labels: ISet<Seq<char>>) -> bool {
    &&& forall|s: String| #[trigger] m.contains_key(s) ==> labels.contains(s@) && c.contains_key(s) && gv(&m[s]) == gv(&c[s])
    &&& forall|k: Seq<char>| labels.contains(k) ==> #[trigger] ctx_has(m, k)
}
pub proof fn lemma_occ_wilds(t: STree, p: Seq<char>)
    ensures occ(t, p) > 0 <==> wilds(t).contains(p)
    decreases t
{
    match t {
        STree::Term(_) => {},
        STree::Un(_, c) => { lemma_occ_wilds(*c, p); },
        STree::Bin(_, a, b) => { lemma_occ_wilds(*a, p); lemma_occ_wilds(*b, p); },
        STree::Hyb(_, _, _, c) => { lemma_occ_wilds(*c, p); },
    }
}
pub proof fn lemma_doms_present(t: STree, m: Map<String, GraphColoredVertices>)
    requires forall|k: Seq<char>| dlabels(t).contains(k) ==> #[trigger] ctx_has(m, k)
    ensures doms_present(t, m)
    decreases t
{
    match t {
        STree::Term(_) => {},
        STree::Un(_, c) => { lemma_doms_present(*c, m); },
        STree::Bin(_, a, b) => { lemma_doms_present(*a, m); lemma_doms_present(*b, m); },
        STree::Hyb(_, _, d, c) => {
            lemma_doms_present(*c, m);
            if d is Some { assert(dlabels(t).contains(d->0)); assert(ctx_has(m, d->0)); }
        },
    }
}
pub proof fn lemma_borrow_ctx(m: Map<String, GraphColoredVertices>)
    ensures forall|k: &str| #[trigger] contains_borrowed_key(m, k) <==> ctx_has(m, k@)
{
    assert forall|k: &str| #[trigger] contains_borrowed_key(m, k) <==> ctx_has(m, k@) by { axiom_str_borrow_contains(m, k); }
}
// the context sets supplied by the caller ARE the ambient wild-card sets (this ties the uninterpreted wc_set of spec/sem.rs to the
// actual arguments) and satisfy the documented requirements: they do not depend on the auxiliary variables and are sets of the graph
pub open spec fn ctx_sound(m: Map<String, GraphColoredVertices>) -> bool {
    forall|s: String| #[trigger] m.contains_key(s) ==> gv(&m[s]) == wc_set(s@) && env_indep(wc_set(s@)) && wc_set(s@).subset_of(base_unit())
}
pub open spec fn ctx_grows(c1: EvalContext, c2: EvalContext) -> bool {
    &&& forall|k: FormulaWithDomains| #[trigger] c1.duplicates@.contains_key(k) ==> c2.duplicates@.contains_key(k) && c2.duplicates@[k] >= c1.duplicates@[k]
    &&& forall|k: FormulaWithDomains| #[trigger] c1.cache@.contains_key(k) ==> c2.cache@.contains_key(k)
}
pub proof fn lemma_has_wc_grow(c1: EvalContext, c2: EvalContext, p: Seq<char>, n: int)
    requires ctx_grows(c1, c2), has_wc(c1, p, n)
    ensures has_wc(c2, p, n)
{
    let k = choose|k: FormulaWithDomains| is_wc_key(k, p) && #[trigger] c1.duplicates@.contains_key(k) && c1.cache@.contains_key(k) && c1.duplicates@[k] >= n;
    assert(c2.duplicates@.contains_key(k) && c2.cache@.contains_key(k));
}
// one step of extend_context_with_wild_cards: a wild-card entry with a positive counter keeps the invariant
pub proof fn lemma_ext_step(c1: EvalContext, c2: EvalContext, key: FormulaWithDomains, n: i32, v: (GraphColoredVertices, VarRenameMap), p: Seq<char>, l: ISet<Pt>)
    requires
        ctx_inv(c1, l), is_wc_key(key, p), n >= 1, gv(&v.0) == wc_set(p), wc_set(p).subset_of(base_unit()), v.1@ == Map::<String, String>::empty(),
        c2.duplicates@ == c1.duplicates@.insert(key, n), c2.cache@ == c1.cache@.insert(key, v), c2.domain_raw_sets@ == c1.domain_raw_sets@,
    ensures ctx_inv(c2, l)
{
    reveal(ctx_inv);
    assert(dup_ok(key));
    assert(entry_wild(key, v));
}
pub proof fn lemma_ext_dom_step(c1: EvalContext, c2: EvalContext, d: String, s: GraphColoredVertices, l: ISet<Pt>)
    requires
        ctx_inv(c1, l), gv(&s) == wc_set(d@), env_indep(wc_set(d@)),
        c2.duplicates@ == c1.duplicates@, c2.cache@ == c1.cache@, c2.domain_raw_sets@ == c1.domain_raw_sets@.insert(d, s),
    ensures ctx_inv(c2, l)
{
    reveal(ctx_inv);
}
// labels over a batch of trees
pub open spec fn all_wilds(v: Seq<HctlTreeNode>) -> ISet<Seq<char>> { ISet::new(|k: Seq<char>| exists|i: int| 0 <= i < v.len() && #[trigger] wilds(view_tree(v[i])).contains(k)) }
pub open spec fn all_dlabels(v: Seq<HctlTreeNode>) -> ISet<Seq<char>> { ISet::new(|k: Seq<char>| exists|i: int| 0 <= i < v.len() && #[trigger] dlabels(view_tree(v[i])).contains(k)) }
// acceptance / rejection of an extended formula text by the extended entry points (C14)
pub open spec fn accepted_ext(s: Seq<char>, t: STree, c: Map<String, GraphColoredVertices>) -> bool {
    accepted(s, true, t) && (forall|k: Seq<char>| wilds(t).contains(k) || dlabels(t).contains(k) ==> #[trigger] ctx_has(c, k))
}
pub open spec fn rejected_ext(s: Seq<char>, c: Map<String, GraphColoredVertices>) -> bool {
    rejected(s, true)                                                                                          // token language / grammar / scoping / spare variable sets
    || exists|t: STree, k: Seq<char>| #![trigger accepted(s, true, t), ctx_has(c, k)] accepted(s, true, t) && (wilds(t).contains(k) || dlabels(t).contains(k)) && !ctx_has(c, k)   // a label without a set in the context
}
pub proof fn lemma_restr_union(m1: Map<String, GraphColoredVertices>, m2: Map<String, GraphColoredVertices>, c: Map<String, GraphColoredVertices>, l1: ISet<Seq<char>>, l2: ISet<Seq<char>>)
    requires ctx_restr(m1, c, l1), ctx_restr(m2, c, l2)
    ensures ctx_restr(m1.union_prefer_right(m2), c, l1.union(l2))
{
    let m = m1.union_prefer_right(m2);
    assert forall|k: Seq<char>| l1.union(l2).contains(k) implies #[trigger] ctx_has(m, k) by {
        if l2.contains(k) { assert(ctx_has(m2, k)); let s = choose|s: String| #[trigger] m2.contains_key(s) && s@ == k; assert(m.contains_key(s)); }
        else { assert(ctx_has(m1, k)); let s = choose|s: String| #[trigger] m1.contains_key(s) && s@ == k; assert(m.contains_key(s)); }
    }
}
// occurrences of the wild-card p in the trees i.. of a batch
pub open spec fn occ_from(v: Seq<HctlTreeNode>, i: int, p: Seq<char>) -> nat decreases v.len() - i {
    if i < 0 || i >= v.len() { 0 } else { occ(view_tree(v[i]), p) + occ_from(v, i + 1, p) }
}
pub proof fn lemma_occ_from_wilds(v: Seq<HctlTreeNode>, i: int, p: Seq<char>)
    requires 0 <= i, occ_from(v, i, p) > 0
    ensures all_wilds(v).contains(p)
    decreases v.len() - i
{
    if i < v.len() {
        if occ(view_tree(v[i]), p) > 0 { lemma_occ_wilds(view_tree(v[i]), p); assert(wilds(view_tree(v[i])).contains(p)); }
        else { lemma_occ_from_wilds(v, i + 1, p); }
    }
}
// what the extended entry points are verified for: every wild-card PROPOSITION label is used at most once in the whole batch
// (domains are not restricted).  The occurrence counter of a label is then 1 and is consumed by its only evaluation.
pub open spec fn single_use(fs: Seq<&str>) -> bool {
    forall|v: Seq<HctlTreeNode>, p: Seq<char>| v.len() == fs.len() && (forall|i: int| 0 <= i < v.len() ==> accepted(fs[i]@, true, view_tree(#[trigger] v[i])))
        ==> #[trigger] occ_from(v, 0, p) <= 1
}
pub open spec fn texts_small_ext(fs: Seq<&str>, extra: nat) -> bool {
    forall|v: Seq<HctlTreeNode>| v.len() == fs.len() && (forall|i: int| 0 <= i < v.len() ==> accepted(fs[i]@, true, view_tree(#[trigger] v[i])))
        ==> #[trigger] roots_total(v) + extra < i32::MAX && (forall|i: int| 0 <= i < v.len() ==> rsmall(view_tree(#[trigger] v[i])))
}
pub open spec fn result_ok_ext(g: &SymbolicAsyncGraph, s: Seq<char>, c: Map<String, GraphColoredVertices>, r: ISet<Pt>) -> bool {
    exists|t: STree| accepted_ext(s, t, c) && #[trigger] ok(g, r, sem(t, steady_set()))
}
pub proof fn lemma_restr_sound(m: Map<String, GraphColoredVertices>, c: Map<String, GraphColoredVertices>, labels: ISet<Seq<char>>)
    requires ctx_restr(m, c, labels), ctx_sound(c)
    ensures ctx_sound(m), m.dom().subset_of(c.dom())
{
    assert forall|s: String| #[trigger] m.contains_key(s) implies gv(&m[s]) == wc_set(s@) && env_indep(wc_set(s@)) && wc_set(s@).subset_of(base_unit()) by { assert(c.contains_key(s)); }
}
// the budget of the single-use class
pub open spec fn budget_inv(c: EvalContext, v: Seq<HctlTreeNode>, i: int) -> bool {
    forall|p: Seq<char>| #[trigger] occ_from(v, i, p) > 0 ==> has_wc(c, p, 1)
}
pub proof fn lemma_budget_single_pre(c: EvalContext, v: Seq<HctlTreeNode>, i: int)
    requires 0 <= i < v.len(), budget_inv(c, v, i), forall|p: Seq<char>| #[trigger] occ_from(v, 0, p) <= 1
    ensures budget_pre(c, view_tree(v[i]))
{
    reveal(budget_pre);
    let t = view_tree(v[i]);
    assert forall|p: Seq<char>| occ(t, p) > 0 implies has_wc(c, p, #[trigger] occ(t, p) as int) by {
        lemma_occ_from_le(v, 0, i, p);
        assert(occ_from(v, i, p) > 0);
    }
}
pub proof fn lemma_occ_from_le(v: Seq<HctlTreeNode>, a: int, b: int, p: Seq<char>)
    requires 0 <= a <= b
    ensures occ_from(v, b, p) <= occ_from(v, a, p)
    decreases b - a
{
    if a < b { lemma_occ_from_le(v, a + 1, b, p); }
}
pub proof fn lemma_budget_single_post(c0: EvalContext, c1: EvalContext, v: Seq<HctlTreeNode>, i: int)
    requires 0 <= i < v.len(), budget_inv(c0, v, i), budget_post(c0, c1, view_tree(v[i])), forall|p: Seq<char>| #[trigger] occ_from(v, 0, p) <= 1
    ensures budget_inv(c1, v, i + 1)
{
    reveal(budget_post);
    let t = view_tree(v[i]);
    assert forall|p: Seq<char>| #[trigger] occ_from(v, i + 1, p) > 0 implies has_wc(c1, p, 1) by {
        lemma_occ_from_le(v, 0, i, p);
        assert(occ(t, p) == 0);
        assert(has_wc(c0, p, 1 + occ(t, p) as int));
    }
}
pub open spec fn text_single_use(f: Seq<char>) -> bool { forall|t: STree, p: Seq<char>| #![trigger accepted(f, true, t), occ(t, p)] accepted(f, true, t) ==> occ(t, p) <= 1 }
pub open spec fn text_small_ext(f: Seq<char>, extra: nat) -> bool { forall|t: STree| #[trigger] accepted(f, true, t) ==> s_size(t) + extra < i32::MAX && rsmall(t) }
pub proof fn lemma_single_ext(f: &str, fs: Seq<&str>, extra: nat)
    requires text_single_use(f@), text_small_ext(f@, extra), fs.len() == 1, fs[0] == f
    ensures single_use(fs), texts_small_ext(fs, extra)
{
    assert forall|v: Seq<HctlTreeNode>, p: Seq<char>| v.len() == fs.len() && (forall|i: int| 0 <= i < v.len() ==> accepted(fs[i]@, true, view_tree(#[trigger] v[i])))
        implies #[trigger] occ_from(v, 0, p) <= 1 by {
        assert(accepted(fs[0]@, true, view_tree(v[0])));
        assert(occ_from(v, 1, p) == 0);
        assert(occ(view_tree(v[0]), p) <= 1);
    }
    assert forall|v: Seq<HctlTreeNode>| v.len() == fs.len() && (forall|i: int| 0 <= i < v.len() ==> accepted(fs[i]@, true, view_tree(#[trigger] v[i])))
        implies #[trigger] roots_total(v) + extra < i32::MAX && (forall|i: int| 0 <= i < v.len() ==> rsmall(view_tree(#[trigger] v[i]))) by {
        lemma_roots_single(v);
        assert(accepted(fs[0]@, true, view_tree(v[0])));
    }
}
