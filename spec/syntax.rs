// ======================================================================================
// S-SYNTAX / S-RENDER: the repo's syntax data types (extracted verbatim, derives dropped) and
// their abstract view; the canonical rendering and the tree well-formedness predicate `wf`
// written from property C06 ("stored text equals the canonical fully parenthesised rendering,
// stored height equals one plus the maximal child height, atoms 0").
// ======================================================================================
//@type src/preprocessing/operator_enums.rs UnaryOp
//@type src/preprocessing/operator_enums.rs BinaryOp
//@type src/preprocessing/operator_enums.rs HybridOp
//@type src/preprocessing/operator_enums.rs Atomic
//@type src/preprocessing/tokenizer.rs HctlToken
//@type src/preprocessing/hctl_tree.rs NodeType
//@type src/preprocessing/hctl_tree.rs HctlTreeNode

// R-derive: stand-ins for #[derive(Clone, PartialEq)] (trusted: structural)
impl Clone for UnaryOp { #[verifier::external_body] fn clone(&self) -> (r: Self) ensures r == *self { unimplemented!() } }
impl Clone for BinaryOp { #[verifier::external_body] fn clone(&self) -> (r: Self) ensures r == *self { unimplemented!() } }
impl Clone for HybridOp { #[verifier::external_body] fn clone(&self) -> (r: Self) ensures r == *self { unimplemented!() } }
impl Clone for Atomic { #[verifier::external_body] fn clone(&self) -> (r: Self) ensures r == *self { unimplemented!() } }
impl Clone for HctlToken { #[verifier::external_body] fn clone(&self) -> (r: Self) ensures r == *self { unimplemented!() } }
impl Clone for HctlTreeNode { #[verifier::external_body] fn clone(&self) -> (r: Self) ensures r == *self { unimplemented!() } }
impl PartialEq for HctlToken { #[verifier::external_body] fn eq(&self, o: &Self) -> (r: bool) ensures r <==> *self == *o { unimplemented!() } }
impl PartialEq for HctlTreeNode { #[verifier::external_body] fn eq(&self, o: &Self) -> (r: bool) ensures r <==> *self == *o { unimplemented!() } }
impl PartialEq for UnaryOp { #[verifier::external_body] fn eq(&self, o: &Self) -> (r: bool) ensures r <==> *self == *o { unimplemented!() } }
impl PartialEq for BinaryOp { #[verifier::external_body] fn eq(&self, o: &Self) -> (r: bool) ensures r <==> *self == *o { unimplemented!() } }
impl PartialEq for Atomic { #[verifier::external_body] fn eq(&self, o: &Self) -> (r: bool) ensures r <==> *self == *o { unimplemented!() } }
impl PartialEq for HybridOp { #[verifier::external_body] fn eq(&self, o: &Self) -> (r: bool) ensures r <==> *self == *o { unimplemented!() } }

pub enum SAtom { Prop(Seq<char>), Var(Seq<char>), True, False, Wild(Seq<char>) }
pub open spec fn view_atom(a: Atomic) -> SAtom {
    match a {
        Atomic::Prop(s) => SAtom::Prop(s@), Atomic::Var(s) => SAtom::Var(s@), Atomic::True => SAtom::True,
        Atomic::False => SAtom::False, Atomic::WildCardProp(s) => SAtom::Wild(s@),
    }
}
pub enum STree {
    Term(SAtom),
    Un(UnaryOp, Box<STree>),
    Bin(BinaryOp, Box<STree>, Box<STree>),
    Hyb(HybridOp, Seq<char>, Option<Seq<char>>, Box<STree>),
}
pub open spec fn view_opt(d: Option<String>) -> Option<Seq<char>> {
    match d { Some(x) => Some(x@), None => None }
}
pub open spec fn view_tree(n: HctlTreeNode) -> STree decreases n {
    match n.node_type {
        NodeType::Terminal(a) => STree::Term(view_atom(a)),
        NodeType::Unary(op, c) => STree::Un(op, Box::new(view_tree(*c))),
        NodeType::Binary(op, l, r) => STree::Bin(op, Box::new(view_tree(*l)), Box::new(view_tree(*r))),
        NodeType::Hybrid(op, v, d, c) => STree::Hyb(op, v@, view_opt(d), Box::new(view_tree(*c))),
    }
}
pub open spec fn s_height(t: STree) -> nat decreases t {
    match t {
        STree::Term(_) => 0,
        STree::Un(_, c) => s_height(*c) + 1,
        STree::Bin(_, l, r) => (if s_height(*l) >= s_height(*r) { s_height(*l) } else { s_height(*r) }) + 1,
        STree::Hyb(_, _, _, c) => s_height(*c) + 1,
    }
}
// ---- Display tables, written from the statement of C06 (operator spellings, constants as True/False).  The four `impl fmt::Display`
//      of operator_enums.rs and the one of HctlTreeNode are PROVED to write exactly these texts (unit tree, contracts display_*,
//      spec/display.rs); what stays trusted is std's definition of `to_string()` / `{x}` in format! as the text Display::fmt writes.
pub open spec fn disp_unary(op: UnaryOp) -> Seq<char> {
    match op { UnaryOp::Not => "~"@, UnaryOp::EX => "EX"@, UnaryOp::AX => "AX"@, UnaryOp::EF => "EF"@, UnaryOp::AF => "AF"@, UnaryOp::EG => "EG"@, UnaryOp::AG => "AG"@ }
}
pub open spec fn disp_binary(op: BinaryOp) -> Seq<char> {
    match op { BinaryOp::And => "&"@, BinaryOp::Or => "|"@, BinaryOp::Xor => "^"@, BinaryOp::Imp => "=>"@, BinaryOp::Iff => "<=>"@,
               BinaryOp::EU => "EU"@, BinaryOp::AU => "AU"@, BinaryOp::EW => "EW"@, BinaryOp::AW => "AW"@ }
}
pub open spec fn disp_hybrid(op: HybridOp) -> Seq<char> {
    match op { HybridOp::Bind => "!"@, HybridOp::Exists => "3"@, HybridOp::Forall => "V"@, HybridOp::Jump => "@"@ }
}
pub open spec fn disp_atom(a: SAtom) -> Seq<char> {
    match a { SAtom::Var(n) => "{"@ + n + "}"@, SAtom::Prop(n) => n, SAtom::True => "True"@, SAtom::False => "False"@, SAtom::Wild(n) => "%"@ + n + "%"@ }
}
// ---- canonical fully parenthesised rendering (C06)
pub open spec fn render(t: STree) -> Seq<char> decreases t {
    match t {
        STree::Term(a) => disp_atom(a),
        STree::Un(op, c) => if op is Not { "("@ + disp_unary(op) + render(*c) + ")"@ } else { "("@ + disp_unary(op) + " "@ + render(*c) + ")"@ },
        STree::Bin(op, l, r) => "("@ + render(*l) + " "@ + disp_binary(op) + " "@ + render(*r) + ")"@,
        STree::Hyb(op, v, d, c) => "("@ + disp_hybrid(op) + "{"@ + v + "}"@ + (match d { Some(x) => " in %"@ + x + "%"@, None => Seq::<char>::empty() }) + ": "@ + render(*c) + ")"@,
    }
}
pub open spec fn wf(n: HctlTreeNode) -> bool decreases n {
    &&& n.formula_str@ == render(view_tree(n))
    &&& n.height as nat == s_height(view_tree(n))
    &&& match n.node_type {
        NodeType::Terminal(_) => true,
        NodeType::Unary(_, c) => wf(*c),
        NodeType::Binary(_, l, r) => wf(*l) && wf(*r),
        NodeType::Hybrid(_, _, _, c) => wf(*c),
    }
}
// `x.to_string()` (ToString through Display) of the syntax types, wherever a changed function may start to use it: inherent stand-ins with the
// contract that unit tree proves for the Display implementations (display_*)
impl HctlTreeNode { #[verifier::external_body] pub fn to_string(&self) -> (r: String) ensures r@ == self.formula_str@ { unimplemented!() } }
impl Atomic { #[verifier::external_body] pub fn to_string(&self) -> (r: String) ensures r@ == disp_atom(view_atom(*self)) { unimplemented!() } }
impl UnaryOp { #[verifier::external_body] pub fn to_string(&self) -> (r: String) ensures r@ == disp_unary(*self) { unimplemented!() } }
impl BinaryOp { #[verifier::external_body] pub fn to_string(&self) -> (r: String) ensures r@ == disp_binary(*self) { unimplemented!() } }
impl HybridOp { #[verifier::external_body] pub fn to_string(&self) -> (r: String) ensures r@ == disp_hybrid(*self) { unimplemented!() } }
// trusted: `Atomic::to_string()` prints the Display table above
#[verifier::external_body]
fn tostr_Atomic(a: &Atomic) -> (r: String)
    ensures r@ == disp_atom(view_atom(*a))
{ unimplemented!() }
// opaque error / progress message (R-fmt-msg)
#[verifier::external_body]
fn verif_msg() -> String { unimplemented!() }
pub assume_specification<T: std::cmp::Ord> [std::cmp::max] (a: T, b: T) -> (r: T)
    ensures r == (if vstd::std_specs::cmp::OrdSpec::cmp_spec(&a, &b) == std::cmp::Ordering::Greater { a } else { b });
// trusted: `impl Display for HctlTreeNode` prints the stored text (write!(f, "{}", self.formula_str))
#[verifier::external_body]
fn tostr_HctlTreeNode(a: &HctlTreeNode) -> (r: String)
    ensures r@ == a.formula_str@
{ unimplemented!() }
