// ======================================================================================
// S-SEM: HCTL semantics as sets of points (state, colour, values of the auxiliary state copies),
// written from the property statements C01 / C02 (standard HCTL meaning; a state without outgoing
// transitions carries a self-loop = the set `l`; wild-cards and restricted domains as documented).
// The semantics does NOT mention any unit set: complement is taken w.r.t. all well-shaped points.
// The code computes inside (restricted) unit sets; `ok(g, r, s)` = "r and s agree inside unit(g), and r
// stays inside the base unit set" is the invariant of eval_node, and the lemmas below show that every
// operator of the code preserves it.
// ======================================================================================
pub uninterp spec fn wc_set(label: Seq<char>) -> ISet<Pt>;     // ambient context sets: label -> raw set
pub open spec fn slot_name(name: Seq<char>) -> int { encode_utf8(name).len() - 1 }
pub open spec fn agree(r: ISet<Pt>, s: ISet<Pt>, u: ISet<Pt>) -> bool { r.intersect(u) =~= s.intersect(u) }
pub open spec fn all_pts() -> ISet<Pt> { ISet::new(|p: Pt| shaped(p)) }
pub open spec fn co(z: ISet<Pt>) -> ISet<Pt> { all_pts().difference(z) }          // semantic complement
#[verifier::opaque]
pub open spec fn ok(g: &SymbolicAsyncGraph, r: ISet<Pt>, s: ISet<Pt>) -> bool { agree(r, s, unit_of(g)) && r.subset_of(base_unit()) }
// the unit set does not constrain slot k (k is not a restricted in-scope variable)
pub open spec fn slot_free(g: &SymbolicAsyncGraph, k: int) -> bool {
    forall|p: Pt, q: Pt| #![trigger unit_of(g).contains(p), differ_slot(p, q, k)] unit_of(g).contains(p) && shaped(q) && differ_slot(p, q, k) ==> unit_of(g).contains(q)
}
// a context set that does not depend on the auxiliary copies (required of domains)
pub open spec fn env_indep(d: ISet<Pt>) -> bool {
    forall|p: Pt, q: Pt| #![trigger d.contains(p), d.contains(q)] d.contains(p) && shaped(q) && q.s == p.s && q.c == p.c ==> d.contains(q)
}

// ---- atoms
pub open spec fn s_prop(i: int) -> ISet<Pt> { ISet::new(|p: Pt| shaped(p) && p.s[i]) }
pub open spec fn s_var(k: int) -> ISet<Pt> { ISet::new(|p: Pt| shaped(p) && eq_state(p, k)) }
// ---- hybrid operators
pub open spec fn bind_sem(z: ISet<Pt>, k: int) -> ISet<Pt> { ISet::new(|p: Pt| shaped(p) && z.contains(with_slot(p, k, p.s))) }
pub open spec fn jump_sem(z: ISet<Pt>, k: int) -> ISet<Pt> { ISet::new(|p: Pt| shaped(p) && z.contains(with_state(p, p.e[k]))) }
pub open spec fn exists_sem(z: ISet<Pt>, k: int) -> ISet<Pt> { ISet::new(|p: Pt| shaped(p) && exists|v: Seq<bool>| v.len() == dim_n() && z.contains(with_slot(p, k, v))) }
pub open spec fn forall_sem(z: ISet<Pt>, k: int) -> ISet<Pt> { ISet::new(|p: Pt| shaped(p) && forall|v: Seq<bool>| v.len() == dim_n() ==> z.contains(with_slot(p, k, v))) }
// with a domain d: bind additionally requires the current state to lie in d; exists / forall range over d's states
pub open spec fn bind_dom_sem(z: ISet<Pt>, k: int, d: ISet<Pt>) -> ISet<Pt> { ISet::new(|p: Pt| shaped(p) && d.contains(p) && z.contains(with_slot(p, k, p.s))) }
pub open spec fn exists_dom_sem(z: ISet<Pt>, k: int, d: ISet<Pt>) -> ISet<Pt> {
    ISet::new(|p: Pt| shaped(p) && exists|v: Seq<bool>| v.len() == dim_n() && d.contains(with_state(p, v)) && z.contains(with_slot(p, k, v)))
}
pub open spec fn forall_dom_sem(z: ISet<Pt>, k: int, d: ISet<Pt>) -> ISet<Pt> {
    ISet::new(|p: Pt| shaped(p) && forall|v: Seq<bool>| v.len() == dim_n() && d.contains(with_state(p, v)) ==> z.contains(with_slot(p, k, v)))
}
// ---- temporal operators over the transitions of the base graph
pub open spec fn s_ex(z: ISet<Pt>, l: ISet<Pt>) -> ISet<Pt> { ex_l(&base_graph(), z, l) }
pub open spec fn s_ax(z: ISet<Pt>, l: ISet<Pt>) -> ISet<Pt> { co(s_ex(co(z), l)) }
pub open spec fn s_eu(a: ISet<Pt>, b: ISet<Pt>) -> ISet<Pt> { eu_of(&base_graph(), a, b) }
pub open spec fn s_ef(a: ISet<Pt>) -> ISet<Pt> { s_eu(all_pts(), a) }
pub open spec fn s_eg(a: ISet<Pt>, l: ISet<Pt>) -> ISet<Pt> { eg_of(&base_graph(), a, l) }
pub open spec fn s_ag(a: ISet<Pt>) -> ISet<Pt> { co(s_ef(co(a))) }
pub open spec fn s_af(a: ISet<Pt>, l: ISet<Pt>) -> ISet<Pt> { co(s_eg(co(a), l)) }
pub open spec fn s_au_closed(a: ISet<Pt>, b: ISet<Pt>, l: ISet<Pt>, z: ISet<Pt>) -> bool { b.subset_of(z) && a.intersect(s_ax(z, l)).subset_of(z) }
pub open spec fn s_au(a: ISet<Pt>, b: ISet<Pt>, l: ISet<Pt>) -> ISet<Pt> { ISet::new(|p: Pt| forall|z: ISet<Pt>| s_au_closed(a, b, l, z) ==> #[trigger] z.contains(p)) }
pub open spec fn s_ew(a: ISet<Pt>, b: ISet<Pt>, l: ISet<Pt>) -> ISet<Pt> { s_eu(a, b).union(s_eg(a, l)) }                  // C13
pub open spec fn s_aw(a: ISet<Pt>, b: ISet<Pt>) -> ISet<Pt> { co(s_eu(co(b), co(a).intersect(co(b)))) }                    // C13

pub open spec fn sem_atom(a: SAtom) -> ISet<Pt> {
    match a {
        SAtom::True => all_pts(),
        SAtom::False => ISet::<Pt>::empty(),
        SAtom::Prop(n) => match prop_index(n) { Some(i) => s_prop(i), None => ISet::<Pt>::empty() },
        SAtom::Var(x) => s_var(slot_name(x)),
        SAtom::Wild(p) => wc_set(p),
    }
}
pub open spec fn sem_un(op: UnaryOp, a: ISet<Pt>, l: ISet<Pt>) -> ISet<Pt> {
    match op {
        UnaryOp::Not => co(a), UnaryOp::EX => s_ex(a, l), UnaryOp::AX => s_ax(a, l), UnaryOp::EF => s_ef(a),
        UnaryOp::AF => s_af(a, l), UnaryOp::EG => s_eg(a, l), UnaryOp::AG => s_ag(a),
    }
}
pub open spec fn s_iff(a: ISet<Pt>, b: ISet<Pt>) -> ISet<Pt> { a.intersect(b).union(co(a).intersect(co(b))) }
pub open spec fn sem_bin(op: BinaryOp, a: ISet<Pt>, b: ISet<Pt>, l: ISet<Pt>) -> ISet<Pt> {
    match op {
        BinaryOp::And => a.intersect(b), BinaryOp::Or => a.union(b), BinaryOp::Xor => co(s_iff(a, b)),
        BinaryOp::Imp => co(a).union(b), BinaryOp::Iff => s_iff(a, b),
        BinaryOp::EU => s_eu(a, b), BinaryOp::AU => s_au(a, b, l), BinaryOp::EW => s_ew(a, b, l), BinaryOp::AW => s_aw(a, b),
    }
}
pub open spec fn sem_hyb(op: HybridOp, k: int, d: Option<Seq<char>>, a: ISet<Pt>) -> ISet<Pt> {
    match op {
        HybridOp::Jump => jump_sem(a, k),          // a domain on a jump has no meaning and is ignored
        HybridOp::Bind => match d { None => bind_sem(a, k), Some(x) => bind_dom_sem(a, k, wc_set(x)) },
        HybridOp::Exists => match d { None => exists_sem(a, k), Some(x) => exists_dom_sem(a, k, wc_set(x)) },
        HybridOp::Forall => match d { None => forall_sem(a, k), Some(x) => forall_dom_sem(a, k, wc_set(x)) },
    }
}
pub open spec fn sem(t: STree, l: ISet<Pt>) -> ISet<Pt> decreases t {
    match t {
        STree::Term(a) => sem_atom(a),
        STree::Un(op, c) => sem_un(op, sem(*c, l), l),
        STree::Bin(op, a, b) => sem_bin(op, sem(*a, l), sem(*b, l), l),
        STree::Hyb(op, x, d, c) => sem_hyb(op, slot_name(x), d, sem(*c, l)),
    }
}
// the steady states of the base graph ("a state without outgoing transitions carries a self-loop")
pub open spec fn steady_set() -> ISet<Pt> { ISet::new(|p: Pt| base_unit().contains(p) && !has_succ(&base_graph(), p)) }

// ======================================================================================
// transfer lemmas
// ======================================================================================
pub proof fn lemma_shaped_with_slot(p: Pt, k: int, v: Seq<bool>)
    requires shaped(p), 0 <= k < dim_k(), v.len() == dim_n()
    ensures shaped(with_slot(p, k, v)), differ_slot(p, with_slot(p, k, v), k), with_slot(p, k, v).e[k] == v
{
    let q = with_slot(p, k, v);
    assert forall|j: int| 0 <= j < dim_k() implies (#[trigger] q.e[j]).len() == dim_n() by {
        if j == k { } else { assert(q.e[j] == p.e[j]); }
    }
}
pub proof fn lemma_differ_slot_is_with_slot(p: Pt, q: Pt, k: int)
    requires shaped(p), shaped(q), 0 <= k < dim_k(), differ_slot(p, q, k)
    ensures q == with_slot(p, k, q.e[k])
{
    let p2 = with_slot(p, k, q.e[k]);
    assert(q.e =~= p2.e) by {
        assert forall|j: int| 0 <= j < dim_k() implies q.e[j] == p2.e[j] by { if j != k { assert(p.e[j] =~= q.e[j]); } }
    }
}
pub proof fn lemma_pre_rebase(g: &SymbolicAsyncGraph, h: &SymbolicAsyncGraph, z: ISet<Pt>)
    requires same_trans(g, h)
    ensures pre_of(g, z) =~= pre_of(h, z)
{
    assert forall|p: Pt| pre_of(g, z).contains(p) <==> pre_of(h, z).contains(p) by {
        if pre_of(g, z).contains(p) {
            let v = choose|v: int| 0 <= v < dim_n() && #[trigger] var_pre_of(g, v, z).contains(p);
            assert(can_flip(g, v, p.s, p.c) == can_flip(h, v, p.s, p.c));
            assert(var_pre_of(h, v, z).contains(p));
        }
        if pre_of(h, z).contains(p) {
            let v = choose|v: int| 0 <= v < dim_n() && #[trigger] var_pre_of(h, v, z).contains(p);
            assert(can_flip(g, v, p.s, p.c) == can_flip(h, v, p.s, p.c));
            assert(var_pre_of(g, v, z).contains(p));
        }
    }
}
pub proof fn lemma_eu_rebase(g: &SymbolicAsyncGraph, h: &SymbolicAsyncGraph, a: ISet<Pt>, b: ISet<Pt>)
    requires same_trans(g, h)
    ensures eu_of(g, a, b) =~= eu_of(h, a, b)
{
    assert forall|z: ISet<Pt>| eu_closed(g, a, b, z) == eu_closed(h, a, b, z) by { lemma_pre_rebase(g, h, z); }
    assert forall|p: Pt| eu_of(g, a, b).contains(p) <==> eu_of(h, a, b).contains(p) by {
        if eu_of(g, a, b).contains(p) {
            assert forall|z: ISet<Pt>| eu_closed(h, a, b, z) implies #[trigger] z.contains(p) by { assert(eu_closed(g, a, b, z)); }
        }
        if eu_of(h, a, b).contains(p) {
            assert forall|z: ISet<Pt>| eu_closed(g, a, b, z) implies #[trigger] z.contains(p) by { assert(eu_closed(h, a, b, z)); }
        }
    }
}
pub proof fn lemma_eg_rebase(g: &SymbolicAsyncGraph, h: &SymbolicAsyncGraph, a: ISet<Pt>, l: ISet<Pt>)
    requires same_trans(g, h)
    ensures eg_of(g, a, l) =~= eg_of(h, a, l)
{
    assert forall|z: ISet<Pt>| eg_dense(g, a, l, z) == eg_dense(h, a, l, z) by { lemma_pre_rebase(g, h, z); }
    assert forall|p: Pt| eg_of(g, a, l).contains(p) <==> eg_of(h, a, l).contains(p) by {
        if eg_of(g, a, l).contains(p) {
            let z = choose|z: ISet<Pt>| eg_dense(g, a, l, z) && #[trigger] z.contains(p);
            assert(eg_dense(h, a, l, z));
        }
        if eg_of(h, a, l).contains(p) {
            let z = choose|z: ISet<Pt>| eg_dense(h, a, l, z) && #[trigger] z.contains(p);
            assert(eg_dense(g, a, l, z));
        }
    }
}

pub proof fn lemma_neg_agree(g: &SymbolicAsyncGraph, r: ISet<Pt>, s: ISet<Pt>)
    requires wf_graph(g), agree(r, s, unit_of(g))
    ensures agree(neg(g, r), co(s), unit_of(g))
{
    reveal(wf_graph);
    let u = unit_of(g);
    assert forall|p: Pt| neg(g, r).intersect(u).contains(p) <==> co(s).intersect(u).contains(p) by {
        if u.contains(p) {
            assert(r.intersect(u).contains(p) <==> s.intersect(u).contains(p));
        }
    }
}
pub proof fn lemma_agree_pt(r: ISet<Pt>, s: ISet<Pt>, u: ISet<Pt>, p: Pt)
    requires agree(r, s, u), u.contains(p)
    ensures r.contains(p) <==> s.contains(p)
{
    assert(r.intersect(u).contains(p) <==> s.intersect(u).contains(p));
}
pub proof fn lemma_agree_intro(r: ISet<Pt>, s: ISet<Pt>, u: ISet<Pt>)
    requires forall|p: Pt| u.contains(p) ==> (r.contains(p) <==> s.contains(p))
    ensures agree(r, s, u)
{
    assert forall|p: Pt| r.intersect(u).contains(p) <==> s.intersect(u).contains(p) by {}
}

pub proof fn lemma_pre_agree(g: &SymbolicAsyncGraph, r: ISet<Pt>, s: ISet<Pt>)
    requires wf_graph(g), agree(r, s, unit_of(g))
    ensures agree(pre_of(g, r), pre_of(g, s), unit_of(g))
{
    reveal(wf_graph);
    let u = unit_of(g);
    assert forall|p: Pt| u.contains(p) implies (pre_of(g, r).contains(p) <==> pre_of(g, s).contains(p)) by {
        if pre_of(g, r).contains(p) {
            let v = choose|v: int| 0 <= v < dim_n() && #[trigger] var_pre_of(g, v, r).contains(p);
            let q = with_state(p, flip(p.s, v));
            assert(u.contains(q));
            lemma_agree_pt(r, s, u, q);
            assert(var_pre_of(g, v, s).contains(p));
        }
        if pre_of(g, s).contains(p) {
            let v = choose|v: int| 0 <= v < dim_n() && #[trigger] var_pre_of(g, v, s).contains(p);
            let q = with_state(p, flip(p.s, v));
            assert(u.contains(q));
            lemma_agree_pt(r, s, u, q);
            assert(var_pre_of(g, v, r).contains(p));
        }
    }
    lemma_agree_intro(pre_of(g, r), pre_of(g, s), u);
}

pub proof fn lemma_eu_agree_half(g: &SymbolicAsyncGraph, r1: ISet<Pt>, r2: ISet<Pt>, s1: ISet<Pt>, s2: ISet<Pt>)
    requires wf_graph(g), agree(r1, s1, unit_of(g)), agree(r2, s2, unit_of(g))
    ensures eu_of(g, r1, r2).intersect(unit_of(g)).subset_of(eu_of(g, s1, s2))
{
    reveal(wf_graph);
    let u = unit_of(g);
    assert forall|p: Pt| eu_of(g, r1, r2).intersect(u).contains(p) implies eu_of(g, s1, s2).contains(p) by {
        assert forall|z: ISet<Pt>| eu_closed(g, s1, s2, z) implies #[trigger] z.contains(p) by {
            // z' = { q | q in u ==> q in z } is closed for (r1, r2)
            let z2 = ISet::new(|q: Pt| u.contains(q) ==> z.contains(q));
            assert(eu_closed(g, r1, r2, z2)) by {
                assert forall|q: Pt| r2.contains(q) implies z2.contains(q) by {
                    if u.contains(q) { lemma_agree_pt(r2, s2, u, q); }
                }
                assert forall|q: Pt| r1.intersect(pre_of(g, z2)).contains(q) implies z2.contains(q) by {
                    if u.contains(q) {
                        let v = choose|v: int| 0 <= v < dim_n() && #[trigger] var_pre_of(g, v, z2).contains(q);
                        let q2 = with_state(q, flip(q.s, v));
                        assert(u.contains(q2));
                        assert(z.contains(q2));
                        assert(var_pre_of(g, v, z).contains(q));
                        assert(pre_of(g, z).contains(q));
                        lemma_agree_pt(r1, s1, u, q);
                        assert(s1.intersect(pre_of(g, z)).contains(q));
                    }
                }
            }
            assert(z2.contains(p));
        }
    }
}
pub proof fn lemma_eu_agree(g: &SymbolicAsyncGraph, r1: ISet<Pt>, r2: ISet<Pt>, s1: ISet<Pt>, s2: ISet<Pt>)
    requires wf_graph(g), agree(r1, s1, unit_of(g)), agree(r2, s2, unit_of(g))
    ensures agree(eu_of(g, r1, r2), eu_of(g, s1, s2), unit_of(g))
{
    reveal(wf_graph);
    lemma_eu_agree_half(g, r1, r2, s1, s2);
    lemma_eu_agree_half(g, s1, s2, r1, r2);
    let u = unit_of(g);
    assert forall|p: Pt| eu_of(g, r1, r2).intersect(u).contains(p) <==> eu_of(g, s1, s2).intersect(u).contains(p) by {}
}

pub proof fn lemma_eg_agree_half(g: &SymbolicAsyncGraph, r: ISet<Pt>, s: ISet<Pt>, l: ISet<Pt>)
    requires wf_graph(g), agree(r, s, unit_of(g))
    ensures eg_of(g, r, l).intersect(unit_of(g)).subset_of(eg_of(g, s, l))
{
    reveal(wf_graph);
    let u = unit_of(g);
    assert forall|p: Pt| eg_of(g, r, l).intersect(u).contains(p) implies eg_of(g, s, l).contains(p) by {
        let z = choose|z: ISet<Pt>| eg_dense(g, r, l, z) && #[trigger] z.contains(p);
        let z2 = z.intersect(u);
        assert(eg_dense(g, s, l, z2)) by {
            assert forall|q: Pt| z2.contains(q) implies s.contains(q) && ex_l(g, z2, l).contains(q) by {
                lemma_agree_pt(r, s, u, q);
                assert(ex_l(g, z, l).contains(q));
                if pre_of(g, z).contains(q) {
                    let v = choose|v: int| 0 <= v < dim_n() && #[trigger] var_pre_of(g, v, z).contains(q);
                    let q2 = with_state(q, flip(q.s, v));
                    assert(u.contains(q2));
                    assert(var_pre_of(g, v, z2).contains(q));
                    assert(pre_of(g, z2).contains(q));
                }
            }
        }
        assert(z2.contains(p));
    }
}
pub proof fn lemma_eg_agree(g: &SymbolicAsyncGraph, r: ISet<Pt>, s: ISet<Pt>, l: ISet<Pt>)
    requires wf_graph(g), agree(r, s, unit_of(g))
    ensures agree(eg_of(g, r, l), eg_of(g, s, l), unit_of(g))
{
    reveal(wf_graph);
    lemma_eg_agree_half(g, r, s, l);
    lemma_eg_agree_half(g, s, r, l);
    let u = unit_of(g);
    assert forall|p: Pt| eg_of(g, r, l).intersect(u).contains(p) <==> eg_of(g, s, l).intersect(u).contains(p) by {}
}
