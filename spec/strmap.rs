// ======================================================================================
// view of an exec HashMap<String, String> as a map on character sequences, and the meaning of
// &str look-ups in it
// ======================================================================================
// view of the exec renaming map (keys / values as character sequences)
pub open spec fn mview(m: Map<String, String>) -> IMap<Seq<char>, Seq<char>> {
    IMap::new(|k: Seq<char>| exists|s: String| #[trigger] m.contains_key(s) && s@ == k,
             |k: Seq<char>| m[choose|s: String| #[trigger] m.contains_key(s) && s@ == k]@)
}
pub proof fn lemma_mview_key(m: Map<String, String>, s: String)
    requires m.contains_key(s)
    ensures mview(m).contains_key(s@), mview(m)[s@] == m[s]@
{
    let s2 = choose|s2: String| #[trigger] m.contains_key(s2) && s2@ == s@;
    axiom_string_ext(s, s2);
}
pub proof fn lemma_mview_insert(m: Map<String, String>, k: String, v: String)
    ensures mview(m.insert(k, v)) =~= mview(m).insert(k@, v@)
{
    let m2 = m.insert(k, v);
    assert forall|q: Seq<char>| mview(m2).contains_key(q) <==> mview(m).insert(k@, v@).contains_key(q) by {
        if mview(m2).contains_key(q) {
            let s = choose|s: String| #[trigger] m2.contains_key(s) && s@ == q;
            if s != k { assert(m.contains_key(s)); }
        }
        if mview(m).contains_key(q) {
            let s = choose|s: String| #[trigger] m.contains_key(s) && s@ == q;
            assert(m2.contains_key(s));
        }
        if q == k@ { assert(m2.contains_key(k)); }
    }
    assert forall|q: Seq<char>| mview(m2).contains_key(q) implies mview(m2)[q] == mview(m).insert(k@, v@)[q] by {
        let s = choose|s: String| #[trigger] m2.contains_key(s) && s@ == q;
        lemma_mview_key(m2, s);
        if q == k@ {
            axiom_string_ext(s, k);
        } else {
            assert(s != k);
            assert(m.contains_key(s));
            lemma_mview_key(m, s);
        }
    }
}
pub proof fn lemma_mview_empty()
    ensures mview(Map::<String, String>::empty()) =~= IMap::<Seq<char>, Seq<char>>::empty()
{
}
pub proof fn lemma_borrow_all(m: Map<String, String>)
    ensures
        forall|k: &str| #[trigger] contains_borrowed_key(m, k) <==> mview(m).contains_key(k@),
        forall|k: &str, v: String| #[trigger] maps_borrowed_key_to_value(m, k, v) ==> mview(m).contains_key(k@) && mview(m)[k@] == v@,
{
    assert forall|k: &str| #[trigger] contains_borrowed_key(m, k) <==> mview(m).contains_key(k@) by {
        axiom_str_borrow_contains(m, k);
    }
    assert forall|k: &str, v: String| #[trigger] maps_borrowed_key_to_value(m, k, v) implies mview(m).contains_key(k@) && mview(m)[k@] == v@ by {
        axiom_str_borrow_maps(m, k, v);
        let s = choose|s: String| #[trigger] m.contains_key(s) && s@ == k@ && m[s] == v;
        lemma_mview_key(m, s);
    }
}

// the depth names x, xx, xxx, ... used by preprocessing
pub open spec fn xs(n: nat) -> Seq<char> { Seq::new(n, |i: int| 'x') }
pub proof fn lemma_mview_is_empty(m: Map<String, String>)
    requires forall|k: Seq<char>| !mview(m).contains_key(k)
    ensures m =~= Map::<String, String>::empty()
{
    assert forall|s: String| !m.contains_key(s) by {
        if m.contains_key(s) { lemma_mview_key(m, s); }
    }
}
