// ======================================================================================
// C17 (evaluation half): what the command-line analysis hands to its output functions.
//   result_exact(s, r): r is the set the LIBRARY returns for the formula text s (C01 / C03 / C04 / C14: the set of points of the
//   graph's unit set that satisfy the accepted tree of s), stated without the graph so that the archive writer can require it.
// ======================================================================================
pub open spec fn result_exact(s: Seq<char>, r: ISet<Pt>) -> bool {
    exists|t: STree| accepted(s, false, t) && r == #[trigger] sem(t, steady_set()).intersect(base_unit())
}
// accepted, except for the number of spare variable sets (which the tool chooses AFTER reading the formulae)
pub open spec fn pre_accepted(s: Seq<char>, t: STree) -> bool {
    lex(s, false) matches Some(ts) && exists|toks: Seq<HctlToken>| #[trigger] view_toks(toks) == ts && (sp_formula(toks) matches Some(st)
        && well_scoped(st, ISet::<Seq<char>>::empty()) && t == rename_spec(st, IMap::<Seq<char>, Seq<char>>::empty(), 0))
}
// rejected for a reason that does not depend on the graph: not in the token language, not derivable, badly scoped / unknown proposition
pub open spec fn rejected_static(s: Seq<char>) -> bool {
    match lex(s, false) {
        None => true,
        Some(ts) => exists|toks: Seq<HctlToken>| #[trigger] view_toks(toks) == ts && (match sp_formula(toks) {
            None => true,
            Some(st) => !well_scoped(st, ISet::<Seq<char>>::empty()),
        }),
    }
}
// the key under which result number i is archived
pub open spec fn result_key(i: nat) -> Seq<char> { "formula-"@ + dec_digits(i) }
// the whole map handed to the archive writer: one entry per formula, entry i under "formula-i", holding the library result of line i
pub open spec fn has_result(results: Map<String, GraphColoredVertices>, fs: Seq<String>, j: int) -> bool {
    exists|k: String| #[trigger] results.contains_key(k) && k@ == result_key(j as nat) && result_exact(fs[j]@, gv(&results[k]))
}
pub open spec fn key_below(k: String, i: int) -> bool { exists|j: int| 0 <= j < i && k@ == #[trigger] result_key(j as nat) }
pub open spec fn results_inv(results: Map<String, GraphColoredVertices>, fs: Seq<String>, i: int) -> bool {
    &&& forall|j: int| 0 <= j < i ==> #[trigger] has_result(results, fs, j)
    &&& forall|k: String| #[trigger] results.contains_key(k) ==> key_below(k, i)
}
pub open spec fn archive_ok(results: Map<String, GraphColoredVertices>, formulae: Seq<String>) -> bool { results_inv(results, formulae, formulae.len() as int) }
// size assumptions on the formula texts (as for the library entry points) and the 16-bit count of variable sets
pub open spec fn tool_texts_small(fs: Seq<String>) -> bool {
    &&& forall|v: Seq<HctlTreeNode>| v.len() == fs.len() && (forall|i: int| 0 <= i < v.len() ==> pre_accepted(fs[i]@, view_tree(#[trigger] v[i])))
            ==> #[trigger] roots_total(v) < i32::MAX && (forall|i: int| 0 <= i < v.len() ==> rsmall(view_tree(#[trigger] v[i])))
    &&& forall|i: int, t: STree| 0 <= i < fs.len() && #[trigger] pre_accepted(fs[i]@, t) ==> qdepth(t, 0) <= u16::MAX
}
// TRUSTED: the decimal rendering of usize by format! is injective
pub axiom fn axiom_dec_digits_inj(a: nat, b: nat)
    requires dec_digits(a) == dec_digits(b)
    ensures a == b;
pub proof fn lemma_result_key_inj(i: nat, j: nat)
    requires result_key(i) == result_key(j)
    ensures i == j
{
    let p = "formula-"@;
    let a = result_key(i); let b = result_key(j);
    assert(dec_digits(i) =~= a.subrange(p.len() as int, a.len() as int));
    assert(dec_digits(j) =~= b.subrange(p.len() as int, b.len() as int));
    axiom_dec_digits_inj(i, j);
}
pub proof fn lemma_results_insert(old: Map<String, GraphColoredVertices>, new: Map<String, GraphColoredVertices>, key: String, res: GraphColoredVertices, fs: Seq<String>, i: int)
    requires results_inv(old, fs, i), 0 <= i < fs.len(), key@ == result_key(i as nat), new == old.insert(key, res), result_exact(fs[i]@, gv(&res))
    ensures results_inv(new, fs, i + 1)
{
    broadcast use axiom_string_ext;
    assert forall|j: int| 0 <= j < i + 1 implies #[trigger] has_result(new, fs, j) by {
        if j == i {
            assert(new.contains_key(key) && new[key] == res);
        } else {
            assert(has_result(old, fs, j));
            let kj = choose|k: String| #[trigger] old.contains_key(k) && k@ == result_key(j as nat) && result_exact(fs[j]@, gv(&old[k]));
            if kj == key { lemma_result_key_inj(i as nat, j as nat); }
            assert(new.contains_key(kj) && new[kj] == old[kj]);
        }
    }
    assert forall|k: String| #[trigger] new.contains_key(k) implies key_below(k, i + 1) by {
        if k == key { assert(0 <= i < i + 1 && k@ == result_key(i as nat)); }
        else {
            assert(old.contains_key(k));
            assert(key_below(k, i));
            let j = choose|j: int| 0 <= j < i && k@ == #[trigger] result_key(j as nat);
            assert(0 <= j < i + 1 && k@ == result_key(j as nat));
        }
    }
}
pub proof fn lemma_not_rejected_static(s: Seq<char>, toks: Seq<HctlToken>)
    requires lex(s, false) == Some(view_toks(toks)), sp_formula(toks) matches Some(st) && well_scoped(st, ISet::<Seq<char>>::empty())
    ensures !rejected_static(s)
{
    assert forall|t2: Seq<HctlToken>| view_toks(t2) == view_toks(toks) implies sp_formula(t2) == sp_formula(toks) by { lemma_sp_view(t2, toks, 10); }
}
// ---- C17: "every formula file (any mix of comment lines, blank lines and surrounding whitespace)": the formulae are the lines of
// the file, with surrounding white space removed, that are neither blank nor comments (first character '#'), in file order
pub open spec fn keep_line(l: Seq<char>) -> bool { trim_of(l).len() > 0 && trim_of(l)[0] != '#' }
pub open spec fn formulae_of(ls: Seq<Seq<char>>) -> Seq<Seq<char>> decreases ls.len() {
    if ls.len() == 0 { Seq::<Seq<char>>::empty() }
    else if keep_line(ls[0]) { seq![trim_of(ls[0])] + formulae_of(ls.drop_first()) }
    else { formulae_of(ls.drop_first()) }
}
pub open spec fn str_views(v: Seq<String>) -> Seq<Seq<char>> { Seq::new(v.len(), |i: int| v[i]@) }
pub broadcast proof fn lemma_str_views_push(v: Seq<String>, s: String)
    ensures #[trigger] str_views(v.push(s)) == str_views(v) + seq![s@]
{
    assert(str_views(v.push(s)) =~= str_views(v) + seq![s@]);
}
