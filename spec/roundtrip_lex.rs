// ======================================================================================
// C06 round trip, tokenizer half: the token language reads the canonical rendering of a printable tree back as the single token tk(t).
// ======================================================================================
pub open spec fn boundary(r: Seq<char>) -> bool { r.len() == 0 || !name_char(r[0]) }
// one token at the head of the text
pub proof fn lemma_lex_step(s: Seq<char>, top: bool, ext: bool, tok: STok, r: Seq<char>)
    requires s.len() > 0, !is_white_space(s[0]), s[0] != '(', s[0] != ')', lex_one(s, ext) == Some((tok, r)), r.len() < s.len()
    ensures lex_group(s, top, ext) == cons_tok(tok, lex_group(r, top, ext))
{
    lemma_lex_group_unfold(s, top, ext);
}
pub proof fn lemma_lex_close(rest: Seq<char>, ext: bool)
    ensures lex_group(seq![')'] + rest, false, ext) == Some((Seq::<STok>::empty(), rest))
{
    let s = seq![')'] + rest;
    lemma_lex_group_unfold(s, false, ext);
    assert(s.drop_first() =~= rest);
}
pub proof fn lemma_lex_open(inner: Seq<char>, top: bool, ext: bool, toks: Seq<STok>, rest: Seq<char>)
    requires lex_group(inner, false, ext) == Some((toks, rest)), rest.len() <= inner.len()
    ensures lex_group(seq!['('] + inner, top, ext) == cons_tok(STok::Group(toks), lex_group(rest, top, ext))
{
    let s = seq!['('] + inner;
    lemma_lex_group_unfold(s, top, ext);
    assert(s.drop_first() =~= inner);
}
pub proof fn lemma_lex_space(s: Seq<char>, top: bool, ext: bool)
    ensures lex_group(seq![' '] + s, top, ext) == lex_group(s, top, ext)
{
    lemma_ws_front(s, ' ', top, ext);
}
// a word: a maximal run of name characters that is not a quantifier letter
pub proof fn lemma_lex_word(w: Seq<char>, r: Seq<char>, ext: bool)
    requires w.len() > 0, name_str(w), boundary(r), w != "3"@, w != "V"@
    ensures lex_one(w + r, ext) == Some((classify(w), r)), r.len() < (w + r).len()
{
    lemma_take_name_lit(w, r);
    assert((w + r)[0] == w[0]);
}
pub proof fn lemma_lex_var(x: Seq<char>, r: Seq<char>, ext: bool)
    requires vname_ok(x)
    ensures lex_one(seq!['{'] + x + seq!['}'] + r, ext) == Some((STok::Var(x), r))
{
    broadcast use axiom_alnum_ascii;
    let s = seq!['{'] + x + seq!['}'] + r;
    assert(s[0] == '{');
    assert(s.drop_first() =~= x + (seq!['}'] + r));
    lemma_take_name_lit(x, seq!['}'] + r);
    assert((seq!['}'] + r).drop_first() =~= r);
}
pub proof fn lemma_lex_wild(p: Seq<char>, r: Seq<char>)
    requires vname_ok(p)
    ensures lex_one(seq!['%'] + p + seq!['%'] + r, true) == Some((STok::Wild(p), r))
{
    broadcast use axiom_alnum_ascii;
    let s = seq!['%'] + p + seq!['%'] + r;
    assert(s[0] == '%');
    assert(s.drop_first() =~= p + (seq!['%'] + r));
    lemma_take_name_lit(p, seq!['%'] + r);
    assert((seq!['%'] + r).drop_first() =~= r);
}
// the header of a quantifier as printed:  {v}[ in %x%]:
pub open spec fn hdr_text(v: Seq<char>, d: Option<Seq<char>>) -> Seq<char> {
    seq!['{'] + v + seq!['}'] + (match d { Some(x) => " in %"@ + x + "%"@, None => Seq::<char>::empty() }) + seq![':']
}
pub proof fn lemma_skip_ws_id(s: Seq<char>)
    requires s.len() == 0 || !is_white_space(s[0])
    ensures skip_ws(s) == s
{
}
pub proof fn lemma_lex_hdr(v: Seq<char>, d: Option<Seq<char>>, x: Seq<char>, dom_ok: bool)
    requires vname_ok(v), d matches Some(n) ==> dom_ok && vname_ok(n)
    ensures lex_hdr(hdr_text(v, d) + x, dom_ok) == Some((v, d, x))
{
    broadcast use axiom_alnum_ascii;
    reveal_strlit(" in %"); reveal_strlit("%");
    let s = hdr_text(v, d) + x;
    assert(s[0] == '{');
    lemma_skip_ws_id(s);
    let s2 = s.drop_first();
    match d {
        None => {
            let tail = seq!['}'] + (seq![':'] + x);
            assert(s2 =~= v + tail);
            lemma_take_name_lit(v, tail);
            let s3 = tail;
            assert(s3.drop_first() =~= seq![':'] + x);
            lemma_skip_ws_id(seq![':'] + x);
            assert((seq![':'] + x).drop_first() =~= x);
        },
        Some(n) => {
            let t8 = seq![':'] + x;
            let t7 = seq!['%'] + t8;
            let t6 = seq!['%'] + (n + t7);
            let t5b = seq![' '] + t6;
            let t5 = seq!['n'] + t5b;
            let t4 = seq!['i'] + t5;
            let t3b = seq![' '] + t4;
            let tail = seq!['}'] + t3b;
            assert(s2 =~= v + tail);
            lemma_take_name_lit(v, tail);
            assert(tail.drop_first() =~= t3b);
            assert(t3b.drop_first() =~= t4);
            lemma_skip_ws_id(t4);
            assert(skip_ws(t3b) == t4);
            assert(t4.drop_first() =~= t5);
            assert(t5.drop_first() =~= t5b);
            assert(t5b.drop_first() =~= t6);
            lemma_skip_ws_id(t6);
            assert(skip_ws(t5b) == t6);
            assert(t6.drop_first() =~= n + t7);
            lemma_take_name_lit(n, t7);
            assert(t7.drop_first() =~= t8);
            lemma_skip_ws_id(t8);
            assert(t8.drop_first() =~= x);
        },
    }
}
pub proof fn lemma_kw_facts()
    ensures
        name_str("EX"@) && name_str("EF"@) && name_str("EG"@) && name_str("AX"@) && name_str("AF"@) && name_str("AG"@),
        name_str("EU"@) && name_str("EW"@) && name_str("AU"@) && name_str("AW"@) && name_str("True"@) && name_str("False"@),
        classify("EX"@) == STok::Unary(UnaryOp::EX), classify("EF"@) == STok::Unary(UnaryOp::EF), classify("EG"@) == STok::Unary(UnaryOp::EG),
        classify("AX"@) == STok::Unary(UnaryOp::AX), classify("AF"@) == STok::Unary(UnaryOp::AF), classify("AG"@) == STok::Unary(UnaryOp::AG),
        classify("EU"@) == STok::Binary(BinaryOp::EU), classify("EW"@) == STok::Binary(BinaryOp::EW),
        classify("AU"@) == STok::Binary(BinaryOp::AU), classify("AW"@) == STok::Binary(BinaryOp::AW),
        classify("True"@) == STok::Prop("True"@), classify("False"@) == STok::Prop("False"@),
{
    broadcast use axiom_alnum_ascii;
    lemma_strlits();
    reveal_strlit("True"); reveal_strlit("False");
    assert("True"@.len() == 4 && "False"@.len() == 5);
}
pub proof fn lemma_lex_unop(op: UnaryOp, y: Seq<char>, top: bool, ext: bool)
    ensures lex_group(disp_unary(op) + (if op is Not { Seq::<char>::empty() } else { seq![' '] }) + y, top, ext) == cons_tok(STok::Unary(op), lex_group(y, top, ext))
{
    broadcast use axiom_alnum_ascii;
    lemma_kw_facts(); lemma_strlits(); reveal_strlit("~");
    if op is Not {
        let s = disp_unary(op) + Seq::<char>::empty() + y;
        assert(s =~= seq!['~'] + y);
        assert(s.drop_first() =~= y);
        lemma_lex_step(s, top, ext, STok::Unary(UnaryOp::Not), y);
    } else {
        let w = disp_unary(op);
        let r = seq![' '] + y;
        let s = w + seq![' '] + y;
        assert(s =~= w + r);
        lemma_lex_word(w, r, ext);
        assert((w + r)[0] == w[0]);
        lemma_lex_step(w + r, top, ext, STok::Unary(op), r);
        lemma_lex_space(y, top, ext);
    }
}
pub proof fn lemma_lex_binop(op: BinaryOp, y: Seq<char>, top: bool, ext: bool)
    ensures lex_group(disp_binary(op) + seq![' '] + y, top, ext) == cons_tok(STok::Binary(op), lex_group(y, top, ext))
{
    broadcast use axiom_alnum_ascii;
    lemma_kw_facts(); lemma_strlits();
    reveal_strlit("&"); reveal_strlit("|"); reveal_strlit("^"); reveal_strlit("=>"); reveal_strlit("<=>");
    let w = disp_binary(op);
    let r = seq![' '] + y;
    let s = w + seq![' '] + y;
    assert(s =~= w + r);
    lemma_lex_space(y, top, ext);
    match op {
        BinaryOp::And => { assert(s =~= seq!['&'] + r); assert(s.drop_first() =~= r); lemma_lex_step(s, top, ext, STok::Binary(op), r); },
        BinaryOp::Or => { assert(s =~= seq!['|'] + r); assert(s.drop_first() =~= r); lemma_lex_step(s, top, ext, STok::Binary(op), r); },
        BinaryOp::Xor => { assert(s =~= seq!['^'] + r); assert(s.drop_first() =~= r); lemma_lex_step(s, top, ext, STok::Binary(op), r); },
        BinaryOp::Imp => {
            assert(s =~= seq!['='] + (seq!['>'] + r));
            assert(s.drop_first() =~= seq!['>'] + r);
            assert(s.drop_first().drop_first() =~= r);
            lemma_lex_step(s, top, ext, STok::Binary(op), r);
        },
        BinaryOp::Iff => {
            assert(s =~= seq!['<'] + (seq!['='] + (seq!['>'] + r)));
            assert(s.drop_first() =~= seq!['='] + (seq!['>'] + r));
            assert(s.drop_first().drop_first().drop_first() =~= r);
            lemma_lex_step(s, top, ext, STok::Binary(op), r);
        },
        _ => {
            lemma_lex_word(w, r, ext);
            assert((w + r)[0] == w[0]);
            lemma_lex_step(w + r, top, ext, STok::Binary(op), r);
        },
    }
}
pub proof fn lemma_lex_hybop(op: HybridOp, v: Seq<char>, d: Option<Seq<char>>, y: Seq<char>, top: bool, ext: bool)
    requires vname_ok(v), d matches Some(n) ==> ext && !(op is Jump) && vname_ok(n)
    ensures lex_group(disp_hybrid(op) + hdr_text(v, d) + y, top, ext) == cons_tok(STok::Hybrid(op, v, d), lex_group(y, top, ext))
{
    broadcast use axiom_alnum_ascii;
    lemma_strlits(); reveal_strlit("!"); reveal_strlit("@");
    let h = hdr_text(v, d) + y;
    let s = disp_hybrid(op) + hdr_text(v, d) + y;
    assert(s =~= disp_hybrid(op) + h);
    assert(h[0] == '{');
    match op {
        HybridOp::Bind => {
            assert(s =~= seq!['!'] + h); assert(s.drop_first() =~= h);
            lemma_lex_hdr(v, d, y, ext);
            lemma_lex_step(s, top, ext, STok::Hybrid(op, v, d), y);
        },
        HybridOp::Jump => {
            assert(s =~= seq!['@'] + h); assert(s.drop_first() =~= h);
            lemma_lex_hdr(v, d, y, false);
            lemma_lex_step(s, top, ext, STok::Hybrid(op, v, d), y);
        },
        HybridOp::Exists => {
            assert(s =~= "3"@ + h);
            lemma_take_name_lit("3"@, h);
            assert(s[0] == '3');
            lemma_lex_hdr(v, d, y, ext);
            lemma_lex_step(s, top, ext, STok::Hybrid(op, v, d), y);
        },
        HybridOp::Forall => {
            assert(s =~= "V"@ + h);
            lemma_take_name_lit("V"@, h);
            assert(s[0] == 'V');
            lemma_lex_hdr(v, d, y, ext);
            lemma_lex_step(s, top, ext, STok::Hybrid(op, v, d), y);
        },
    }
}
// ---- the tokenizer reads a printed tree back as the single token tk(t)
pub proof fn lemma_render_nonempty(t: STree, ext: bool)
    requires printable(t, ext)
    ensures render(t).len() > 0
    decreases t
{
    reveal_strlit("("); reveal_strlit("True"); reveal_strlit("False"); reveal_strlit("{"); reveal_strlit("%");
}
pub proof fn lemma_lex_render_atom(a: SAtom, ext: bool, rest: Seq<char>, top: bool)
    requires printable(STree::Term(a), ext), boundary(rest)
    ensures lex_group(disp_atom(a) + rest, top, ext) == cons_tok(tk(STree::Term(a)), lex_group(rest, top, ext))
{
    broadcast use axiom_alnum_ascii;
    reveal_strlit("{"); reveal_strlit("}"); reveal_strlit("%");
    let t = STree::Term(a);
    let s = disp_atom(a) + rest;
    match a {
        SAtom::True => {
            lemma_kw_facts(); lemma_strlits(); reveal_strlit("True");
            lemma_lex_word("True"@, rest, ext);
            assert(s[0] == 'T');
            lemma_lex_step(s, top, ext, tk(t), rest);
        },
        SAtom::False => {
            lemma_kw_facts(); lemma_strlits(); reveal_strlit("False");
            lemma_lex_word("False"@, rest, ext);
            assert(s[0] == 'F');
            lemma_lex_step(s, top, ext, tk(t), rest);
        },
        SAtom::Prop(n) => {
            lemma_lex_word(n, rest, ext);
            assert(s[0] == n[0] && name_char(n[0]));
            lemma_lex_step(s, top, ext, tk(t), rest);
        },
        SAtom::Var(x) => {
            assert(s =~= seq!['{'] + x + seq!['}'] + rest);
            lemma_lex_var(x, rest, ext);
            assert(s[0] == '{');
            lemma_lex_step(s, top, ext, tk(t), rest);
        },
        SAtom::Wild(p) => {
            assert(s =~= seq!['%'] + p + seq!['%'] + rest);
            lemma_lex_wild(p, rest);
            assert(s[0] == '%');
            lemma_lex_step(s, top, ext, tk(t), rest);
        },
    }
}
pub proof fn lemma_lex_render_un(op: UnaryOp, c: STree, ext: bool, rest: Seq<char>, top: bool)
    requires lex_group(render(c) + (seq![')'] + rest), false, ext) == cons_tok(tk(c), lex_group(seq![')'] + rest, false, ext))
    ensures ({ let t = STree::Un(op, Box::new(c)); lex_group(render(t) + rest, top, ext) == cons_tok(tk(t), lex_group(rest, top, ext)) })
{
    reveal_strlit("("); reveal_strlit(")"); reveal_strlit(" ");
    let t = STree::Un(op, Box::new(c));
    let open = seq!['(']; let close = seq![')']; let sp = seq![' '];
    assert("("@ =~= open && ")"@ =~= close && " "@ =~= sp);
    let sep = if op is Not { Seq::<char>::empty() } else { sp };
    let tail = close + rest;
    let body = render(c) + tail;
    let inner = disp_unary(op) + sep + body;
    assert(render(t) + rest =~= open + inner);
    lemma_lex_unop(op, body, false, ext);
    lemma_lex_close(rest, ext);
    let toks = seq![STok::Unary(op), tk(c)];
    assert(seq![STok::Unary(op)] + (seq![tk(c)] + Seq::<STok>::empty()) =~= toks);
    assert(lex_group(inner, false, ext) == Some((toks, rest)));
    lemma_lex_open(inner, top, ext, toks, rest);
}
pub proof fn lemma_lex_render_bin(op: BinaryOp, l: STree, r: STree, ext: bool, rest: Seq<char>, top: bool)
    requires
        lex_group(render(r) + (seq![')'] + rest), false, ext) == cons_tok(tk(r), lex_group(seq![')'] + rest, false, ext)),
        ({ let b1 = seq![' '] + (disp_binary(op) + seq![' '] + (render(r) + (seq![')'] + rest)));
           lex_group(render(l) + b1, false, ext) == cons_tok(tk(l), lex_group(b1, false, ext)) }),
    ensures ({ let t = STree::Bin(op, Box::new(l), Box::new(r)); lex_group(render(t) + rest, top, ext) == cons_tok(tk(t), lex_group(rest, top, ext)) })
{
    reveal_strlit("("); reveal_strlit(")"); reveal_strlit(" ");
    let t = STree::Bin(op, Box::new(l), Box::new(r));
    let open = seq!['(']; let close = seq![')']; let sp = seq![' '];
    assert("("@ =~= open && ")"@ =~= close && " "@ =~= sp);
    let tail = close + rest;
    let b3 = render(r) + tail;
    let b2 = disp_binary(op) + sp + b3;
    let b1 = sp + b2;
    let inner = render(l) + b1;
    assert(render(t) + rest =~= open + inner);
    lemma_lex_space(b2, false, ext);
    lemma_lex_binop(op, b3, false, ext);
    lemma_lex_close(rest, ext);
    let toks = seq![tk(l), STok::Binary(op), tk(r)];
    assert(seq![tk(l)] + (seq![STok::Binary(op)] + (seq![tk(r)] + Seq::<STok>::empty())) =~= toks);
    assert(lex_group(inner, false, ext) == Some((toks, rest)));
    lemma_lex_open(inner, top, ext, toks, rest);
}
pub proof fn lemma_lex_render_hyb(op: HybridOp, v: Seq<char>, d: Option<Seq<char>>, c: STree, ext: bool, rest: Seq<char>, top: bool)
    requires
        vname_ok(v), d matches Some(n) ==> ext && !(op is Jump) && vname_ok(n),
        lex_group(render(c) + (seq![')'] + rest), false, ext) == cons_tok(tk(c), lex_group(seq![')'] + rest, false, ext)),
    ensures ({ let t = STree::Hyb(op, v, d, Box::new(c)); lex_group(render(t) + rest, top, ext) == cons_tok(tk(t), lex_group(rest, top, ext)) })
{
    reveal_strlit("("); reveal_strlit(")"); reveal_strlit(" "); reveal_strlit("{"); reveal_strlit("}"); reveal_strlit(": ");
    let t = STree::Hyb(op, v, d, Box::new(c));
    let open = seq!['(']; let close = seq![')']; let sp = seq![' '];
    assert("("@ =~= open && ")"@ =~= close && " "@ =~= sp);
    let tail = close + rest;
    let b2 = render(c) + tail;
    let b1 = sp + b2;
    let inner = disp_hybrid(op) + hdr_text(v, d) + b1;
    assert(": "@ =~= seq![':'] + sp);
    assert(render(t) + rest =~= open + inner);
    lemma_lex_hybop(op, v, d, b1, false, ext);
    lemma_lex_space(b2, false, ext);
    lemma_lex_close(rest, ext);
    let toks = seq![STok::Hybrid(op, v, d), tk(c)];
    assert(seq![STok::Hybrid(op, v, d)] + (seq![tk(c)] + Seq::<STok>::empty()) =~= toks);
    assert(lex_group(inner, false, ext) == Some((toks, rest)));
    lemma_lex_open(inner, top, ext, toks, rest);
}
pub proof fn lemma_lex_render(t: STree, ext: bool, rest: Seq<char>, top: bool)
    requires printable(t, ext), boundary(rest)
    ensures lex_group(render(t) + rest, top, ext) == cons_tok(tk(t), lex_group(rest, top, ext))
    decreases t
{
    broadcast use axiom_alnum_ascii;
    let tail = seq![')'] + rest;
    match t {
        STree::Term(a) => { lemma_lex_render_atom(a, ext, rest, top); },
        STree::Un(op, c) => {
            lemma_lex_render(*c, ext, tail, false);
            lemma_lex_render_un(op, *c, ext, rest, top);
        },
        STree::Bin(op, l, r) => {
            let b1 = seq![' '] + (disp_binary(op) + seq![' '] + (render(*r) + tail));
            lemma_lex_render(*l, ext, b1, false);
            lemma_lex_render(*r, ext, tail, false);
            lemma_lex_render_bin(op, *l, *r, ext, rest, top);
        },
        STree::Hyb(op, v, d, c) => {
            lemma_lex_render(*c, ext, tail, false);
            lemma_lex_render_hyb(op, v, d, *c, ext, rest, top);
        },
    }
}
// C06, tokenizer half: the printed text of a printable tree is tokenized as the single token tk(t)
pub proof fn lemma_lex_printed(t: STree, ext: bool)
    requires printable(t, ext)
    ensures lex(render(t), ext) == Some(seq![tk(t)])
{
    let e = Seq::<char>::empty();
    lemma_lex_render(t, ext, e, true);
    assert(render(t) + e =~= render(t));
    lemma_lex_group_unfold(e, true, ext);
    assert(seq![tk(t)] + Seq::<STok>::empty() =~= seq![tk(t)]);
}
// C06: print then tokenize then parse is the identity on printable trees
pub proof fn lemma_print_parse_roundtrip(t: STree, ext: bool, ts: Seq<HctlToken>)
    requires printable(t, ext), lex(render(t), ext) == Some(view_toks(ts))
    ensures sp_formula(ts) == Some(t)
{
    lemma_lex_printed(t, ext);
    lemma_view_toks_len(ts);
    assert(view_toks(ts).len() == 1);
    lemma_view_toks_index(ts, 0);
    assert(view_tok(ts[0]) == tk(t));
    lemma_tk_operand(t);
    lemma_single_chain(ts);
    lemma_parse_tk(t, ext, ts);
}
