// ======================================================================================
// C09: the canoniser canonize_subform (src/evaluation/canonization.rs) against a specification function.
// `scan` is the single pass over the formula text: parentheses are copied (a closing one ends the current level), a quantifier
// `!{x}` / `3{x}` / `V{x}` binds x to the next name var<n>, an occurrence `{x}` is replaced by the name bound to x (a free variable
// gets the next name at its first occurrence), every other character is copied.  `fuel` bounds the recursion of the specification
// (every step consumes a character, so the length of the text is enough: lemma_scan_fuel).
// ======================================================================================
pub uninterp spec fn dec_digits_int(k: int) -> Seq<char>;     // decimal rendering used by format!("{}", k) for i32
pub open spec fn vname(n: int) -> Seq<char> { "var"@ + dec_digits_int(n) }
pub open spec fn take_until(s: Seq<char>) -> Seq<char> decreases s.len() {
    if s.len() == 0 || s[0] == '}' { Seq::<char>::empty() } else { seq![s[0]] + take_until(s.drop_first()) }
}
pub open spec fn drop_until(s: Seq<char>) -> Seq<char> decreases s.len() {
    if s.len() == 0 { s } else if s[0] == '}' { s.drop_first() } else { drop_until(s.drop_first()) }
}
pub struct SS { pub rest: Seq<char>, pub out: Seq<char>, pub m: IMap<Seq<char>, Seq<char>>, pub n: int }
pub open spec fn is_quant(ch: char) -> bool { ch == '!' || ch == '3' || ch == 'V' }
pub open spec fn scan(st: SS, fuel: nat) -> SS decreases fuel {
    if fuel == 0 || st.rest.len() == 0 { st } else {
        let ch = st.rest[0];
        let r = st.rest.drop_first();
        if ch == '(' {
            let inner = scan(SS { rest: r, out: st.out.push('('), ..st }, (fuel - 1) as nat);
            scan(inner, (fuel - 1) as nat)
        } else if ch == ')' {
            SS { rest: r, out: st.out.push(')'), ..st }
        } else if is_quant(ch) && r.len() > 0 && r[0] == '{' {
            let r2 = r.drop_first();
            let name = take_until(r2);
            scan(SS { rest: drop_until(r2), out: st.out + seq![ch] + "{"@ + vname(st.n) + "}"@, m: st.m.insert(name, vname(st.n)), n: st.n + 1 }, (fuel - 1) as nat)
        } else if ch == '{' {
            let name = take_until(r);
            let m2 = if st.m.contains_key(name) { st.m } else { st.m.insert(name, vname(st.n)) };
            let n2 = if st.m.contains_key(name) { st.n } else { st.n + 1 };
            scan(SS { rest: drop_until(r), out: st.out + "{"@ + m2[name] + "}"@, m: m2, n: n2 }, (fuel - 1) as nat)
        } else {
            scan(SS { rest: r, out: st.out.push(ch), ..st }, (fuel - 1) as nat)
        }
    }
}
pub proof fn lemma_drop_until_len(s: Seq<char>)
    ensures drop_until(s).len() <= s.len()
    decreases s.len()
{
    if s.len() > 0 && s[0] != '}' { lemma_drop_until_len(s.drop_first()); }
}
// the scanner only consumes: what is left is not longer than what it started with; counters only grow
pub proof fn lemma_scan_shrinks(st: SS, fuel: nat)
    ensures scan(st, fuel).rest.len() <= st.rest.len(), scan(st, fuel).n >= st.n, scan(st, fuel).n - st.n <= st.rest.len() - scan(st, fuel).rest.len()
    decreases fuel
{
    if fuel == 0 || st.rest.len() == 0 { } else {
        let ch = st.rest[0];
        let r = st.rest.drop_first();
        let f1 = (fuel - 1) as nat;
        if ch == '(' {
            let s1 = SS { rest: r, out: st.out.push('('), ..st };
            lemma_scan_shrinks(s1, f1);
            lemma_scan_shrinks(scan(s1, f1), f1);
        } else if ch == ')' {
        } else if is_quant(ch) && r.len() > 0 && r[0] == '{' {
            let r2 = r.drop_first();
            lemma_drop_until_len(r2);
            lemma_scan_shrinks(SS { rest: drop_until(r2), out: st.out + seq![ch] + "{"@ + vname(st.n) + "}"@, m: st.m.insert(take_until(r2), vname(st.n)), n: st.n + 1 }, f1);
        } else if ch == '{' {
            let name = take_until(r);
            let m2 = if st.m.contains_key(name) { st.m } else { st.m.insert(name, vname(st.n)) };
            let n2 = if st.m.contains_key(name) { st.n } else { st.n + 1 };
            lemma_drop_until_len(r);
            lemma_scan_shrinks(SS { rest: drop_until(r), out: st.out + "{"@ + m2[name] + "}"@, m: m2, n: n2 }, f1);
        } else {
            lemma_scan_shrinks(SS { rest: r, out: st.out.push(ch), ..st }, f1);
        }
    }
}
// enough fuel is enough
pub proof fn lemma_scan_fuel(st: SS, f1: nat, f2: nat)
    requires f1 >= st.rest.len(), f2 >= st.rest.len()
    ensures scan(st, f1) == scan(st, f2)
    decreases st.rest.len(), f1
{
    if st.rest.len() == 0 { } else {
        let ch = st.rest[0];
        let r = st.rest.drop_first();
        let g1 = (f1 - 1) as nat; let g2 = (f2 - 1) as nat;
        if ch == '(' {
            let s1 = SS { rest: r, out: st.out.push('('), ..st };
            lemma_scan_fuel(s1, g1, g2);
            lemma_scan_shrinks(s1, g1);
            lemma_scan_fuel(scan(s1, g1), g1, g2);
        } else if ch == ')' {
        } else if is_quant(ch) && r.len() > 0 && r[0] == '{' {
            let r2 = r.drop_first();
            lemma_drop_until_len(r2);
            lemma_scan_fuel(SS { rest: drop_until(r2), out: st.out + seq![ch] + "{"@ + vname(st.n) + "}"@, m: st.m.insert(take_until(r2), vname(st.n)), n: st.n + 1 }, g1, g2);
        } else if ch == '{' {
            let name = take_until(r);
            let m2 = if st.m.contains_key(name) { st.m } else { st.m.insert(name, vname(st.n)) };
            let n2 = if st.m.contains_key(name) { st.n } else { st.n + 1 };
            lemma_drop_until_len(r);
            lemma_scan_fuel(SS { rest: drop_until(r), out: st.out + "{"@ + m2[name] + "}"@, m: m2, n: n2 }, g1, g2);
        } else {
            lemma_scan_fuel(SS { rest: r, out: st.out.push(ch), ..st }, g1, g2);
        }
    }
}
pub open spec fn scan_all(s: Seq<char>) -> SS {
    scan(SS { rest: s, out: Seq::<char>::empty(), m: IMap::<Seq<char>, Seq<char>>::empty(), n: 0 }, s.len())
}
// the canonical key of a sub-formula text and the renaming that produced it (what get_canonical_and_renaming returns)
#[verifier::opaque]
pub open spec fn canon_str(s: Seq<char>) -> Seq<char> { scan_all(s).out }
#[verifier::opaque]
pub open spec fn canon_map(s: Seq<char>) -> IMap<Seq<char>, Seq<char>> { scan_all(s).m }
