// ======================================================================================
// C09: the canoniser canonize_subform (src/evaluation/canonization.rs) against a specification function.
// `scan` is the single pass over the formula text: parentheses are copied (a closing one ends the current level), a quantifier
// `!{x}` / `3{x}` / `V{x}` binds x to the next name var<n>, an occurrence `{x}` is replaced by the name bound to x (a free variable
// gets the next name at its first occurrence), every other character is copied.  `fuel` bounds the recursion of the specification
// (every step consumes a character, so the length of the text is enough: lemma_scan_fuel).
// ======================================================================================
pub uninterp spec fn dec_digits_int(k: int) -> Seq<char>;     // decimal rendering used by format!("{}", k) for i32
pub open spec fn vname(n: int) -> Seq<char> { "var"@ + dec_digits_int(n) }
pub open spec fn take_until(s: Seq<char>) -> Seq<char> decreases s.len() {
    if s.len() == 0 || s[0] == '}' { Seq::<char>::empty() } else { seq![s[0]] + take_until(s.drop_first()) }
}
pub open spec fn drop_until(s: Seq<char>) -> Seq<char> decreases s.len() {
    if s.len() == 0 { s } else if s[0] == '}' { s.drop_first() } else { drop_until(s.drop_first()) }
}
pub struct SS { pub rest: Seq<char>, pub out: Seq<char>, pub m: IMap<Seq<char>, Seq<char>>, pub n: int }
pub open spec fn is_quant(ch: char) -> bool { ch == '!' || ch == '3' || ch == 'V' }
pub open spec fn scan(st: SS, fuel: nat) -> SS decreases fuel {
    if fuel == 0 || st.rest.len() == 0 { st } else {
        let ch = st.rest[0];
        let r = st.rest.drop_first();
        if ch == '(' {
            let inner = scan(SS { rest: r, out: st.out.push('('), ..st }, (fuel - 1) as nat);
            scan(inner, (fuel - 1) as nat)
        } else if ch == ')' {
            SS { rest: r, out: st.out.push(')'), ..st }
        } else if is_quant(ch) && r.len() > 0 && r[0] == '{' {
            let r2 = r.drop_first();
            let name = take_until(r2);
            scan(SS { rest: drop_until(r2), out: st.out + seq![ch] + "{"@ + vname(st.n) + "}"@, m: st.m.insert(name, vname(st.n)), n: st.n + 1 }, (fuel - 1) as nat)
        } else if ch == '{' {
            let name = take_until(r);
            let m2 = if st.m.contains_key(name) { st.m } else { st.m.insert(name, vname(st.n)) };
            let n2 = if st.m.contains_key(name) { st.n } else { st.n + 1 };
            scan(SS { rest: drop_until(r), out: st.out + "{"@ + m2[name] + "}"@, m: m2, n: n2 }, (fuel - 1) as nat)
        } else {
            scan(SS { rest: r, out: st.out.push(ch), ..st }, (fuel - 1) as nat)
        }
    }
}
pub proof fn lemma_drop_until_len(s: Seq<char>)
    ensures drop_until(s).len() <= s.len()
    decreases s.len()
{
    if s.len() > 0 && s[0] != '}' { lemma_drop_until_len(s.drop_first()); }
}
// the scanner only consumes: what is left is not longer than what it started with; counters only grow
pub proof fn lemma_scan_shrinks(st: SS, fuel: nat)
    ensures scan(st, fuel).rest.len() <= st.rest.len(), scan(st, fuel).n >= st.n, scan(st, fuel).n - st.n <= st.rest.len() - scan(st, fuel).rest.len()
    decreases fuel
{
    if fuel == 0 || st.rest.len() == 0 { } else {
        let ch = st.rest[0];
        let r = st.rest.drop_first();
        let f1 = (fuel - 1) as nat;
        if ch == '(' {
            let s1 = SS { rest: r, out: st.out.push('('), ..st };
            lemma_scan_shrinks(s1, f1);
            lemma_scan_shrinks(scan(s1, f1), f1);
        } else if ch == ')' {
        } else if is_quant(ch) && r.len() > 0 && r[0] == '{' {
            let r2 = r.drop_first();
            lemma_drop_until_len(r2);
            lemma_scan_shrinks(SS { rest: drop_until(r2), out: st.out + seq![ch] + "{"@ + vname(st.n) + "}"@, m: st.m.insert(take_until(r2), vname(st.n)), n: st.n + 1 }, f1);
        } else if ch == '{' {
            let name = take_until(r);
            let m2 = if st.m.contains_key(name) { st.m } else { st.m.insert(name, vname(st.n)) };
            let n2 = if st.m.contains_key(name) { st.n } else { st.n + 1 };
            lemma_drop_until_len(r);
            lemma_scan_shrinks(SS { rest: drop_until(r), out: st.out + "{"@ + m2[name] + "}"@, m: m2, n: n2 }, f1);
        } else {
            lemma_scan_shrinks(SS { rest: r, out: st.out.push(ch), ..st }, f1);
        }
    }
}
// enough fuel is enough
pub proof fn lemma_scan_fuel(st: SS, f1: nat, f2: nat)
    requires f1 >= st.rest.len(), f2 >= st.rest.len()
    ensures scan(st, f1) == scan(st, f2)
    decreases st.rest.len(), f1
{
    if st.rest.len() == 0 { } else {
        let ch = st.rest[0];
        let r = st.rest.drop_first();
        let g1 = (f1 - 1) as nat; let g2 = (f2 - 1) as nat;
        if ch == '(' {
            let s1 = SS { rest: r, out: st.out.push('('), ..st };
            lemma_scan_fuel(s1, g1, g2);
            lemma_scan_shrinks(s1, g1);
            lemma_scan_fuel(scan(s1, g1), g1, g2);
        } else if ch == ')' {
        } else if is_quant(ch) && r.len() > 0 && r[0] == '{' {
            let r2 = r.drop_first();
            lemma_drop_until_len(r2);
            lemma_scan_fuel(SS { rest: drop_until(r2), out: st.out + seq![ch] + "{"@ + vname(st.n) + "}"@, m: st.m.insert(take_until(r2), vname(st.n)), n: st.n + 1 }, g1, g2);
        } else if ch == '{' {
            let name = take_until(r);
            let m2 = if st.m.contains_key(name) { st.m } else { st.m.insert(name, vname(st.n)) };
            let n2 = if st.m.contains_key(name) { st.n } else { st.n + 1 };
            lemma_drop_until_len(r);
            lemma_scan_fuel(SS { rest: drop_until(r), out: st.out + "{"@ + m2[name] + "}"@, m: m2, n: n2 }, g1, g2);
        } else {
            lemma_scan_fuel(SS { rest: r, out: st.out.push(ch), ..st }, g1, g2);
        }
    }
}
pub open spec fn scan_all(s: Seq<char>) -> SS {
    scan(SS { rest: s, out: Seq::<char>::empty(), m: IMap::<Seq<char>, Seq<char>>::empty(), n: 0 }, s.len())
}
// ---- structural facts about the scanner's output
pub open spec fn inert(s: Seq<char>) -> bool { forall|i: int| 0 <= i < s.len() ==> #[trigger] s[i] != '(' && s[i] != ')' && s[i] != '{' }
// text without parentheses and braces is copied unchanged
pub proof fn lemma_scan_inert(st: SS, fuel: nat)
    requires inert(st.rest), fuel >= st.rest.len()
    ensures scan(st, fuel) == (SS { rest: Seq::<char>::empty(), out: st.out + st.rest, m: st.m, n: st.n })
    decreases st.rest.len()
{
    if st.rest.len() == 0 {
        assert(st.out + st.rest =~= st.out);
        assert(st.rest =~= Seq::<char>::empty());
    } else {
        let ch = st.rest[0];
        let r = st.rest.drop_first();
        assert(ch != '(' && ch != ')' && ch != '{');
        if r.len() > 0 { assert(r[0] == st.rest[1]); }
        assert forall|i: int| 0 <= i < r.len() implies #[trigger] r[i] != '(' && r[i] != ')' && r[i] != '{' by { assert(r[i] == st.rest[i + 1]); }
        let s1 = SS { rest: r, out: st.out.push(ch), ..st };
        lemma_scan_inert(s1, (fuel - 1) as nat);
        assert(st.out.push(ch) + r =~= st.out + st.rest);
    }
}
// the output only grows
pub open spec fn is_prefix(a: Seq<char>, b: Seq<char>) -> bool { a.len() <= b.len() && forall|i: int| 0 <= i < a.len() ==> a[i] == b[i] }
pub proof fn lemma_prefix_trans(a: Seq<char>, b: Seq<char>, c: Seq<char>)
    requires is_prefix(a, b), is_prefix(b, c)
    ensures is_prefix(a, c)
{
    assert forall|i: int| 0 <= i < a.len() implies a[i] == c[i] by { assert(a[i] == b[i]); assert(b[i] == c[i]); }
}
pub proof fn lemma_scan_prefix(st: SS, fuel: nat)
    ensures is_prefix(st.out, scan(st, fuel).out)
    decreases fuel
{
    if fuel == 0 || st.rest.len() == 0 { } else {
        let ch = st.rest[0];
        let r = st.rest.drop_first();
        let f1 = (fuel - 1) as nat;
        if ch == '(' {
            let s1 = SS { rest: r, out: st.out.push('('), ..st };
            lemma_scan_prefix(s1, f1);
            lemma_scan_prefix(scan(s1, f1), f1);
            assert(is_prefix(st.out, s1.out));
            lemma_prefix_trans(st.out, s1.out, scan(s1, f1).out);
            lemma_prefix_trans(st.out, scan(s1, f1).out, scan(scan(s1, f1), f1).out);
        } else if ch == ')' {
            assert(is_prefix(st.out, st.out.push(')')));
        } else if is_quant(ch) && r.len() > 0 && r[0] == '{' {
            let r2 = r.drop_first();
            let s1 = SS { rest: drop_until(r2), out: st.out + seq![ch] + "{"@ + vname(st.n) + "}"@, m: st.m.insert(take_until(r2), vname(st.n)), n: st.n + 1 };
            lemma_scan_prefix(s1, f1);
            assert(is_prefix(st.out, s1.out));
            lemma_prefix_trans(st.out, s1.out, scan(s1, f1).out);
        } else if ch == '{' {
            let name = take_until(r);
            let m2 = if st.m.contains_key(name) { st.m } else { st.m.insert(name, vname(st.n)) };
            let n2 = if st.m.contains_key(name) { st.n } else { st.n + 1 };
            let s1 = SS { rest: drop_until(r), out: st.out + "{"@ + m2[name] + "}"@, m: m2, n: n2 };
            lemma_scan_prefix(s1, f1);
            assert(is_prefix(st.out, s1.out));
            lemma_prefix_trans(st.out, s1.out, scan(s1, f1).out);
        } else {
            let s1 = SS { rest: r, out: st.out.push(ch), ..st };
            lemma_scan_prefix(s1, f1);
            assert(is_prefix(st.out, s1.out));
            lemma_prefix_trans(st.out, s1.out, scan(s1, f1).out);
        }
    }
}
// the canonical key of a sub-formula text and the renaming that produced it (what get_canonical_and_renaming returns)
#[verifier::opaque]
pub open spec fn canon_str(s: Seq<char>) -> Seq<char> { scan_all(s).out }
#[verifier::opaque]
pub open spec fn canon_map(s: Seq<char>) -> IMap<Seq<char>, Seq<char>> { scan_all(s).m }
// ---- C09: "the accompanying renaming maps the variables to their canonical names injectively"
// TRUSTED: the decimal rendering of integers by format! is injective
pub axiom fn axiom_dec_inj(a: int, b: int)
    requires dec_digits_int(a) == dec_digits_int(b)
    ensures a == b;
// every value of the renaming is a name var<i> with i below the counter, and different variables have different names
pub open spec fn ren_ok(m: IMap<Seq<char>, Seq<char>>, n: int) -> bool {
    &&& forall|a: Seq<char>| #[trigger] m.contains_key(a) ==> exists|i: int| 0 <= i < n && m[a] == vname(i)
    &&& forall|a: Seq<char>, b: Seq<char>| #![trigger m.contains_key(a), m.contains_key(b)] m.contains_key(a) && m.contains_key(b) && a != b ==> m[a] != m[b]
}
pub proof fn lemma_vname_inj(i: int, j: int)
    requires vname(i) == vname(j)
    ensures i == j
{
    reveal_strlit("var");
    let a = vname(i); let b = vname(j);
    assert(dec_digits_int(i) =~= a.subrange(3, a.len() as int));
    assert(dec_digits_int(j) =~= b.subrange(3, b.len() as int));
    axiom_dec_inj(i, j);
}
pub proof fn lemma_ren_insert(m: IMap<Seq<char>, Seq<char>>, n: int, name: Seq<char>)
    requires ren_ok(m, n), n >= 0
    ensures ren_ok(m.insert(name, vname(n)), n + 1)
{
    let m2 = m.insert(name, vname(n));
    assert forall|a: Seq<char>| #[trigger] m2.contains_key(a) implies exists|i: int| 0 <= i < n + 1 && m2[a] == vname(i) by {
        if a == name { assert(0 <= n < n + 1 && m2[a] == vname(n)); }
        else { assert(m.contains_key(a)); let i = choose|i: int| 0 <= i < n && m[a] == vname(i); assert(0 <= i < n + 1 && m2[a] == vname(i)); }
    }
    assert forall|a: Seq<char>, b: Seq<char>| #![trigger m2.contains_key(a), m2.contains_key(b)] m2.contains_key(a) && m2.contains_key(b) && a != b implies m2[a] != m2[b] by {
        if a == name {
            assert(m.contains_key(b)); let i = choose|i: int| 0 <= i < n && m[b] == vname(i);
            if vname(n) == vname(i) { lemma_vname_inj(n, i); }
        } else if b == name {
            assert(m.contains_key(a)); let i = choose|i: int| 0 <= i < n && m[a] == vname(i);
            if vname(n) == vname(i) { lemma_vname_inj(n, i); }
        } else {
            assert(m.contains_key(a) && m.contains_key(b));
        }
    }
}
pub proof fn lemma_ren_mono(m: IMap<Seq<char>, Seq<char>>, n: int, n2: int)
    requires ren_ok(m, n), n <= n2
    ensures ren_ok(m, n2)
{
    assert forall|a: Seq<char>| #[trigger] m.contains_key(a) implies exists|i: int| 0 <= i < n2 && m[a] == vname(i) by {
        let i = choose|i: int| 0 <= i < n && m[a] == vname(i); assert(0 <= i < n2 && m[a] == vname(i));
    }
}
pub proof fn lemma_scan_ren(st: SS, fuel: nat)
    requires ren_ok(st.m, st.n), st.n >= 0
    ensures ren_ok(scan(st, fuel).m, scan(st, fuel).n), scan(st, fuel).n >= st.n
    decreases fuel
{
    if fuel == 0 || st.rest.len() == 0 { } else {
        let ch = st.rest[0];
        let r = st.rest.drop_first();
        let f1 = (fuel - 1) as nat;
        if ch == '(' {
            let s1 = SS { rest: r, out: st.out.push('('), ..st };
            lemma_scan_ren(s1, f1);
            lemma_scan_ren(scan(s1, f1), f1);
        } else if ch == ')' {
        } else if is_quant(ch) && r.len() > 0 && r[0] == '{' {
            let r2 = r.drop_first();
            lemma_ren_insert(st.m, st.n, take_until(r2));
            lemma_scan_ren(SS { rest: drop_until(r2), out: st.out + seq![ch] + "{"@ + vname(st.n) + "}"@, m: st.m.insert(take_until(r2), vname(st.n)), n: st.n + 1 }, f1);
        } else if ch == '{' {
            let name = take_until(r);
            let m2 = if st.m.contains_key(name) { st.m } else { st.m.insert(name, vname(st.n)) };
            let n2 = if st.m.contains_key(name) { st.n } else { st.n + 1 };
            if !st.m.contains_key(name) { lemma_ren_insert(st.m, st.n, name); }
            lemma_scan_ren(SS { rest: drop_until(r), out: st.out + "{"@ + m2[name] + "}"@, m: m2, n: n2 }, f1);
        } else {
            lemma_scan_ren(SS { rest: r, out: st.out.push(ch), ..st }, f1);
        }
    }
}
// C09: the renaming returned by get_canonical_and_renaming is injective
pub proof fn lemma_canon_map_injective(s: Seq<char>)
    ensures forall|a: Seq<char>, b: Seq<char>| #![trigger canon_map(s).contains_key(a), canon_map(s).contains_key(b)]
        canon_map(s).contains_key(a) && canon_map(s).contains_key(b) && a != b ==> canon_map(s)[a] != canon_map(s)[b]
{
    reveal(canon_map);
    let st = SS { rest: s, out: Seq::<char>::empty(), m: IMap::<Seq<char>, Seq<char>>::empty(), n: 0 };
    assert(ren_ok(st.m, 0));
    lemma_scan_ren(st, s.len());
}
