// ======================================================================================
// C03 (second sentence) / C15: the semantics of a formula does not depend on the auxiliary copies of the
// state variables other than those of its free variables; for a closed formula it depends on none.
// ======================================================================================
pub open spec fn indep(z: ISet<Pt>, k: int) -> bool {
    forall|p: Pt, v: Seq<bool>| #![trigger z.contains(with_slot(p, k, v))] shaped(p) && v.len() == dim_n() ==> (z.contains(p) <==> z.contains(with_slot(p, k, v)))
}
pub proof fn lemma_with_slot_back(p: Pt, k: int, v: Seq<bool>)
    requires shaped(p), 0 <= k < dim_k(), v.len() == dim_n()
    ensures with_slot(with_slot(p, k, v), k, p.e[k]) == p, shaped(with_slot(p, k, v))
{
    lemma_shaped_with_slot(p, k, v);
    let q = with_slot(with_slot(p, k, v), k, p.e[k]);
    assert(q.e =~= p.e);
}
pub proof fn lemma_indep_half(z: ISet<Pt>, k: int)
    requires 0 <= k < dim_k(), z.subset_of(all_pts()),
        forall|p: Pt, v: Seq<bool>| #![trigger z.contains(with_slot(p, k, v))] shaped(p) && v.len() == dim_n() && z.contains(p) ==> z.contains(with_slot(p, k, v)),
    ensures indep(z, k)
{
    assert forall|p: Pt, v: Seq<bool>| #![trigger z.contains(with_slot(p, k, v))] shaped(p) && v.len() == dim_n() implies (z.contains(p) <==> z.contains(with_slot(p, k, v))) by {
        if z.contains(with_slot(p, k, v)) {
            lemma_with_slot_back(p, k, v);
            let q = with_slot(p, k, v);
            assert(z.contains(with_slot(q, k, p.e[k])));
        }
    }
}
pub proof fn lemma_indep_bool(a: ISet<Pt>, b: ISet<Pt>, k: int)
    requires indep(a, k), indep(b, k), 0 <= k < dim_k()
    ensures indep(a.intersect(b), k), indep(a.union(b), k), indep(co(a), k)
{
    assert forall|p: Pt, v: Seq<bool>| #![trigger co(a).contains(with_slot(p, k, v))] shaped(p) && v.len() == dim_n() implies (co(a).contains(p) <==> co(a).contains(with_slot(p, k, v))) by {
        lemma_shaped_with_slot(p, k, v);
        assert(a.contains(p) <==> a.contains(with_slot(p, k, v)));
    }
    assert forall|p: Pt, v: Seq<bool>| #![trigger a.intersect(b).contains(with_slot(p, k, v))] shaped(p) && v.len() == dim_n() implies (a.intersect(b).contains(p) <==> a.intersect(b).contains(with_slot(p, k, v))) by {
        assert(a.contains(p) <==> a.contains(with_slot(p, k, v)));
        assert(b.contains(p) <==> b.contains(with_slot(p, k, v)));
    }
    assert forall|p: Pt, v: Seq<bool>| #![trigger a.union(b).contains(with_slot(p, k, v))] shaped(p) && v.len() == dim_n() implies (a.union(b).contains(p) <==> a.union(b).contains(with_slot(p, k, v))) by {
        assert(a.contains(p) <==> a.contains(with_slot(p, k, v)));
        assert(b.contains(p) <==> b.contains(with_slot(p, k, v)));
    }
}
pub proof fn lemma_indep_consts(k: int)
    requires 0 <= k < dim_k()
    ensures indep(all_pts(), k), indep(ISet::<Pt>::empty(), k), forall|i: int| indep(#[trigger] s_prop(i), k), forall|j: int| j != k ==> indep(#[trigger] s_var(j), k)
{
    assert forall|p: Pt, v: Seq<bool>| #![trigger all_pts().contains(with_slot(p, k, v))] shaped(p) && v.len() == dim_n() implies (all_pts().contains(p) <==> all_pts().contains(with_slot(p, k, v))) by { lemma_shaped_with_slot(p, k, v); }
    assert forall|i: int| indep(#[trigger] s_prop(i), k) by {
        assert forall|p: Pt, v: Seq<bool>| #![trigger s_prop(i).contains(with_slot(p, k, v))] shaped(p) && v.len() == dim_n() implies (s_prop(i).contains(p) <==> s_prop(i).contains(with_slot(p, k, v))) by { lemma_shaped_with_slot(p, k, v); }
    }
    assert forall|j: int| j != k implies indep(#[trigger] s_var(j), k) by {
        assert forall|p: Pt, v: Seq<bool>| #![trigger s_var(j).contains(with_slot(p, k, v))] shaped(p) && v.len() == dim_n() implies (s_var(j).contains(p) <==> s_var(j).contains(with_slot(p, k, v))) by {
            lemma_shaped_with_slot(p, k, v);
            let q = with_slot(p, k, v);
            if 0 <= j < dim_k() { assert(q.e[j] == p.e[j]); } else { assert(q.e[j] == p.e[j]); }
        }
    }
}
pub proof fn lemma_indep_pre(g: &SymbolicAsyncGraph, z: ISet<Pt>, k: int)
    requires indep(z, k), 0 <= k < dim_k()
    ensures indep(pre_of(g, z), k)
{
    assert forall|p: Pt, v: Seq<bool>| #![trigger pre_of(g, z).contains(with_slot(p, k, v))] shaped(p) && v.len() == dim_n() && pre_of(g, z).contains(p) implies pre_of(g, z).contains(with_slot(p, k, v)) by {
        let w = choose|w: int| 0 <= w < dim_n() && #[trigger] var_pre_of(g, w, z).contains(p);
        let q = with_state(p, flip(p.s, w));
        let p2 = with_slot(p, k, v);
        lemma_shaped_with_slot(p, k, v);
        assert(shaped(q));
        assert(z.contains(with_slot(q, k, v)));
        assert(with_slot(q, k, v) == with_state(p2, flip(p2.s, w)));
        assert(var_pre_of(g, w, z).contains(p2));
    }
    assert(pre_of(g, z).subset_of(all_pts()));
    lemma_indep_half(pre_of(g, z), k);
}
pub proof fn lemma_indep_ex(z: ISet<Pt>, l: ISet<Pt>, k: int)
    requires indep(z, k), indep(l, k), 0 <= k < dim_k()
    ensures indep(s_ex(z, l), k), indep(s_ax(z, l), k)
{
    lemma_indep_pre(&base_graph(), z, k);
    lemma_indep_bool(z, l, k);
    lemma_indep_bool(pre_of(&base_graph(), z), z.intersect(l), k);
    lemma_indep_bool(z, z, k);
    lemma_indep_pre(&base_graph(), co(z), k);
    lemma_indep_bool(co(z), l, k);
    lemma_indep_bool(pre_of(&base_graph(), co(z)), co(z).intersect(l), k);
    lemma_indep_bool(s_ex(co(z), l), s_ex(co(z), l), k);
}
pub open spec fn shift(z: ISet<Pt>, k: int, v: Seq<bool>) -> ISet<Pt> { ISet::new(|p: Pt| z.contains(with_slot(p, k, v))) }
pub proof fn lemma_indep_eu(a: ISet<Pt>, b: ISet<Pt>, k: int)
    requires indep(a, k), indep(b, k), 0 <= k < dim_k(), b.subset_of(all_pts())
    ensures indep(s_eu(a, b), k)
{
    let g = &base_graph();
    let e = s_eu(a, b);
    lemma_eu_fixed(g, a, b);
    // e is inside all_pts: all_pts-restricted e is closed
    let ep = e.intersect(all_pts());
    assert(eu_closed(g, a, b, ep)) by {
        assert forall|p: Pt| a.intersect(pre_of(g, ep)).contains(p) implies ep.contains(p) by {
            lemma_pre_mono(g, ep, e);
            assert(a.intersect(pre_of(g, e)).contains(p));
        }
    }
    assert(e.subset_of(all_pts()));
    assert forall|p: Pt, v: Seq<bool>| #![trigger e.contains(with_slot(p, k, v))] shaped(p) && v.len() == dim_n() && e.contains(p) implies e.contains(with_slot(p, k, v)) by {
        // z = { q shaped | for every value w of slot k: q[k := w] in e } is closed
        let z = ISet::new(|q: Pt| shaped(q) && forall|w: Seq<bool>| w.len() == dim_n() ==> #[trigger] e.contains(with_slot(q, k, w)));
        assert(eu_closed(g, a, b, z)) by {
            assert forall|q: Pt| b.contains(q) implies z.contains(q) by {
                assert forall|w: Seq<bool>| w.len() == dim_n() implies #[trigger] e.contains(with_slot(q, k, w)) by {
                    assert(b.contains(with_slot(q, k, w)));
                }
            }
            assert forall|q: Pt| a.intersect(pre_of(g, z)).contains(q) implies z.contains(q) by {
                let x = choose|x: int| 0 <= x < dim_n() && #[trigger] var_pre_of(g, x, z).contains(q);
                let q2 = with_state(q, flip(q.s, x));
                assert(z.contains(q2));
                assert forall|w: Seq<bool>| w.len() == dim_n() implies #[trigger] e.contains(with_slot(q, k, w)) by {
                    let qw = with_slot(q, k, w);
                    lemma_shaped_with_slot(q, k, w);
                    assert(a.contains(qw));
                    assert(e.contains(with_slot(q2, k, w)));
                    assert(with_slot(q2, k, w) == with_state(qw, flip(qw.s, x)));
                    assert(var_pre_of(g, x, e).contains(qw));
                    assert(a.intersect(pre_of(g, e)).contains(qw));
                }
            }
        }
        assert(z.contains(p));
    }
    lemma_indep_half(e, k);
}
pub proof fn lemma_indep_eg(a: ISet<Pt>, l: ISet<Pt>, k: int)
    requires indep(a, k), indep(l, k), 0 <= k < dim_k(), a.subset_of(all_pts())
    ensures indep(s_eg(a, l), k)
{
    let g = &base_graph();
    let e = s_eg(a, l);
    lemma_eg_dense(g, a, l);
    assert(e.subset_of(all_pts()));
    assert forall|p: Pt, v: Seq<bool>| #![trigger e.contains(with_slot(p, k, v))] shaped(p) && v.len() == dim_n() && e.contains(p) implies e.contains(with_slot(p, k, v)) by {
        // z = { q[k := w] | q in e } is dense
        let z = ISet::new(|q: Pt| shaped(q) && exists|w: Seq<bool>| w.len() == dim_n() && #[trigger] e.contains(with_slot(q, k, w)));
        assert(eg_dense(g, a, l, z)) by {
            assert forall|q: Pt| z.contains(q) implies a.contains(q) && ex_l(g, z, l).contains(q) by {
                let w = choose|w: Seq<bool>| w.len() == dim_n() && #[trigger] e.contains(with_slot(q, k, w));
                let qw = with_slot(q, k, w);
                lemma_with_slot_back(q, k, w);
                assert(a.contains(qw));
                assert(a.contains(with_slot(qw, k, q.e[k])));
                assert(ex_l(g, e, l).contains(qw));
                if pre_of(g, e).contains(qw) {
                    let x = choose|x: int| 0 <= x < dim_n() && #[trigger] var_pre_of(g, x, e).contains(qw);
                    let r = with_state(qw, flip(qw.s, x));
                    let r0 = with_state(q, flip(q.s, x));
                    assert(with_slot(r0, k, w) == r);
                    assert(shaped(r0));
                    assert(z.contains(r0));
                    assert(var_pre_of(g, x, z).contains(q));
                    assert(pre_of(g, z).contains(q));
                } else {
                    assert(l.contains(qw));
                    assert(l.contains(with_slot(qw, k, q.e[k])));
                    assert(e.contains(with_slot(q, k, w)));
                    assert(z.intersect(l).contains(q));
                }
            }
        }
        let pv = with_slot(p, k, v);
        lemma_with_slot_back(p, k, v);
        assert(e.contains(with_slot(pv, k, p.e[k])));
        assert(z.contains(pv));
    }
    lemma_indep_half(e, k);
}
pub proof fn lemma_indep_au(a: ISet<Pt>, b: ISet<Pt>, l: ISet<Pt>, k: int)
    requires indep(a, k), indep(b, k), indep(l, k), 0 <= k < dim_k(), b.subset_of(all_pts()), a.subset_of(all_pts())
    ensures indep(s_au(a, b, l), k)
{
    let e = s_au(a, b, l);
    assert(s_au_closed(a, b, l, all_pts().intersect(a.union(b))));
    assert(e.subset_of(all_pts()));
    // e is closed
    assert(s_au_closed(a, b, l, e)) by {
        assert forall|p: Pt| a.intersect(s_ax(e, l)).contains(p) implies e.contains(p) by {
            assert forall|z: ISet<Pt>| s_au_closed(a, b, l, z) implies #[trigger] z.contains(p) by {
                assert(e.subset_of(z));
                // s_ax is monotone
                assert(co(z).subset_of(co(e)));
                lemma_pre_mono(&base_graph(), co(z), co(e));
                assert(s_ax(z, l).contains(p));
            }
        }
    }
    assert forall|p: Pt, v: Seq<bool>| #![trigger e.contains(with_slot(p, k, v))] shaped(p) && v.len() == dim_n() && e.contains(p) implies e.contains(with_slot(p, k, v)) by {
        let z = ISet::new(|q: Pt| shaped(q) && forall|w: Seq<bool>| w.len() == dim_n() ==> #[trigger] e.contains(with_slot(q, k, w)));
        assert(s_au_closed(a, b, l, z)) by {
            assert forall|q: Pt| b.contains(q) implies z.contains(q) by {
                assert forall|w: Seq<bool>| w.len() == dim_n() implies #[trigger] e.contains(with_slot(q, k, w)) by { assert(b.contains(with_slot(q, k, w))); }
            }
            assert forall|q: Pt| a.intersect(s_ax(z, l)).contains(q) implies z.contains(q) by {
                assert forall|w: Seq<bool>| w.len() == dim_n() implies #[trigger] e.contains(with_slot(q, k, w)) by {
                    let qw = with_slot(q, k, w);
                    lemma_with_slot_back(q, k, w);
                    assert(a.contains(qw));
                    // qw in AX(e): otherwise q would have a successor / self-loop outside z
                    if s_ex(co(e), l).contains(qw) {
                        if pre_of(&base_graph(), co(e)).contains(qw) {
                            let x = choose|x: int| 0 <= x < dim_n() && #[trigger] var_pre_of(&base_graph(), x, co(e)).contains(qw);
                            let r = with_state(qw, flip(qw.s, x));
                            let r0 = with_state(q, flip(q.s, x));
                            assert(with_slot(r0, k, w) == r);
                            assert(shaped(r0));
                            assert(!z.contains(r0));
                            assert(co(z).contains(r0));
                            assert(var_pre_of(&base_graph(), x, co(z)).contains(q));
                            assert(pre_of(&base_graph(), co(z)).contains(q));
                        } else {
                            assert(l.contains(qw));
                            assert(l.contains(with_slot(qw, k, q.e[k])));
                            assert(!e.contains(with_slot(q, k, w)));
                            assert(co(z).intersect(l).contains(q));
                        }
                        assert(s_ex(co(z), l).contains(q));
                    }
                    assert(a.intersect(s_ax(e, l)).contains(qw));
                }
            }
        }
        assert(z.contains(p));
    }
    lemma_indep_half(e, k);
}
pub proof fn lemma_indep_hybrid(z: ISet<Pt>, j: int, k: int)
    requires 0 <= k < dim_k(), 0 <= j < dim_k(), j != k ==> indep(z, k)
    ensures
        indep(bind_sem(z, j), k), indep(exists_sem(z, j), k), indep(forall_sem(z, j), k),
        j != k ==> indep(jump_sem(z, j), k),
{
    assert forall|p: Pt, v: Seq<bool>| #![trigger bind_sem(z, j).contains(with_slot(p, k, v))] shaped(p) && v.len() == dim_n() implies (bind_sem(z, j).contains(p) <==> bind_sem(z, j).contains(with_slot(p, k, v))) by {
        lemma_shaped_with_slot(p, k, v);
        let pv = with_slot(p, k, v);
        if j == k { assert(with_slot(pv, j, pv.s).e =~= with_slot(p, j, p.s).e); }
        else {
            lemma_shaped_with_slot(p, j, p.s);
            assert(with_slot(pv, j, pv.s).e =~= with_slot(with_slot(p, j, p.s), k, v).e);
            assert(with_slot(pv, j, pv.s) == with_slot(with_slot(p, j, p.s), k, v));
        }
    }
    assert forall|p: Pt, v: Seq<bool>| #![trigger exists_sem(z, j).contains(with_slot(p, k, v))] shaped(p) && v.len() == dim_n() implies (exists_sem(z, j).contains(p) <==> exists_sem(z, j).contains(with_slot(p, k, v))) by {
        lemma_shaped_with_slot(p, k, v);
        let pv = with_slot(p, k, v);
        assert forall|u: Seq<bool>| u.len() == dim_n() implies (z.contains(with_slot(p, j, u)) <==> z.contains(with_slot(pv, j, u))) by {
            if j == k { assert(with_slot(pv, j, u).e =~= with_slot(p, j, u).e); }
            else {
                lemma_shaped_with_slot(p, j, u);
                assert(with_slot(pv, j, u).e =~= with_slot(with_slot(p, j, u), k, v).e);
                assert(with_slot(pv, j, u) == with_slot(with_slot(p, j, u), k, v));
            }
        }
        if exists_sem(z, j).contains(p) { let u = choose|u: Seq<bool>| u.len() == dim_n() && z.contains(with_slot(p, j, u)); assert(z.contains(with_slot(pv, j, u))); }
        if exists_sem(z, j).contains(pv) { let u = choose|u: Seq<bool>| u.len() == dim_n() && z.contains(with_slot(pv, j, u)); assert(z.contains(with_slot(p, j, u))); }
    }
    assert forall|p: Pt, v: Seq<bool>| #![trigger forall_sem(z, j).contains(with_slot(p, k, v))] shaped(p) && v.len() == dim_n() implies (forall_sem(z, j).contains(p) <==> forall_sem(z, j).contains(with_slot(p, k, v))) by {
        lemma_shaped_with_slot(p, k, v);
        let pv = with_slot(p, k, v);
        assert forall|u: Seq<bool>| u.len() == dim_n() implies (z.contains(with_slot(p, j, u)) <==> z.contains(with_slot(pv, j, u))) by {
            if j == k { assert(with_slot(pv, j, u).e =~= with_slot(p, j, u).e); }
            else {
                lemma_shaped_with_slot(p, j, u);
                assert(with_slot(pv, j, u).e =~= with_slot(with_slot(p, j, u), k, v).e);
                assert(with_slot(pv, j, u) == with_slot(with_slot(p, j, u), k, v));
            }
        }
    }
    if j != k {
        assert forall|p: Pt, v: Seq<bool>| #![trigger jump_sem(z, j).contains(with_slot(p, k, v))] shaped(p) && v.len() == dim_n() implies (jump_sem(z, j).contains(p) <==> jump_sem(z, j).contains(with_slot(p, k, v))) by {
            lemma_shaped_with_slot(p, k, v);
            let pv = with_slot(p, k, v);
            assert(pv.e[j] == p.e[j]);
            assert(with_state(pv, pv.e[j]) == with_slot(with_state(p, p.e[j]), k, v));
            assert(shaped(with_state(p, p.e[j])));
        }
    }
}
// the semantics of a plain tree with depth names depends only on the slots of its free variables (slots below d)
pub proof fn lemma_sem_indep(t: STree, l: ISet<Pt>, d: nat, k: int)
    requires canonical_names(t, d), plain(t), d <= k < dim_k(), qdepth(t, d) <= dim_k(), indep(l, k)
    ensures indep(sem(t, l), k), sem(t, l).subset_of(all_pts())
    decreases t
{
    lemma_indep_consts(k);
    lemma_qdepth_ge(t, d);
    match t {
        STree::Term(SAtom::Var(x)) => {
            let i = choose|i: nat| 1 <= i <= d && x == xs(i);
            lemma_slot_xs(i);
        },
        STree::Term(SAtom::Prop(n)) => {},
        STree::Term(_) => {},
        STree::Un(op, c) => {
            lemma_sem_indep(*c, l, d, k);
            let z = sem(*c, l);
            lemma_indep_bool(z, z, k);
            lemma_indep_ex(z, l, k);
            lemma_indep_eu(all_pts(), z, k);
            lemma_indep_eg(z, l, k);
            lemma_indep_eu(all_pts(), co(z), k);
            lemma_indep_bool(s_ef(co(z)), s_ef(co(z)), k);
            lemma_indep_eg(co(z), l, k);
            lemma_indep_bool(s_eg(co(z), l), s_eg(co(z), l), k);
            lemma_sem_sub(t, l);
        },
        STree::Bin(op, a, b) => {
            lemma_qdepth_ge(*a, d); lemma_qdepth_ge(*b, d);
            lemma_sem_indep(*a, l, d, k); lemma_sem_indep(*b, l, d, k);
            let za = sem(*a, l); let zb = sem(*b, l);
            lemma_indep_bool(za, zb, k);
            lemma_indep_bool(za, za, k); lemma_indep_bool(zb, zb, k);
            lemma_indep_bool(co(za), zb, k);
            lemma_indep_bool(co(za), co(zb), k);
            lemma_indep_bool(za.intersect(zb), co(za).intersect(co(zb)), k);
            lemma_indep_bool(s_iff(za, zb), s_iff(za, zb), k);
            lemma_indep_eu(za, zb, k);
            lemma_indep_au(za, zb, l, k);
            lemma_indep_eg(za, l, k);
            lemma_indep_bool(s_eu(za, zb), s_eg(za, l), k);
            lemma_indep_eu(co(zb), co(za).intersect(co(zb)), k);
            lemma_indep_bool(s_eu(co(zb), co(za).intersect(co(zb))), za, k);
            lemma_sem_sub(t, l);
        },
        STree::Hyb(op, x, dd, c) => {
            if op is Jump {
                let i = choose|i: nat| 1 <= i <= d && x == xs(i);
                lemma_slot_xs(i);
                lemma_qdepth_ge(*c, d);
                lemma_sem_indep(*c, l, d, k);
                lemma_indep_hybrid(sem(*c, l), slot_name(x), k);
            } else {
                lemma_slot_xs(d + 1);
                lemma_qdepth_ge(*c, d + 1);
                if k >= d + 1 { lemma_sem_indep(*c, l, d + 1, k); }
                lemma_indep_hybrid(sem(*c, l), slot_name(x), k);
            }
            lemma_sem_sub(t, l);
        },
    }
}
// every semantic set only contains well-shaped points (for plain trees)
pub proof fn lemma_sem_sub(t: STree, l: ISet<Pt>)
    requires plain(t)
    ensures sem(t, l).subset_of(all_pts())
    decreases t
{
    match t {
        STree::Term(_) => {},
        STree::Un(op, c) => {
            lemma_sem_sub(*c, l);
            let z = sem(*c, l);
            let g = &base_graph();
            assert(eu_closed(g, all_pts(), z, all_pts()));
            lemma_eg_dense(g, z, l);
        },
        STree::Bin(op, a, b) => {
            lemma_sem_sub(*a, l); lemma_sem_sub(*b, l);
            let za = sem(*a, l); let zb = sem(*b, l);
            let g = &base_graph();
            assert(eu_closed(g, za, zb, all_pts().intersect(za.union(zb))));
            assert(s_au_closed(za, zb, l, all_pts().intersect(za.union(zb))));
            lemma_eg_dense(g, za, l);
        },
        STree::Hyb(op, x, dd, c) => { lemma_sem_sub(*c, l); },
    }
}

// ---- from slot-wise independence to independence of all auxiliary variables (what sanitising needs)
pub open spec fn take_slots(p: Pt, q: Pt, j: int) -> Pt { Pt { e: Seq::new(p.e.len(), |i: int| if i < j { q.e[i] } else { p.e[i] }), ..p } }
pub proof fn lemma_indep_all(z: ISet<Pt>, p: Pt, q: Pt, j: int)
    requires forall|k: int| 0 <= k < dim_k() ==> indep(z, k), shaped(p), shaped(q), q.s == p.s, q.c == p.c, 0 <= j <= dim_k()
    ensures z.contains(p) <==> z.contains(take_slots(p, q, j)), shaped(take_slots(p, q, j))
    decreases j
{
    if j == 0 {
        assert(take_slots(p, q, 0).e =~= p.e);
        assert(take_slots(p, q, 0) == p);
    } else {
        lemma_indep_all(z, p, q, j - 1);
        let a = take_slots(p, q, j - 1);
        let b = take_slots(p, q, j);
        assert(b.e =~= with_slot(a, j - 1, q.e[j - 1]).e);
        assert(b == with_slot(a, j - 1, q.e[j - 1]));
        assert(indep(z, j - 1));
        lemma_shaped_with_slot(a, j - 1, q.e[j - 1]);
    }
}
pub proof fn lemma_ext_indep(z: ISet<Pt>)
    requires forall|k: int| 0 <= k < dim_k() ==> indep(z, k), z.subset_of(all_pts())
    ensures ext_indep(z)
{
    assert forall|p: Pt, q: Pt| #![trigger z.contains(p), z.contains(q)] z.contains(p) && shaped(q) && q.s == p.s && q.c == p.c implies z.contains(q) by {
        lemma_indep_all(z, p, q, dim_k() as int);
        assert(take_slots(p, q, dim_k() as int).e =~= q.e);
        assert(take_slots(p, q, dim_k() as int) == q);
    }
}
pub proof fn lemma_ext_indep_slot(z: ISet<Pt>, k: int)
    requires ext_indep(z), 0 <= k < dim_k(), z.subset_of(all_pts())
    ensures indep(z, k)
{
    assert forall|p: Pt, v: Seq<bool>| #![trigger z.contains(with_slot(p, k, v))] shaped(p) && v.len() == dim_n() implies (z.contains(p) <==> z.contains(with_slot(p, k, v))) by {
        lemma_shaped_with_slot(p, k, v);
    }
}
// C03 / C15: the result for a closed plain formula does not depend on the auxiliary variables
pub proof fn lemma_closed_result_ext_indep(g: &SymbolicAsyncGraph, r: ISet<Pt>, t: STree)
    requires graph_ready(g), ok(g, r, sem(t, steady_set())), canonical_names(t, 0), plain(t), qdepth(t, 0) <= dim_k()
    ensures ext_indep(r)
{
    reveal(gok); reveal(wf_graph);
    let l = steady_set();
    let bu = base_unit();
    // the base unit set and the steady states do not depend on the auxiliary variables
    assert forall|k: int| 0 <= k < dim_k() implies indep(bu, k) && indep(l, k) by {
        assert(slot_free(&base_graph(), k));
        assert forall|p: Pt, v: Seq<bool>| #![trigger bu.contains(with_slot(p, k, v))] shaped(p) && v.len() == dim_n() implies (bu.contains(p) <==> bu.contains(with_slot(p, k, v))) by {
            lemma_with_slot_back(p, k, v);
            let pv = with_slot(p, k, v);
            assert(differ_slot(p, pv, k));
            assert(differ_slot(pv, p, k));
        }
        assert forall|p: Pt, v: Seq<bool>| #![trigger l.contains(with_slot(p, k, v))] shaped(p) && v.len() == dim_n() implies (l.contains(p) <==> l.contains(with_slot(p, k, v))) by {
            let pv = with_slot(p, k, v);
            assert(bu.contains(p) <==> bu.contains(pv));
            assert(has_succ(&base_graph(), p) == has_succ(&base_graph(), pv)) by {
                if has_succ(&base_graph(), p) { let x = choose|x: int| 0 <= x < dim_n() && #[trigger] can_flip(&base_graph(), x, p.s, p.c); assert(can_flip(&base_graph(), x, pv.s, pv.c)); }
                if has_succ(&base_graph(), pv) { let x = choose|x: int| 0 <= x < dim_n() && #[trigger] can_flip(&base_graph(), x, pv.s, pv.c); assert(can_flip(&base_graph(), x, p.s, p.c)); }
            }
        }
    }
    lemma_ok_is_exact(g, r, sem(t, l));
    assert forall|k: int| 0 <= k < dim_k() implies indep(r, k) by {
        lemma_sem_indep(t, l, 0, k);
        lemma_indep_bool(sem(t, l), bu, k);
    }
    lemma_sem_sub(t, l);
    lemma_ext_indep(r);
}
