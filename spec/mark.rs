// ======================================================================================
// Specification layer of unit mark: what the evaluator needs from the duplicate table (first clause of ctx_inv):
// every key is a wild-card key or the canonical text of a preprocessed, non-wild-card tree with AT MOST ONE variable name,
// and every counter is at least 1.  (C04 relies on it; the "at most one variable" restriction is what makes the renaming of a
// cached result by substitute_hctl_var sound.)
// ======================================================================================
pub open spec fn nd_ok(x: NodeWithDomains) -> bool { wf(*x.subtree) && tree_pre(view_tree(*x.subtree)) && rsmall(view_tree(*x.subtree)) }
pub open spec fn nd_size(x: NodeWithDomains) -> nat { s_size(view_tree(*x.subtree)) }
pub open spec fn heap_ok(h: Seq<NodeWithDomains>) -> bool { forall|i: int| 0 <= i < h.len() ==> nd_ok(#[trigger] h[i]) }
pub open spec fn heap_total(h: Seq<NodeWithDomains>) -> nat decreases h.len() {
    if h.len() == 0 { 0 } else { heap_total(h.drop_last()) + nd_size(h.last()) }
}
pub proof fn lemma_total_push(h: Seq<NodeWithDomains>, x: NodeWithDomains)
    ensures heap_total(h.push(x)) == heap_total(h) + nd_size(x)
{
    assert(h.push(x).drop_last() =~= h);
}
pub proof fn lemma_total_remove(h: Seq<NodeWithDomains>, i: int)
    requires 0 <= i < h.len()
    ensures heap_total(h.remove(i)) + nd_size(h[i]) == heap_total(h)
    decreases h.len()
{
    if i == h.len() - 1 {
        assert(h.remove(i) =~= h.drop_last());
    } else {
        lemma_total_remove(h.drop_last(), i);
        assert(h.remove(i).drop_last() =~= h.drop_last().remove(i));
        assert(h.remove(i).last() == h.last());
    }
}
pub proof fn lemma_tree_pre_un(t: STree)
    requires tree_pre(t), t matches STree::Un(_, _)
    ensures tree_pre(*t->Un_1)
{
    let d = choose|d: nat| canonical_names(t, d);
    assert(canonical_names(*t->Un_1, d));
}
pub proof fn lemma_tree_pre_bin(t: STree)
    requires tree_pre(t), t matches STree::Bin(_, _, _)
    ensures tree_pre(*t->Bin_1), tree_pre(*t->Bin_2)
{
    let d = choose|d: nat| canonical_names(t, d);
    assert(canonical_names(*t->Bin_1, d) && canonical_names(*t->Bin_2, d));
}
pub proof fn lemma_tree_pre_hyb(t: STree)
    requires tree_pre(t), t matches STree::Hyb(_, _, _, _)
    ensures tree_pre(*t->Hyb_3)
{
    let d = choose|d: nat| canonical_names(t, d);
    if t->Hyb_0 is Jump { assert(canonical_names(*t->Hyb_3, d)); } else { assert(canonical_names(*t->Hyb_3, d + 1)); }
}
pub open spec fn dups_ok(m: Map<FormulaWithDomains, i32>, bound: int) -> bool {
    forall|k: FormulaWithDomains| #[trigger] m.contains_key(k) ==> 1 <= m[k] <= bound && dup_ok(k)
}
// at most one entry: all keys are equal
pub proof fn lemma_len_le_one<K, V>(m: Map<K, V>, x: K, y: K)
    requires m.dom().finite(), m.len() <= 1, m.contains_key(x), m.contains_key(y)
    ensures x == y
{
    if x != y {
        let s = Set::<K>::empty().insert(x).insert(y);
        vstd::set_lib::lemma_len_subset(s, m.dom());
        assert(s.len() == 2);
    }
}
pub proof fn lemma_push(h0: Seq<NodeWithDomains>, h1: Seq<NodeWithDomains>)
    requires h1.len() == h0.len() + 1, h1.drop_last() =~= h0
    ensures heap_total(h1) == heap_total(h0) + nd_size(h1.last()), heap_ok(h0) && nd_ok(h1.last()) ==> heap_ok(h1)
{
    if heap_ok(h0) && nd_ok(h1.last()) {
        assert forall|i: int| 0 <= i < h1.len() implies nd_ok(#[trigger] h1[i]) by { if i < h0.len() { assert(h1[i] == h0[i]); } }
    }
}
