// ======================================================================================
// C06, closure: every tree the front end can produce is PRINTABLE (spec/roundtrip.rs), so the round trip applies to it:
//   * every token the tokenizer accepts carries printable names (lemma_lex_pr),
//   * the grammar builds printable trees from such tokens (lemma_parse_pr),
//   * renaming to canonical variable names keeps a well scoped tree printable (lemma_rename_pr).
// The three theorems at the end are stated over the contracts of the real entry points (parse_ok / preprocess_ok, wf).
// ======================================================================================
pub open spec fn word_ok(n: Seq<char>) -> bool {
    n.len() > 0 && name_str(n) && !is_white_space(n[0]) && classify(n) == STok::Prop(n) && n != "3"@ && n != "V"@
}
pub open spec fn stok_pr(t: STok, ext: bool) -> bool decreases t, 0int {
    match t {
        STok::Prop(n) => word_ok(n),
        STok::Var(x) => vname_ok(x),
        STok::Wild(p) => ext && vname_ok(p),
        STok::Hybrid(op, v, d) => vname_ok(v) && (d matches Some(l) ==> ext && !(op is Jump) && vname_ok(l)),
        STok::Group(ts) => stoks_pr(ts, ext),
        STok::Const(_) => false,
        _ => true,
    }
}
pub open spec fn stoks_pr(ts: Seq<STok>, ext: bool) -> bool decreases ts, 1int {
    if ts.len() == 0 { true } else { stoks_pr(ts.subrange(0, ts.len() - 1), ext) && stok_pr(ts[ts.len() - 1], ext) }
}
pub proof fn lemma_stoks_pr_cons(t: STok, ts: Seq<STok>, ext: bool)
    requires stok_pr(t, ext), stoks_pr(ts, ext)
    ensures stoks_pr(seq![t] + ts, ext)
    decreases ts.len()
{
    let w = seq![t] + ts;
    if ts.len() == 0 {
        assert(w.subrange(0, w.len() - 1) =~= Seq::<STok>::empty());
        assert(w[w.len() - 1] == t);
        assert(stoks_pr(Seq::<STok>::empty(), ext));
    } else {
        let ts0 = ts.subrange(0, ts.len() - 1);
        lemma_stoks_pr_cons(t, ts0, ext);
        assert(w.subrange(0, w.len() - 1) =~= seq![t] + ts0);
        assert(w[w.len() - 1] == ts[ts.len() - 1]);
    }
}
pub proof fn lemma_hdr_pr(s: Seq<char>, e: bool)
    ensures lex_hdr(s, e) matches Some((n, d, r)) ==> vname_ok(n) && (d matches Some(l) ==> e && vname_ok(l))
{
    let s1 = skip_ws(s);
    if s1.len() > 0 && s1[0] == '{' {
        lemma_take_name_str(s1.drop_first());
        let s3 = drop_name(s1.drop_first());
        if s3.len() > 0 {
            let s4 = skip_ws(s3.drop_first());
            if s4.len() > 0 {
                let s5 = s4.drop_first();
                if s5.len() > 0 {
                    let s6 = skip_ws(s5.drop_first());
                    if s6.len() > 0 { lemma_take_name_str(s6.drop_first()); }
                }
            }
        }
    }
}
pub proof fn lemma_one_pr(s: Seq<char>, ext: bool)
    requires s.len() > 0, !is_white_space(s[0])
    ensures lex_one(s, ext) matches Some((tok, r)) ==> stok_pr(tok, ext)
{
    let r = s.drop_first();
    lemma_hdr_pr(drop_name(s), ext); lemma_hdr_pr(r, ext); lemma_hdr_pr(drop_name(r), ext);
    lemma_hdr_pr(r, false); lemma_hdr_pr(drop_name(r), false);
    lemma_take_name_str(r);
    lemma_take_name_str(s);
    if name_char(s[0]) {
        let run = take_name(s);
        assert(run[0] == s[0]);
    }
}
pub proof fn lemma_lex_pr(s: Seq<char>, top: bool, ext: bool)
    ensures lex_group(s, top, ext) matches Some((ts, r)) ==> stoks_pr(ts, ext)
    decreases s.len()
{
    lemma_lex_group_unfold(s, top, ext);
    if s.len() == 0 {
        assert(stoks_pr(Seq::<STok>::empty(), ext));
    } else if is_white_space(s[0]) {
        lemma_lex_pr(s.drop_first(), top, ext);
    } else if s[0] == ')' {
        assert(stoks_pr(Seq::<STok>::empty(), ext));
    } else if s[0] == '(' {
        lemma_lex_pr(s.drop_first(), false, ext);
        match lex_group(s.drop_first(), false, ext) {
            Some((inner, r)) => {
                if r.len() < s.len() {
                    lemma_lex_pr(r, top, ext);
                    match lex_group(r, top, ext) {
                        Some((ts, r2)) => { lemma_stoks_pr_cons(STok::Group(inner), ts, ext); },
                        None => {},
                    }
                }
            },
            None => {},
        }
    } else {
        match lex_one(s, ext) {
            Some((tok, r)) => {
                if r.len() < s.len() {
                    lemma_lex_pr(r, top, ext);
                    lemma_one_pr(s, ext);
                    match lex_group(r, top, ext) {
                        Some((ts, r2)) => { lemma_stoks_pr_cons(tok, ts, ext); },
                        None => {},
                    }
                }
            },
            None => {},
        }
    }
}
pub open spec fn toks_pr(ts: Seq<HctlToken>, ext: bool) -> bool { stoks_pr(view_toks(ts), ext) }
pub proof fn lemma_stoks_pr_index(ts: Seq<STok>, i: int, ext: bool)
    requires stoks_pr(ts, ext), 0 <= i < ts.len()
    ensures stok_pr(ts[i], ext)
    decreases ts.len()
{
    if i < ts.len() - 1 { lemma_stoks_pr_index(ts.subrange(0, ts.len() - 1), i, ext); }
}
pub proof fn lemma_stoks_pr_from_index(ts: Seq<STok>, ext: bool)
    requires forall|i: int| 0 <= i < ts.len() ==> stok_pr(#[trigger] ts[i], ext)
    ensures stoks_pr(ts, ext)
    decreases ts.len()
{
    if ts.len() > 0 {
        let pre = ts.subrange(0, ts.len() - 1);
        assert forall|i: int| 0 <= i < pre.len() implies stok_pr(#[trigger] pre[i], ext) by { assert(pre[i] == ts[i]); }
        lemma_stoks_pr_from_index(pre, ext);
    }
}
pub proof fn lemma_toks_pr_sub(ts: Seq<HctlToken>, a: int, b: int, ext: bool)
    requires toks_pr(ts, ext), 0 <= a <= b <= ts.len()
    ensures toks_pr(ts.subrange(a, b), ext)
{
    let sub = ts.subrange(a, b);
    lemma_view_toks_len(sub);
    lemma_view_toks_len(ts);
    assert forall|i: int| 0 <= i < view_toks(sub).len() implies stok_pr(#[trigger] view_toks(sub)[i], ext) by {
        lemma_view_toks_index(sub, i);
        lemma_view_toks_index(ts, a + i);
        lemma_stoks_pr_index(view_toks(ts), a + i, ext);
    }
    lemma_stoks_pr_from_index(view_toks(sub), ext);
}
pub proof fn lemma_tok_pr_at(ts: Seq<HctlToken>, i: int, ext: bool)
    requires toks_pr(ts, ext), 0 <= i < ts.len()
    ensures stok_pr(view_tok(ts[i]), ext)
{
    lemma_view_toks_index(ts, i);
    lemma_stoks_pr_index(view_toks(ts), i, ext);
}
pub proof fn lemma_parse_pr(ts: Seq<HctlToken>, k: int, ext: bool)
    requires toks_pr(ts, ext)
    ensures
        k == 10 ==> (sp_formula(ts) matches Some(t) ==> printable(t, ext)),
        0 <= k <= 6 ==> (sp_level(ts, k) matches Some(t) ==> printable(t, ext)),
        k == 7 ==> (sp_unary(ts) matches Some(t) ==> printable(t, ext)),
        k == 8 ==> (sp_term(ts) matches Some(t) ==> printable(t, ext)),
    decreases ts, (if k == 10 { 20int } else if 0 <= k <= 6 { 19 - k } else if k == 7 { 12int } else { 11int })
{
    if k == 10 {
        match first_idx(ts, -1) {
            Some(i) => {
                if i == 0 && ts.len() > 0 {
                    lemma_toks_pr_sub(ts, 1, ts.len() as int, ext);
                    lemma_parse_pr(ts.subrange(1, ts.len() as int), 10, ext);
                    lemma_tok_pr_at(ts, 0, ext);
                }
            },
            None => { lemma_parse_pr(ts, 0, ext); },
        }
    } else if 0 <= k <= 5 {
        match first_idx(ts, k) {
            Some(i) => {
                if 0 <= i < ts.len() {
                    lemma_toks_pr_sub(ts, 0, i, ext);
                    lemma_toks_pr_sub(ts, i + 1, ts.len() as int, ext);
                    lemma_parse_pr(ts.subrange(0, i), k + 1, ext);
                    lemma_parse_pr(ts.subrange(i + 1, ts.len() as int), k, ext);
                }
            },
            None => { lemma_parse_pr(ts, k + 1, ext); },
        }
    } else if k == 6 {
        lemma_parse_pr(ts, 7, ext);
    } else if k == 7 {
        match first_idx(ts, 6) {
            Some(i) => {
                if i == 0 && ts.len() > 0 {
                    lemma_toks_pr_sub(ts, 1, ts.len() as int, ext);
                    lemma_parse_pr(ts.subrange(1, ts.len() as int), 7, ext);
                }
            },
            None => { lemma_parse_pr(ts, 8, ext); },
        }
    } else if k == 8 {
        if ts.len() == 1 {
            lemma_tok_pr_at(ts, 0, ext);
            match ts[0] {
                HctlToken::Tokens(inner) => { lemma_parse_pr(inner@, 10, ext); },
                _ => {},
            }
        }
    }
}
pub proof fn lemma_xs_vname(d: nat)
    requires d > 0
    ensures vname_ok(xs(d))
{
    broadcast use axiom_alnum_ascii;
    assert forall|i: int| 0 <= i < xs(d).len() implies name_char(#[trigger] xs(d)[i]) by {}
}
pub proof fn lemma_rename_pr(t: STree, m: IMap<Seq<char>, Seq<char>>, d: nat, ext: bool)
    requires printable(t, ext), well_scoped(t, m.dom()), forall|k: Seq<char>| m.dom().contains(k) ==> vname_ok(#[trigger] m[k])
    ensures printable(rename_spec(t, m, d), ext)
    decreases t
{
    match t {
        STree::Term(_) => {},
        STree::Un(_, c) => { lemma_rename_pr(*c, m, d, ext); },
        STree::Bin(_, a, b) => { lemma_rename_pr(*a, m, d, ext); lemma_rename_pr(*b, m, d, ext); },
        STree::Hyb(op, x, dd, c) => {
            if op is Jump { lemma_rename_pr(*c, m, d, ext); } else {
                lemma_xs_vname(d + 1);
                let m2 = m.insert(x, xs(d + 1));
                assert(m2.dom() =~= m.dom().insert(x));
                lemma_rename_pr(*c, m2, d + 1, ext);
            }
        },
    }
}
// ---- C06 over the contracts of the real code
// (1) a consistent node whose identifiers are valid: parsing its stored (= printed) text returns an equal tree
pub proof fn lemma_c06_constructed(n: HctlTreeNode, ext: bool, r: Result<HctlTreeNode, String>)
    requires wf(n), printable(view_tree(n), ext), parse_ok(r, n.formula_str@, ext)
    ensures r matches Ok(m) && wf(m) && view_tree(m) == view_tree(n) && m.formula_str@ == n.formula_str@ && m.height == n.height
{
    let t = view_tree(n);
    lemma_lex_printed(t, ext);
    let toks = choose|toks: Seq<HctlToken>| #[trigger] view_toks(toks) == seq![tk(t)] && agrees(r, sp_formula(toks), tok_size(toks));
    lemma_print_parse_roundtrip(t, ext, toks);
}
// (2) a tree returned by the parser: printing and parsing it again returns an equal tree
pub proof fn lemma_c06_parsed(s: Seq<char>, ext: bool, r1: Result<HctlTreeNode, String>, r2: Result<HctlTreeNode, String>)
    requires parse_ok(r1, s, ext), r1 matches Ok(n) && parse_ok(r2, n.formula_str@, ext)
    ensures r1 matches Ok(n) && (r2 matches Ok(m) && wf(m) && view_tree(m) == view_tree(n) && m.formula_str@ == n.formula_str@ && m.height == n.height)
{
    let n = r1->Ok_0;
    lemma_lex_pr(s, true, ext);
    let ts = lex(s, ext)->Some_0;
    let toks = choose|toks: Seq<HctlToken>| #[trigger] view_toks(toks) == ts && agrees(r1, sp_formula(toks), tok_size(toks));
    lemma_parse_pr(toks, 10, ext);
    lemma_c06_constructed(n, ext, r2);
}
// (3) a tree returned by preprocessing (parse, check scopes, rename): the same
pub proof fn lemma_c06_preprocessed(s: Seq<char>, ext: bool, r1: Result<HctlTreeNode, String>, r2: Result<HctlTreeNode, String>)
    requires preprocess_ok(r1, s, ext), r1 matches Ok(n) && parse_ok(r2, n.formula_str@, ext)
    ensures r1 matches Ok(n) && (r2 matches Ok(m) && wf(m) && view_tree(m) == view_tree(n) && m.formula_str@ == n.formula_str@ && m.height == n.height)
{
    let n = r1->Ok_0;
    lemma_lex_pr(s, true, ext);
    let ts = lex(s, ext)->Some_0;
    let toks = choose|toks: Seq<HctlToken>| #[trigger] view_toks(toks) == ts && (match sp_formula(toks) {
            None => r1 is Err,
            Some(st) => if well_scoped(st, ISet::<Seq<char>>::empty()) {
                    r1 matches Ok(t) && wf(t) && view_tree(t) == rename_spec(st, IMap::<Seq<char>, Seq<char>>::empty(), 0)
                } else { r1 is Err },
        });
    lemma_parse_pr(toks, 10, ext);
    let st = sp_formula(toks)->Some_0;
    let m0 = IMap::<Seq<char>, Seq<char>>::empty();
    assert(m0.dom() =~= ISet::<Seq<char>>::empty());
    lemma_rename_pr(st, m0, 0, ext);
    lemma_c06_constructed(n, ext, r2);
}
