// ======================================================================================
// S-LEX: the token language, written from the README / property C05:
//   * whitespace separates tokens and is otherwise ignored;
//   * a MAXIMAL run of name characters (alphanumeric or '_') is one token: the unary temporal operators
//     EX EF EG AX AF AG, the binary ones EU EW AU AW, the quantifiers 3 and V (exactly that run, followed by
//     a variable header), otherwise a proposition (constants are recognised by the parser);
//   * ~ & | ^ => <=> ; {name} ; %name% (extended only) ; ( group ) ;
//   * hybrid headers  ! @ 3 V \bind \jump \exists \forall  followed by  ws* {name} ws* [in ws* %dom% ws*] ':'
//     (the domain part only for extended formulae and never for jump).
// ======================================================================================
pub uninterp spec fn alnum(c: char) -> bool;      // char::is_alphanumeric (Unicode tables of std: trusted)
// the ASCII part of the table is spelled out (needed to separate names from the operator characters)
pub broadcast axiom fn axiom_alnum_ascii(c: char)
    requires (c as u32) < 128
    ensures #[trigger] alnum(c) == (('a' <= c && c <= 'z') || ('A' <= c && c <= 'Z') || ('0' <= c && c <= '9'));
pub open spec fn name_char(c: char) -> bool { alnum(c) || c == '_' }
pub open spec fn take_name(s: Seq<char>) -> Seq<char> decreases s.len() {
    if s.len() > 0 && name_char(s[0]) { seq![s[0]] + take_name(s.drop_first()) } else { seq![] }
}
pub open spec fn drop_name(s: Seq<char>) -> Seq<char> decreases s.len() {
    if s.len() > 0 && name_char(s[0]) { drop_name(s.drop_first()) } else { s }
}
pub open spec fn skip_ws(s: Seq<char>) -> Seq<char> decreases s.len() {
    if s.len() > 0 && is_white_space(s[0]) { skip_ws(s.drop_first()) } else { s }
}
pub proof fn lemma_drop_name_len(s: Seq<char>)
    ensures drop_name(s).len() <= s.len(), take_name(s).len() + drop_name(s).len() == s.len(),
            drop_name(s).len() > 0 ==> !name_char(drop_name(s)[0])
    decreases s.len()
{
    if s.len() > 0 && name_char(s[0]) { lemma_drop_name_len(s.drop_first()); }
}
pub proof fn lemma_skip_ws_len(s: Seq<char>)
    ensures skip_ws(s).len() <= s.len(), skip_ws(s).len() > 0 ==> !is_white_space(skip_ws(s)[0])
    decreases s.len()
{
    if s.len() > 0 && is_white_space(s[0]) { lemma_skip_ws_len(s.drop_first()); }
}

// abstract tokens
pub enum STok {
    Unary(UnaryOp),
    Binary(BinaryOp),
    Hybrid(HybridOp, Seq<char>, Option<Seq<char>>),
    Prop(Seq<char>),
    Var(Seq<char>),
    Wild(Seq<char>),
    Group(Seq<STok>),
    Const(bool),          // constant atoms: never produced by the tokenizer (constants are lexed as propositions)
}
pub open spec fn view_tok(t: HctlToken) -> STok decreases t, 0int {
    match t {
        HctlToken::Unary(op) => STok::Unary(op),
        HctlToken::Binary(op) => STok::Binary(op),
        HctlToken::Hybrid(op, v, d) => STok::Hybrid(op, v@, view_opt(d)),
        HctlToken::Atom(Atomic::Prop(n)) => STok::Prop(n@),
        HctlToken::Atom(Atomic::Var(n)) => STok::Var(n@),
        HctlToken::Atom(Atomic::WildCardProp(n)) => STok::Wild(n@),
        HctlToken::Atom(Atomic::True) => STok::Const(true),       // never produced by the tokenizer
        HctlToken::Atom(Atomic::False) => STok::Const(false),     // never produced by the tokenizer
        HctlToken::Tokens(v) => STok::Group(view_toks(v@)),
    }
}
pub open spec fn view_toks(ts: Seq<HctlToken>) -> Seq<STok> decreases ts, 1int {
    if ts.len() == 0 { Seq::<STok>::empty() } else { view_toks(ts.subrange(0, ts.len() - 1)).push(view_tok(ts[ts.len() - 1])) }
}

// the header of a hybrid operator: ws* {name} ws* [in ws* %dom% ws*] ':'
pub open spec fn lex_hdr(s: Seq<char>, dom_ok: bool) -> Option<(Seq<char>, Option<Seq<char>>, Seq<char>)> {
    let s1 = skip_ws(s);
    if s1.len() == 0 || s1[0] != '{' { None } else {
        let s2 = s1.drop_first();
        let name = take_name(s2);
        let s3 = drop_name(s2);
        if name.len() == 0 { None } else if s3.len() == 0 || s3[0] != '}' { None } else {
            let s4 = skip_ws(s3.drop_first());
            if dom_ok && s4.len() > 0 && s4[0] == 'i' {
                let s5 = s4.drop_first();
                if s5.len() == 0 || s5[0] != 'n' { None } else {
                    let s6 = skip_ws(s5.drop_first());
                    if s6.len() == 0 || s6[0] != '%' { None } else {
                        let dn = take_name(s6.drop_first());
                        let s7 = drop_name(s6.drop_first());
                        if dn.len() == 0 { None } else if s7.len() == 0 || s7[0] != '%' { None } else {
                            let s8 = skip_ws(s7.drop_first());
                            if s8.len() == 0 || s8[0] != ':' { None } else { Some((name, Some(dn), s8.drop_first())) }
                        }
                    }
                }
            } else {
                if s4.len() == 0 || s4[0] != ':' { None } else { Some((name, None, s4.drop_first())) }
            }
        }
    }
}
pub open spec fn hyb_tok(op: HybridOp, h: Option<(Seq<char>, Option<Seq<char>>, Seq<char>)>) -> Option<(STok, Seq<char>)> {
    match h { Some((n, d, r)) => Some((STok::Hybrid(op, n, d), r)), None => None }
}
// classification of a maximal run of name characters that is not a quantifier
pub open spec fn classify(run: Seq<char>) -> STok {
    if run == "EX"@ { STok::Unary(UnaryOp::EX) } else if run == "EF"@ { STok::Unary(UnaryOp::EF) } else if run == "EG"@ { STok::Unary(UnaryOp::EG) }
    else if run == "AX"@ { STok::Unary(UnaryOp::AX) } else if run == "AF"@ { STok::Unary(UnaryOp::AF) } else if run == "AG"@ { STok::Unary(UnaryOp::AG) }
    else if run == "EU"@ { STok::Binary(BinaryOp::EU) } else if run == "EW"@ { STok::Binary(BinaryOp::EW) }
    else if run == "AU"@ { STok::Binary(BinaryOp::AU) } else if run == "AW"@ { STok::Binary(BinaryOp::AW) }
    else { STok::Prop(run) }
}
// one token at the start of s (s non-empty, s[0] neither whitespace nor a parenthesis)
pub open spec fn lex_one(s: Seq<char>, ext: bool) -> Option<(STok, Seq<char>)> {
    let c = s[0];
    let r = s.drop_first();
    if name_char(c) {
        let run = take_name(s);
        let after = drop_name(s);
        if run == "3"@ { hyb_tok(HybridOp::Exists, lex_hdr(after, ext)) }
        else if run == "V"@ { hyb_tok(HybridOp::Forall, lex_hdr(after, ext)) }
        else { Some((classify(run), after)) }
    } else if c == '~' { Some((STok::Unary(UnaryOp::Not), r)) }
    else if c == '&' { Some((STok::Binary(BinaryOp::And), r)) }
    else if c == '|' { Some((STok::Binary(BinaryOp::Or), r)) }
    else if c == '^' { Some((STok::Binary(BinaryOp::Xor), r)) }
    else if c == '=' { if r.len() > 0 && r[0] == '>' { Some((STok::Binary(BinaryOp::Imp), r.drop_first())) } else { None } }
    else if c == '<' { if r.len() > 1 && r[0] == '=' && r[1] == '>' { Some((STok::Binary(BinaryOp::Iff), r.drop_first().drop_first())) } else { None } }
    else if c == '!' { hyb_tok(HybridOp::Bind, lex_hdr(r, ext)) }
    else if c == '@' { hyb_tok(HybridOp::Jump, lex_hdr(r, false)) }
    else if c == '\\' {
        let opn = take_name(r);
        let after = drop_name(r);
        if opn == "exists"@ { hyb_tok(HybridOp::Exists, lex_hdr(after, ext)) }
        else if opn == "forall"@ { hyb_tok(HybridOp::Forall, lex_hdr(after, ext)) }
        else if opn == "bind"@ { hyb_tok(HybridOp::Bind, lex_hdr(after, ext)) }
        else if opn == "jump"@ { hyb_tok(HybridOp::Jump, lex_hdr(after, false)) }
        else { None }
    }
    else if c == '{' {
        let name = take_name(r);
        let after = drop_name(r);
        if name.len() == 0 || after.len() == 0 || after[0] != '}' { None } else { Some((STok::Var(name), after.drop_first())) }
    }
    else if c == '%' && ext {
        let name = take_name(r);
        let after = drop_name(r);
        if name.len() == 0 || after.len() == 0 || after[0] != '%' { None } else { Some((STok::Wild(name), after.drop_first())) }
    }
    else { None }
}
// a token group: everything up to the matching ')' (not top level) or the end of the input (top level)
#[verifier::opaque]
pub open spec fn lex_group(s: Seq<char>, top: bool, ext: bool) -> Option<(Seq<STok>, Seq<char>)> decreases s.len() {
    if s.len() == 0 { if top { Some((Seq::<STok>::empty(), s)) } else { None } }
    else if is_white_space(s[0]) { lex_group(s.drop_first(), top, ext) }
    else if s[0] == ')' { if top { None } else { Some((Seq::<STok>::empty(), s.drop_first())) } }
    else if s[0] == '(' {
        match lex_group(s.drop_first(), false, ext) {
            Some((inner, r)) => if r.len() < s.len() { cons_tok(STok::Group(inner), lex_group(r, top, ext)) } else { None },
            None => None,
        }
    }
    else {
        match lex_one(s, ext) {
            Some((tok, r)) => if r.len() < s.len() { cons_tok(tok, lex_group(r, top, ext)) } else { None },
            None => None,
        }
    }
}
pub open spec fn cons_tok(t: STok, x: Option<(Seq<STok>, Seq<char>)>) -> Option<(Seq<STok>, Seq<char>)> {
    match x { Some((ts, r)) => Some((seq![t] + ts, r)), None => None }
}
pub open spec fn prepend(a: Seq<STok>, x: Option<(Seq<STok>, Seq<char>)>) -> Option<(Seq<STok>, Seq<char>)> {
    match x { Some((ts, r)) => Some((a + ts, r)), None => None }
}
// the whole formula
pub open spec fn lex(s: Seq<char>, ext: bool) -> Option<Seq<STok>> {
    match lex_group(s, true, ext) { Some((ts, r)) => Some(ts), None => None }
}
pub open spec fn lex_agrees(res: Result<Vec<HctlToken>, String>, x: Option<(Seq<STok>, Seq<char>)>, rest_after: Seq<char>) -> bool {
    match x {
        Some((ts, r)) => (res matches Ok(v) && view_toks(v@) == ts && rest_after == r),
        None => res is Err,
    }
}

// ---- proof support for the tokenizer loop
pub broadcast proof fn lemma_view_push(v: Seq<HctlToken>, t: HctlToken)
    ensures #[trigger] view_toks(v.push(t)) == view_toks(v).push(view_tok(t))
{
    assert(v.push(t).subrange(0, v.push(t).len() - 1) =~= v);
}
pub broadcast proof fn lemma_prepend_step(a: Seq<STok>, tok: STok, x: Option<(Seq<STok>, Seq<char>)>)
    ensures #[trigger] prepend(a, cons_tok(tok, x)) == prepend(a.push(tok), x)
{
    match x {
        Some((ts, r)) => { assert(a + (seq![tok] + ts) =~= a.push(tok) + ts); },
        None => {},
    }
}
pub proof fn lemma_head(s: Seq<char>)
    requires s.len() > 0
    ensures s =~= seq![s[0]] + s.drop_first()
{
}
pub proof fn lemma_strlits()
    ensures
        "EX"@ =~= seq!['E', 'X'], "EF"@ =~= seq!['E', 'F'], "EG"@ =~= seq!['E', 'G'], "EU"@ =~= seq!['E', 'U'], "EW"@ =~= seq!['E', 'W'],
        "AX"@ =~= seq!['A', 'X'], "AF"@ =~= seq!['A', 'F'], "AG"@ =~= seq!['A', 'G'], "AU"@ =~= seq!['A', 'U'], "AW"@ =~= seq!['A', 'W'],
        "3"@ =~= seq!['3'], "V"@ =~= seq!['V'],
{
    reveal_strlit("EX"); reveal_strlit("EF"); reveal_strlit("EG"); reveal_strlit("EU"); reveal_strlit("EW");
    reveal_strlit("AX"); reveal_strlit("AF"); reveal_strlit("AG"); reveal_strlit("AU"); reveal_strlit("AW");
    reveal_strlit("3"); reveal_strlit("V");
}
// shape of a maximal name run from its first characters
pub proof fn lemma_run1(s: Seq<char>)
    requires s.len() > 0, name_char(s[0]), s.len() == 1 || !name_char(s[1])
    ensures take_name(s) =~= seq![s[0]], drop_name(s) == s.drop_first()
{
    reveal_with_fuel(take_name, 4); reveal_with_fuel(drop_name, 4);
    let r = s.drop_first();
    if r.len() > 0 { assert(r[0] == s[1]); }
    assert(take_name(r) =~= Seq::<char>::empty());
}
pub proof fn lemma_run2(s: Seq<char>)
    requires s.len() > 1, name_char(s[0]), name_char(s[1]), s.len() == 2 || !name_char(s[2])
    ensures take_name(s) =~= seq![s[0], s[1]], drop_name(s) == s.drop_first().drop_first()
{
    reveal_with_fuel(take_name, 4); reveal_with_fuel(drop_name, 4);
    let r = s.drop_first();
    assert(r[0] == s[1]);
    if r.len() > 1 { assert(r[1] == s[2]); }
    lemma_run1(r);
    assert(seq![s[0]] + seq![s[1]] =~= seq![s[0], s[1]]);
}
pub proof fn lemma_run_long(s: Seq<char>)
    requires s.len() > 2, name_char(s[0]), name_char(s[1]), name_char(s[2])
    ensures
        take_name(s) =~= seq![s[0], s[1]] + take_name(s.drop_first().drop_first()),
        drop_name(s) == drop_name(s.drop_first().drop_first()),
        take_name(s).len() >= 3,
{
    reveal_with_fuel(take_name, 4); reveal_with_fuel(drop_name, 4);
    let r = s.drop_first();
    let r2 = r.drop_first();
    assert(r[0] == s[1]);
    assert(r2[0] == s[2]);
    assert(seq![s[0]] + (seq![s[1]] + take_name(r2)) =~= seq![s[0], s[1]] + take_name(r2));
}
pub proof fn lemma_run_first(s: Seq<char>)
    requires s.len() > 0, name_char(s[0])
    ensures take_name(s) =~= seq![s[0]] + take_name(s.drop_first()), drop_name(s) == drop_name(s.drop_first()), take_name(s)[0] == s[0]
{
    reveal_with_fuel(take_name, 4); reveal_with_fuel(drop_name, 4);
}

pub proof fn lemma_lex_group_unfold(s: Seq<char>, top: bool, ext: bool)
    ensures lex_group(s, top, ext) == (
        if s.len() == 0 { if top { Some((Seq::<STok>::empty(), s)) } else { None } }
        else if is_white_space(s[0]) { lex_group(s.drop_first(), top, ext) }
        else if s[0] == ')' { if top { None } else { Some((Seq::<STok>::empty(), s.drop_first())) } }
        else if s[0] == '(' {
            match lex_group(s.drop_first(), false, ext) {
                Some((inner, r)) => if r.len() < s.len() { cons_tok(STok::Group(inner), lex_group(r, top, ext)) } else { None },
                None => None,
            }
        }
        else {
            match lex_one(s, ext) {
                Some((tok, r)) => if r.len() < s.len() { cons_tok(tok, lex_group(r, top, ext)) } else { None },
                None => None,
            }
        })
{
    reveal_with_fuel(lex_group, 2);
}

pub proof fn lemma_hdr_len(s: Seq<char>, dom_ok: bool)
    ensures lex_hdr(s, dom_ok) matches Some((n, d, r)) ==> r.len() < s.len()
{
    let s1 = skip_ws(s);
    lemma_skip_ws_len(s);
    if s1.len() > 0 {
        let s2 = s1.drop_first();
        lemma_drop_name_len(s2);
        let s3 = drop_name(s2);
        if s3.len() > 0 {
            lemma_skip_ws_len(s3.drop_first());
            let s4 = skip_ws(s3.drop_first());
            if s4.len() > 0 {
                let s5 = s4.drop_first();
                if s5.len() > 0 {
                    lemma_skip_ws_len(s5.drop_first());
                    let s6 = skip_ws(s5.drop_first());
                    if s6.len() > 0 {
                        lemma_drop_name_len(s6.drop_first());
                        let s7 = drop_name(s6.drop_first());
                        if s7.len() > 0 {
                            lemma_skip_ws_len(s7.drop_first());
                        }
                    }
                }
            }
        }
    }
}
pub proof fn lemma_run_second(s: Seq<char>)
    requires s.len() > 0, name_char(s[0])
    ensures
        take_name(s).len() >= 1, take_name(s)[0] == s[0],
        take_name(s).len() >= 2 ==> (s.len() >= 2 && name_char(s[1]) && take_name(s)[1] == s[1]),
        (s.len() >= 2 && name_char(s[1])) ==> take_name(s).len() >= 2,
{
    reveal_with_fuel(take_name, 4);
    let r = s.drop_first();
    if r.len() > 0 { assert(r[0] == s[1]); }
}
