// ======================================================================================
// C11: fixed-point laws, dualities and monotonicity of the temporal operators, as lemmas over the
// specification operators that the operator functions are proved equal to (unit ops).  They hold on
// every graph (any number of variables / colours) and for arbitrary argument sets: no induction on the
// model, only Knaster-Tarski style reasoning on the impredicative definitions.
// ======================================================================================
pub proof fn lemma_ex_mono(g: &SymbolicAsyncGraph, x: ISet<Pt>, y: ISet<Pt>, l: ISet<Pt>)
    requires x.subset_of(y)
    ensures ex_l(g, x, l).subset_of(ex_l(g, y, l))
{
    lemma_pre_mono(g, x, y);
}
pub proof fn lemma_eu_mono(g: &SymbolicAsyncGraph, a1: ISet<Pt>, b1: ISet<Pt>, a2: ISet<Pt>, b2: ISet<Pt>)
    requires a1.subset_of(a2), b1.subset_of(b2)
    ensures eu_of(g, a1, b1).subset_of(eu_of(g, a2, b2))
{
    assert forall|p: Pt| eu_of(g, a1, b1).contains(p) implies eu_of(g, a2, b2).contains(p) by {
        assert forall|z: ISet<Pt>| eu_closed(g, a2, b2, z) implies #[trigger] z.contains(p) by {
            assert(eu_closed(g, a1, b1, z));
        }
    }
}
pub proof fn lemma_eg_mono(g: &SymbolicAsyncGraph, a1: ISet<Pt>, a2: ISet<Pt>, l: ISet<Pt>)
    requires a1.subset_of(a2)
    ensures eg_of(g, a1, l).subset_of(eg_of(g, a2, l))
{
    assert forall|p: Pt| eg_of(g, a1, l).contains(p) implies eg_of(g, a2, l).contains(p) by {
        let z = choose|z: ISet<Pt>| eg_dense(g, a1, l, z) && #[trigger] z.contains(p);
        assert(eg_dense(g, a2, l, z));
    }
}
pub proof fn lemma_au_mono(g: &SymbolicAsyncGraph, a1: ISet<Pt>, b1: ISet<Pt>, a2: ISet<Pt>, b2: ISet<Pt>, l: ISet<Pt>)
    requires a1.subset_of(a2), b1.subset_of(b2)
    ensures au_of(g, a1, b1, l).subset_of(au_of(g, a2, b2, l))
{
    assert forall|p: Pt| au_of(g, a1, b1, l).contains(p) implies au_of(g, a2, b2, l).contains(p) by {
        assert forall|z: ISet<Pt>| au_closed(g, a2, b2, l, z) implies #[trigger] z.contains(p) by {
            assert(au_closed(g, a1, b1, l, z));
        }
    }
}
// E[a U b] = b or (a and EX E[a U b])      (with or without explicit self-loops)
pub proof fn lemma_eu_unfold(g: &SymbolicAsyncGraph, a: ISet<Pt>, b: ISet<Pt>, l: ISet<Pt>)
    ensures eu_of(g, a, b) =~= b.union(a.intersect(ex_l(g, eu_of(g, a, b), l)))
{
    lemma_eu_fixed(g, a, b);
}
// EF s = s or EX EF s      (inside the unit set)
pub proof fn lemma_ef_unfold(g: &SymbolicAsyncGraph, s: ISet<Pt>, l: ISet<Pt>)
    ensures ef_of(g, s) =~= s.union(unit_of(g).intersect(ex_l(g, ef_of(g, s), l)))
{
    lemma_eu_unfold(g, unit_of(g), s, l);
}
// EG s = s and EX EG s
pub proof fn lemma_eg_unfold(g: &SymbolicAsyncGraph, s: ISet<Pt>, l: ISet<Pt>)
    ensures eg_of(g, s, l) =~= s.intersect(ex_l(g, eg_of(g, s, l), l))
{
    let e = eg_of(g, s, l);
    lemma_eg_dense(g, s, l);
    let z = s.intersect(ex_l(g, e, l));
    assert(e.subset_of(z));
    lemma_ex_mono(g, e, z, l);
    assert(eg_dense(g, s, l, z));
    assert forall|p: Pt| z.contains(p) implies e.contains(p) by {}
}
// A[a U b] = b or (a and AX A[a U b])
pub proof fn lemma_au_unfold(g: &SymbolicAsyncGraph, a: ISet<Pt>, b: ISet<Pt>, l: ISet<Pt>)
    ensures au_of(g, a, b, l) =~= b.union(a.intersect(ax_l(g, au_of(g, a, b, l), l)))
{
    let x = au_of(g, a, b, l);
    // x is closed
    assert(au_closed(g, a, b, l, x)) by {
        assert forall|p: Pt| a.intersect(ax_l(g, x, l)).contains(p) implies x.contains(p) by {
            assert forall|z: ISet<Pt>| au_closed(g, a, b, l, z) implies #[trigger] z.contains(p) by {
                assert(x.subset_of(z));
                lemma_ax_mono(g, x, z, l);
            }
        }
    }
    // F(x) is closed, hence x is below F(x)
    let f = b.union(a.intersect(ax_l(g, x, l)));
    assert(f.subset_of(x));
    lemma_ax_mono(g, f, x, l);
    assert(au_closed(g, a, b, l, f));
}
// AG s is the largest subset of s (inside the unit set) that no transition leaves  ("largest forward-closed subset")
pub open spec fn forward_closed(g: &SymbolicAsyncGraph, z: ISet<Pt>) -> bool {
    z.subset_of(unit_of(g)) && z.intersect(pre_of(g, unit_of(g).difference(z))) =~= ISet::<Pt>::empty()
}
pub proof fn lemma_ag_largest_trap(g: &SymbolicAsyncGraph, s: ISet<Pt>)
    ensures
        ag_of(g, s).subset_of(s), forward_closed(g, ag_of(g, s)),
        forall|z: ISet<Pt>| z.subset_of(s) && forward_closed(g, z) ==> #[trigger] z.subset_of(ag_of(g, s)),
{
    let u = unit_of(g);
    let ns = neg(g, s);
    let e = ef_of(g, ns);      // least z with ns in z and u /\ pre(z) in z
    let a = ag_of(g, s);       // u \ e
    lemma_eu_fixed(g, u, ns);
    assert(a.subset_of(s));
    assert(a.intersect(pre_of(g, u.difference(a))) =~= ISet::<Pt>::empty()) by {
        assert forall|p: Pt| !(a.contains(p) && pre_of(g, u.difference(a)).contains(p)) by {
            if a.contains(p) && pre_of(g, u.difference(a)).contains(p) {
                assert(u.difference(a).subset_of(e));
                lemma_pre_mono(g, u.difference(a), e);
                assert(u.intersect(pre_of(g, e)).contains(p));
            }
        }
    }
    assert forall|z: ISet<Pt>| z.subset_of(s) && forward_closed(g, z) implies #[trigger] z.subset_of(a) by {
        // u \ z is closed for EF(not s)
        let c = u.difference(z);
        assert(eu_closed(g, u, ns, c)) by {
            assert forall|p: Pt| u.intersect(pre_of(g, c)).contains(p) implies c.contains(p) by {
                if z.contains(p) { assert(z.intersect(pre_of(g, u.difference(z))).contains(p)); }
            }
        }
        assert(e.subset_of(c));
    }
}
// AF s = A[true U s]   (given that every state has a successor or a self-loop)
pub proof fn lemma_af_is_au(g: &SymbolicAsyncGraph, s: ISet<Pt>, l: ISet<Pt>)
    requires wf_graph(g), loops_total(g, l)
    ensures af_of(g, within(g, s), l) =~= au_of(g, unit_of(g), within(g, s), l)
{
    reveal(wf_graph);
    let u = unit_of(g);
    let s0 = within(g, s);
    // A[true U s] = not (E[not s U false] or EG not s) = not EG not s
    lemma_ew_duality(g, neg(g, s0), ISet::<Pt>::empty(), l);
    // neg(au_of(neg(empty), neg(neg s0) /\ neg(empty))) == ew_spec(neg s0, empty)
    assert(neg(g, ISet::<Pt>::empty()) =~= u);
    assert(neg(g, neg(g, s0)) =~= s0);
    assert(neg(g, neg(g, s0)).intersect(neg(g, ISet::<Pt>::empty())) =~= s0);
    let x = au_of(g, u, s0, l);
    assert(neg(g, x) =~= ew_spec(g, neg(g, s0), ISet::<Pt>::empty(), l));
    assert(within(g, neg(g, s0)) =~= neg(g, s0));
    assert(within(g, ISet::<Pt>::empty()) =~= ISet::<Pt>::empty());
    // E[a U empty] is empty
    assert(eu_closed(g, neg(g, s0), ISet::<Pt>::empty(), ISet::<Pt>::empty()));
    assert(eu_of(g, neg(g, s0), ISet::<Pt>::empty()) =~= ISet::<Pt>::empty());
    assert(neg(g, x) =~= eg_of(g, neg(g, s0), l));
    assert(au_closed(g, u, s0, l, u));
    assert(x.subset_of(u));
    assert(x =~= neg(g, neg(g, x)));
}
// EX / AX treat steady states as self-loops
pub proof fn lemma_ex_self_loop(g: &SymbolicAsyncGraph, s: ISet<Pt>, l: ISet<Pt>, p: Pt)
    requires l.contains(p), !has_succ(g, p), unit_of(g).contains(p)
    ensures ex_l(g, s, l).contains(p) <==> s.contains(p), ax_l(g, s, l).contains(p) <==> s.contains(p)
{
    assert forall|z: ISet<Pt>| !pre_of(g, z).contains(p) by {
        if pre_of(g, z).contains(p) {
            let v = choose|v: int| 0 <= v < dim_n() && #[trigger] var_pre_of(g, v, z).contains(p);
            assert(can_flip(g, v, p.s, p.c));
        }
    }
}
