//@type src/evaluation/mod.rs VarDomainMap
//@type src/evaluation/mod.rs FormulaWithDomains
//@type src/evaluation/mod.rs VarRenameMap
//@type src/evaluation/mod.rs LabelToSetMap
//@type src/evaluation/eval_context.rs EvalContext
