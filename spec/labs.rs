// ======================================================================================
// Labels of wild-card propositions and of domains are non-structural text: whatever the EXTENDED tokenizer accepts carries only
// labels made of name characters, and so do the tree built from the tokens and the renamed tree (the analogue, for the extended
// language, of the plain-ness lemmas of spec/plain.rs).  Needed because the evaluator's keys embed the labels in rendered text.
// ======================================================================================
pub open spec fn lab_ok(t: STree) -> bool decreases t {
    match t {
        STree::Term(SAtom::Wild(p)) => name_str(p),
        STree::Term(_) => true,
        STree::Un(_, c) => lab_ok(*c),
        STree::Bin(_, a, b) => lab_ok(*a) && lab_ok(*b),
        STree::Hyb(_, _, d, c) => (d matches Some(l) ==> name_str(l)) && lab_ok(*c),
    }
}
pub proof fn lemma_name_str_plain(s: Seq<char>)
    requires name_str(s)
    ensures plain_name(s)
{
    broadcast use axiom_alnum_ascii;
    assert forall|i: int| 0 <= i < s.len() implies plain_char(#[trigger] s[i]) by { assert(name_char(s[i])); }
}
pub open spec fn stok_lab(t: STok) -> bool decreases t, 0int {
    match t {
        STok::Wild(n) => name_str(n),
        STok::Hybrid(_, _, d) => d matches Some(l) ==> name_str(l),
        STok::Group(ts) => stoks_lab(ts),
        _ => true,
    }
}
pub open spec fn stoks_lab(ts: Seq<STok>) -> bool decreases ts, 1int {
    if ts.len() == 0 { true } else { stoks_lab(ts.subrange(0, ts.len() - 1)) && stok_lab(ts[ts.len() - 1]) }
}
pub proof fn lemma_stoks_lab_cons(t: STok, ts: Seq<STok>)
    requires stok_lab(t), stoks_lab(ts)
    ensures stoks_lab(seq![t] + ts)
    decreases ts.len()
{
    let w = seq![t] + ts;
    if ts.len() == 0 {
        assert(w.subrange(0, w.len() - 1) =~= Seq::<STok>::empty());
        assert(w[w.len() - 1] == t);
        assert(stoks_lab(Seq::<STok>::empty()));
    } else {
        let ts0 = ts.subrange(0, ts.len() - 1);
        lemma_stoks_lab_cons(t, ts0);
        assert(w.subrange(0, w.len() - 1) =~= seq![t] + ts0);
        assert(w[w.len() - 1] == ts[ts.len() - 1]);
    }
}
pub proof fn lemma_hdr_lab(s: Seq<char>, e: bool)
    ensures lex_hdr(s, e) matches Some((n, d, r)) ==> (d matches Some(l) ==> name_str(l))
{
    let s1 = skip_ws(s);
    if s1.len() > 0 && s1[0] == '{' {
        let s3 = drop_name(s1.drop_first());
        if s3.len() > 0 {
            let s4 = skip_ws(s3.drop_first());
            if s4.len() > 0 {
                let s5 = s4.drop_first();
                if s5.len() > 0 {
                    let s6 = skip_ws(s5.drop_first());
                    if s6.len() > 0 { lemma_take_name_str(s6.drop_first()); }
                }
            }
        }
    }
}
pub proof fn lemma_lex_lab(s: Seq<char>, top: bool)
    ensures lex_group(s, top, true) matches Some((ts, r)) ==> stoks_lab(ts)
    decreases s.len()
{
    lemma_lex_group_unfold(s, top, true);
    if s.len() == 0 {
        assert(stoks_lab(Seq::<STok>::empty()));
    } else if is_white_space(s[0]) {
        lemma_lex_lab(s.drop_first(), top);
    } else if s[0] == ')' {
        assert(stoks_lab(Seq::<STok>::empty()));
    } else if s[0] == '(' {
        lemma_lex_lab(s.drop_first(), false);
        match lex_group(s.drop_first(), false, true) {
            Some((inner, r)) => {
                if r.len() < s.len() {
                    lemma_lex_lab(r, top);
                    match lex_group(r, top, true) {
                        Some((ts, r2)) => { lemma_stoks_lab_cons(STok::Group(inner), ts); },
                        None => {},
                    }
                }
            },
            None => {},
        }
    } else {
        match lex_one(s, true) {
            Some((tok, r)) => {
                if r.len() < s.len() {
                    lemma_lex_lab(r, top);
                    // a single token of the plain language is plain
                    assert(stok_lab(tok)) by {
                        lemma_hdr_lab(drop_name(s), true); lemma_hdr_lab(s.drop_first(), true); lemma_hdr_lab(drop_name(s.drop_first()), true);
                        lemma_hdr_lab(s.drop_first(), false); lemma_hdr_lab(drop_name(s.drop_first()), false);
                        lemma_take_name_str(s.drop_first());
                    }
                    match lex_group(r, top, true) {
                        Some((ts, r2)) => { lemma_stoks_lab_cons(tok, ts); },
                        None => {},
                    }
                }
            },
            None => {},
        }
    }
}
// the parser builds wild-card atoms / domains only from wild-card tokens / domains
pub open spec fn toks_lab(ts: Seq<HctlToken>) -> bool { stoks_lab(view_toks(ts)) }
pub proof fn lemma_stoks_lab_index(ts: Seq<STok>, i: int)
    requires stoks_lab(ts), 0 <= i < ts.len()
    ensures stok_lab(ts[i])
    decreases ts.len()
{
    if i < ts.len() - 1 { lemma_stoks_lab_index(ts.subrange(0, ts.len() - 1), i); }
}
pub proof fn lemma_stoks_lab_from_index(ts: Seq<STok>)
    requires forall|i: int| 0 <= i < ts.len() ==> stok_lab(#[trigger] ts[i])
    ensures stoks_lab(ts)
    decreases ts.len()
{
    if ts.len() > 0 {
        let pre = ts.subrange(0, ts.len() - 1);
        assert forall|i: int| 0 <= i < pre.len() implies stok_lab(#[trigger] pre[i]) by { assert(pre[i] == ts[i]); }
        lemma_stoks_lab_from_index(pre);
    }
}
pub proof fn lemma_toks_lab_sub(ts: Seq<HctlToken>, a: int, b: int)
    requires toks_lab(ts), 0 <= a <= b <= ts.len()
    ensures toks_lab(ts.subrange(a, b))
{
    let sub = ts.subrange(a, b);
    lemma_view_toks_len(sub);
    lemma_view_toks_len(ts);
    assert forall|i: int| 0 <= i < view_toks(sub).len() implies stok_lab(#[trigger] view_toks(sub)[i]) by {
        lemma_view_toks_index(sub, i);
        lemma_view_toks_index(ts, a + i);
        lemma_stoks_lab_index(view_toks(ts), a + i);
    }
    lemma_stoks_lab_from_index(view_toks(sub));
}
pub proof fn lemma_tok_lab_at(ts: Seq<HctlToken>, i: int)
    requires toks_lab(ts), 0 <= i < ts.len()
    ensures stok_lab(view_tok(ts[i]))
{
    lemma_view_toks_index(ts, i);
    lemma_stoks_lab_index(view_toks(ts), i);
}
pub proof fn lemma_parse_lab(ts: Seq<HctlToken>, k: int)
    requires toks_lab(ts)
    ensures
        k == 10 ==> (sp_formula(ts) matches Some(t) ==> lab_ok(t)),
        0 <= k <= 6 ==> (sp_level(ts, k) matches Some(t) ==> lab_ok(t)),
        k == 7 ==> (sp_unary(ts) matches Some(t) ==> lab_ok(t)),
        k == 8 ==> (sp_term(ts) matches Some(t) ==> lab_ok(t)),
    decreases ts, (if k == 10 { 20int } else if 0 <= k <= 6 { 19 - k } else if k == 7 { 12int } else { 11int })
{
    if k == 10 {
        match first_idx(ts, -1) {
            Some(i) => {
                if i == 0 && ts.len() > 0 {
                    lemma_toks_lab_sub(ts, 1, ts.len() as int);
                    lemma_parse_lab(ts.subrange(1, ts.len() as int), 10);
                    lemma_tok_lab_at(ts, 0);
                }
            },
            None => { lemma_parse_lab(ts, 0); },
        }
    } else if 0 <= k <= 5 {
        match first_idx(ts, k) {
            Some(i) => {
                if 0 <= i < ts.len() {
                    lemma_toks_lab_sub(ts, 0, i);
                    lemma_toks_lab_sub(ts, i + 1, ts.len() as int);
                    lemma_parse_lab(ts.subrange(0, i), k + 1);
                    lemma_parse_lab(ts.subrange(i + 1, ts.len() as int), k);
                }
            },
            None => { lemma_parse_lab(ts, k + 1); },
        }
    } else if k == 6 {
        lemma_parse_lab(ts, 7);
    } else if k == 7 {
        match first_idx(ts, 6) {
            Some(i) => {
                if i == 0 && ts.len() > 0 {
                    lemma_toks_lab_sub(ts, 1, ts.len() as int);
                    lemma_parse_lab(ts.subrange(1, ts.len() as int), 7);
                }
            },
            None => { lemma_parse_lab(ts, 8); },
        }
    } else if k == 8 {
        if ts.len() == 1 {
            lemma_tok_lab_at(ts, 0);
            match ts[0] {
                HctlToken::Tokens(inner) => { lemma_parse_lab(inner@, 10); },
                _ => {},
            }
        }
    }
}
pub proof fn lemma_rename_lab(t: STree, m: IMap<Seq<char>, Seq<char>>, d: nat)
    requires lab_ok(t)
    ensures lab_ok(rename_spec(t, m, d))
    decreases t
{
    match t {
        STree::Term(_) => {},
        STree::Un(_, c) => { lemma_rename_lab(*c, m, d); },
        STree::Bin(_, a, b) => { lemma_rename_lab(*a, m, d); lemma_rename_lab(*b, m, d); },
        STree::Hyb(op, x, dd, c) => { if op is Jump { lemma_rename_lab(*c, m, d); } else { lemma_rename_lab(*c, m.insert(x, xs(d + 1)), d + 1); } },
    }
}

pub proof fn lemma_names_ok_canonical_ext(t: STree, d: nat)
    requires canonical_names(t, d), qdepth(t, d) <= dim_k(), props_valid(t), lab_ok(t), qdepth(t, d) <= usize::MAX
    ensures names_ok(t)
    decreases t
{
    lemma_qdepth_ge(t, d);
    match t {
        STree::Term(SAtom::Var(x)) => {
            let i = choose|i: nat| 1 <= i <= d && x == xs(i);
            lemma_slot_xs(i);
        },
        STree::Term(SAtom::Wild(p)) => { lemma_name_str_plain(p); },
        STree::Term(_) => {},
        STree::Un(_, c) => { lemma_names_ok_canonical_ext(*c, d); },
        STree::Bin(_, a, b) => { lemma_qdepth_ge(*a, d); lemma_qdepth_ge(*b, d); lemma_names_ok_canonical_ext(*a, d); lemma_names_ok_canonical_ext(*b, d); },
        STree::Hyb(op, x, dd, c) => {
            if dd is Some { lemma_name_str_plain(dd->0); }
            if op is Jump {
                let i = choose|i: nat| 1 <= i <= d && x == xs(i);
                lemma_slot_xs(i);
                lemma_qdepth_ge(*c, d);
                lemma_names_ok_canonical_ext(*c, d);
            } else {
                lemma_slot_xs(d + 1);
                lemma_qdepth_ge(*c, d + 1);
                lemma_names_ok_canonical_ext(*c, d + 1);
            }
        },
    }
}
// an accepted extended formula satisfies the evaluator's preconditions on names and scopes
pub proof fn lemma_accepted_ready_ext(s: Seq<char>, n: HctlTreeNode, g: &SymbolicAsyncGraph)
    requires graph_ready(g), wf(n), accepted(s, true, view_tree(n)), qdepth(view_tree(n), 0) <= usize::MAX
    ensures tree_ready(n, g), lab_ok(view_tree(n))
{
    let t = view_tree(n);
    let ts = lex(s, true)->0;
    let toks = choose|toks: Seq<HctlToken>| #[trigger] view_toks(toks) == ts && (sp_formula(toks) matches Some(st)
        && well_scoped(st, ISet::<Seq<char>>::empty()) && t == rename_spec(st, IMap::<Seq<char>, Seq<char>>::empty(), 0) && supported(t));
    let st = sp_formula(toks)->0;
    let e = IMap::<Seq<char>, Seq<char>>::empty();
    assert(e.dom() =~= ISet::<Seq<char>>::empty());
    lemma_lex_lab(s, true);
    lemma_parse_lab(toks, 10);
    lemma_rename_lab(st, e, 0);
    lemma_rename_canonical(st, e, 0);
    lemma_rename_props(st, e, 0);
    lemma_names_ok_canonical_ext(t, 0);
    lemma_busy_empty(g);
    lemma_scope_canonical(t, 0, busy_of(g));
}
