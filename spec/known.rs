// ======================================================================================
// KNOWN FINDINGS D5 / D8 (known_findings.json) as NAMED OBLIGATIONS of the cache-hit path of eval_node.  They are stated as lemmas
// with the facts of the hit as premises; their (empty) proofs FAIL on every run -- the two failures are what the driver reports as
// KNOWN-FINDING -- and eval_node is verified against their statements.  (They were assertions inside eval_node at first; Verus stops
// after two failed obligations per function, so the two known failures masked every further failure of eval_node -- this is how D10 stayed hidden.)
pub proof fn known_d5_hit_universe(g: &SymbolicAsyncGraph, l: ISet<Pt>, t: STree, wt: STree, ww: ISet<Pt>, has_var: bool, va: Seq<char>, vb: Seq<char>, ka: int, kb: int, s0: ISet<Pt>)
    requires gok(g), hit_facts(l, t, wt, ww, has_var, va, vb, ka, kb, s0)
    ensures hit_universe_ok(g, ww, has_var, ka, kb) // [KNOWN-D5] the cached value may come from a more restricted scope than the current one
{
}
pub proof fn known_d8_hit_slot(g: &SymbolicAsyncGraph, l: ISet<Pt>, t: STree, wt: STree, ww: ISet<Pt>, has_var: bool, va: Seq<char>, vb: Seq<char>, ka: int, kb: int, s0: ISet<Pt>)
    requires gok(g), hit_facts(l, t, wt, ww, has_var, va, vb, ka, kb, s0)
    ensures hit_slot_ok(g, has_var, va, vb, ka) // [KNOWN-D8] the variable renamed in the cached value may be a restricted variable of the current scope
{
}
