// ======================================================================================
// C10: replacing sub-formulae by wild-card propositions bound to their raw results does not change the
// result.  `replaced(a, b)`: b is obtained from a by replacing any number of sub-formulae psi by wild-card propositions
// %w% whose context set agrees with the semantics of psi inside the unit set (i.e. is the raw result of psi).
// The surrounding formula may use every operator; quantifiers above a replaced position must not carry a domain
// (restricted graphs exist only as exec values; see DESIGN.md).
// ======================================================================================
pub open spec fn replaced(a: STree, b: STree, l: ISet<Pt>) -> bool decreases a {
    a == b
    || (b matches STree::Term(SAtom::Wild(w)) && agree(wc_set(w), sem(a, l), base_unit()))
    || match (a, b) {
        (STree::Un(o1, c1), STree::Un(o2, c2)) => o1 == o2 && replaced(*c1, *c2, l),
        (STree::Bin(o1, a1, b1), STree::Bin(o2, a2, b2)) => o1 == o2 && replaced(*a1, *a2, l) && replaced(*b1, *b2, l),
        (STree::Hyb(o1, x1, d1, c1), STree::Hyb(o2, x2, d2, c2)) => o1 == o2 && x1 == x2 && d1 is None && d2 is None && valid_name(x1) && replaced(*c1, *c2, l),
        _ => false,
    }
}
pub proof fn lemma_mid(s1: ISet<Pt>, s2: ISet<Pt>)
    requires wf_graph(&base_graph()), agree(s1, s2, base_unit())
    ensures ok(&base_graph(), s1.intersect(base_unit()), s1), ok(&base_graph(), s1.intersect(base_unit()), s2)
{
    reveal(ok);
    let u = base_unit();
    let r = s1.intersect(u);
    assert forall|p: Pt| u.contains(p) implies ((r.contains(p) <==> s1.contains(p)) && (r.contains(p) <==> s2.contains(p))) by { lemma_agree_pt(s1, s2, u, p); }
    lemma_agree_intro(r, s1, u);
    lemma_agree_intro(r, s2, u);
}
pub proof fn lemma_two(r: ISet<Pt>, s1: ISet<Pt>, s2: ISet<Pt>)
    requires ok(&base_graph(), r, s1), ok(&base_graph(), r, s2)
    ensures agree(s1, s2, base_unit())
{
    reveal(ok);
    let u = base_unit();
    assert forall|p: Pt| u.contains(p) implies (s1.contains(p) <==> s2.contains(p)) by { lemma_agree_pt(r, s1, u, p); lemma_agree_pt(r, s2, u, p); }
    lemma_agree_intro(s1, s2, u);
}
pub proof fn lemma_replaced(a: STree, b: STree, l: ISet<Pt>)
    requires replaced(a, b, l), gok(&base_graph())
    ensures agree(sem(a, l), sem(b, l), base_unit())
    decreases a
{
    let g = &base_graph();
    let u = base_unit();
    lemma_gok_facts(g);
    if a == b {
        lemma_agree_intro(sem(a, l), sem(b, l), u);
    } else if (b matches STree::Term(SAtom::Wild(w)) && agree(wc_set(w), sem(a, l), base_unit())) {
        let w = b->Term_0->Wild_0;
        assert forall|p: Pt| u.contains(p) implies (sem(a, l).contains(p) <==> sem(b, l).contains(p)) by { lemma_agree_pt(wc_set(w), sem(a, l), u, p); }
        lemma_agree_intro(sem(a, l), sem(b, l), u);
    } else {
        match (a, b) {
            (STree::Un(op, c1), STree::Un(o2, c2)) => {
                lemma_replaced(*c1, *c2, l);
                let s1 = sem(*c1, l); let s2 = sem(*c2, l);
                lemma_mid(s1, s2);
                let r = s1.intersect(u);
                match op {
                    UnaryOp::Not => { reveal(ok); arm_not(g, r, s1); arm_not(g, r, s2); lemma_two(neg(g, r), co(s1), co(s2)); },
                    UnaryOp::EX => { arm_ex(g, r, s1, l); arm_ex(g, r, s2, l); lemma_two(ex_l(g, r, l), s_ex(s1, l), s_ex(s2, l)); },
                    UnaryOp::AX => { arm_ax(g, r, s1, l); arm_ax(g, r, s2, l); lemma_two(ax_l(g, r, l), s_ax(s1, l), s_ax(s2, l)); },
                    UnaryOp::EF => { arm_ef(g, r, s1); arm_ef(g, r, s2); lemma_two(ef_of(g, r), s_ef(s1), s_ef(s2)); },
                    UnaryOp::AF => { arm_af(g, r, s1, l); arm_af(g, r, s2, l); lemma_two(af_of(g, r, l), s_af(s1, l), s_af(s2, l)); },
                    UnaryOp::EG => { arm_eg(g, r, s1, l); arm_eg(g, r, s2, l); lemma_two(eg_of(g, r, l), s_eg(s1, l), s_eg(s2, l)); },
                    UnaryOp::AG => { arm_ag(g, r, s1); arm_ag(g, r, s2); lemma_two(ag_of(g, r), s_ag(s1), s_ag(s2)); },
                }
            },
            (STree::Bin(op, a1, b1), STree::Bin(o2, a2, b2)) => {
                lemma_replaced(*a1, *a2, l); lemma_replaced(*b1, *b2, l);
                let s1 = sem(*a1, l); let s2 = sem(*a2, l); let t1 = sem(*b1, l); let t2 = sem(*b2, l);
                lemma_mid(s1, s2); lemma_mid(t1, t2);
                let r = s1.intersect(u); let q = t1.intersect(u);
                match op {
                    BinaryOp::And => { arm_and_or(g, r, s1, q, t1); arm_and_or(g, r, s2, q, t2); lemma_two(r.intersect(q), s1.intersect(t1), s2.intersect(t2)); },
                    BinaryOp::Or => { arm_and_or(g, r, s1, q, t1); arm_and_or(g, r, s2, q, t2); lemma_two(r.union(q), s1.union(t1), s2.union(t2)); },
                    BinaryOp::Xor => { arm_iff(g, r, s1, q, t1); arm_iff(g, r, s2, q, t2);
                        lemma_two(neg(g, r.intersect(q).union(neg(g, r).intersect(neg(g, q)))), co(s_iff(s1, t1)), co(s_iff(s2, t2))); },
                    BinaryOp::Imp => { arm_imp(g, r, s1, q, t1); arm_imp(g, r, s2, q, t2); lemma_two(neg(g, r).union(q), co(s1).union(t1), co(s2).union(t2)); },
                    BinaryOp::Iff => { arm_iff(g, r, s1, q, t1); arm_iff(g, r, s2, q, t2);
                        lemma_two(r.intersect(q).union(neg(g, r).intersect(neg(g, q))), s_iff(s1, t1), s_iff(s2, t2)); },
                    BinaryOp::EU => { arm_eu(g, r, s1, q, t1); arm_eu(g, r, s2, q, t2); lemma_two(eu_of(g, r, q), s_eu(s1, t1), s_eu(s2, t2)); },
                    BinaryOp::AU => { arm_au(g, r, s1, q, t1, l); arm_au(g, r, s2, q, t2, l); lemma_two(au_of(g, r, q, l), s_au(s1, t1, l), s_au(s2, t2, l)); },
                    BinaryOp::EW => { arm_ew(g, r, s1, q, t1, l); arm_ew(g, r, s2, q, t2, l); lemma_two(ew_spec(g, r, q, l), s_ew(s1, t1, l), s_ew(s2, t2, l)); },
                    BinaryOp::AW => { arm_aw(g, r, s1, q, t1); arm_aw(g, r, s2, q, t2); lemma_two(aw_spec(g, r, q), s_aw(s1, t1), s_aw(s2, t2)); },
                }
            },
            (STree::Hyb(op, x, d1, c1), STree::Hyb(o2, x2, d2, c2)) => {
                lemma_replaced(*c1, *c2, l);
                let s1 = sem(*c1, l); let s2 = sem(*c2, l);
                lemma_mid(s1, s2);
                let r = s1.intersect(u);
                let k = slot_name(x);
                reveal(gok);
                assert(slot_free(g, k));
                match op {
                    HybridOp::Bind => { arm_bind(g, r, s1, k); arm_bind(g, r, s2, k); lemma_two(proj_slot(comparator_state(g, k).intersect(r), k), bind_sem(s1, k), bind_sem(s2, k)); },
                    HybridOp::Exists => { arm_exists(g, r, s1, k); arm_exists(g, r, s2, k); lemma_two(proj_slot(r, k), exists_sem(s1, k), exists_sem(s2, k)); },
                    HybridOp::Forall => { arm_forall(g, r, s1, k); arm_forall(g, r, s2, k); lemma_two(neg(g, proj_slot(neg(g, r), k)), forall_sem(s1, k), forall_sem(s2, k)); },
                    HybridOp::Jump => { arm_jump(g, r, s1, k); arm_jump(g, r, s2, k); lemma_two(proj_state(comparator_state(g, k).intersect(r)), jump_sem(s1, k), jump_sem(s2, k)); },
                }
            },
            _ => {},
        }
    }
}
