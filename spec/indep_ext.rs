// ======================================================================================
// C15 for EXTENDED formulae: with context sets that do not depend on the auxiliary variables (env_indep, the documented requirement),
// the semantics of a closed extended formula does not depend on them either, so the sanitising unwrap() cannot fail.
// ======================================================================================
// every wild-card / domain label of the tree denotes a set of well-shaped points that ignores the auxiliary variables
pub open spec fn wcs_ok(t: STree) -> bool decreases t {
    match t {
        STree::Term(SAtom::Wild(p)) => env_indep(wc_set(p)) && wc_set(p).subset_of(all_pts()),
        STree::Term(_) => true,
        STree::Un(_, c) => wcs_ok(*c),
        STree::Bin(_, a, b) => wcs_ok(*a) && wcs_ok(*b),
        STree::Hyb(_, _, d, c) => wcs_ok(*c) && (d matches Some(x) ==> env_indep(wc_set(x)) && wc_set(x).subset_of(all_pts())),
    }
}
pub proof fn lemma_env_indep_slot(z: ISet<Pt>, k: int)
    requires env_indep(z), 0 <= k < dim_k(), z.subset_of(all_pts())
    ensures indep(z, k)
{
    assert forall|p: Pt, v: Seq<bool>| #![trigger z.contains(with_slot(p, k, v))] shaped(p) && v.len() == dim_n() implies (z.contains(p) <==> z.contains(with_slot(p, k, v))) by {
        lemma_shaped_with_slot(p, k, v);
        let pv = with_slot(p, k, v);
        if z.contains(p) { assert(z.contains(p) && shaped(pv) && pv.s == p.s && pv.c == p.c); }
        if z.contains(pv) { assert(z.contains(pv) && shaped(p) && p.s == pv.s && p.c == pv.c); }
    }
}
pub proof fn lemma_indep_hybrid_dom(z: ISet<Pt>, j: int, k: int, d: ISet<Pt>)
    requires 0 <= k < dim_k(), 0 <= j < dim_k(), j != k ==> indep(z, k), env_indep(d), d.subset_of(all_pts())
    ensures indep(bind_dom_sem(z, j, d), k), indep(exists_dom_sem(z, j, d), k), indep(forall_dom_sem(z, j, d), k)
{
    assert forall|p: Pt, v: Seq<bool>| #![trigger bind_dom_sem(z, j, d).contains(with_slot(p, k, v))] shaped(p) && v.len() == dim_n() implies (bind_dom_sem(z, j, d).contains(p) <==> bind_dom_sem(z, j, d).contains(with_slot(p, k, v))) by {
        lemma_shaped_with_slot(p, k, v);
        let pv = with_slot(p, k, v);
        assert(d.contains(p) <==> d.contains(pv)) by {
            if d.contains(p) { assert(shaped(pv) && pv.s == p.s && pv.c == p.c); }
            if d.contains(pv) { assert(shaped(p) && p.s == pv.s && p.c == pv.c); }
        }
        if j == k { assert(with_slot(pv, j, pv.s).e =~= with_slot(p, j, p.s).e); }
        else {
            lemma_shaped_with_slot(p, j, p.s);
            assert(with_slot(pv, j, pv.s).e =~= with_slot(with_slot(p, j, p.s), k, v).e);
            assert(with_slot(pv, j, pv.s) == with_slot(with_slot(p, j, p.s), k, v));
        }
    }
    assert forall|p: Pt, v: Seq<bool>, u: Seq<bool>| shaped(p) && v.len() == dim_n() && u.len() == dim_n() implies
        (d.contains(with_state(p, u)) <==> d.contains(#[trigger] with_state(with_slot(p, k, v), u)))
        && (z.contains(with_slot(p, j, u)) <==> z.contains(#[trigger] with_slot(with_slot(p, k, v), j, u))) by {
        lemma_shaped_with_slot(p, k, v);
        let pv = with_slot(p, k, v);
        let a = with_state(p, u); let b = with_state(pv, u);
        assert(shaped(a) && shaped(b) && a.s == b.s && a.c == b.c);
        if j == k { assert(with_slot(pv, j, u).e =~= with_slot(p, j, u).e); }
        else {
            lemma_shaped_with_slot(p, j, u);
            assert(with_slot(pv, j, u).e =~= with_slot(with_slot(p, j, u), k, v).e);
            assert(with_slot(pv, j, u) == with_slot(with_slot(p, j, u), k, v));
        }
    }
    assert forall|p: Pt, v: Seq<bool>| #![trigger exists_dom_sem(z, j, d).contains(with_slot(p, k, v))] shaped(p) && v.len() == dim_n() implies (exists_dom_sem(z, j, d).contains(p) <==> exists_dom_sem(z, j, d).contains(with_slot(p, k, v))) by {
        lemma_shaped_with_slot(p, k, v);
        let pv = with_slot(p, k, v);
        if exists_dom_sem(z, j, d).contains(p) {
            let u = choose|u: Seq<bool>| u.len() == dim_n() && d.contains(with_state(p, u)) && z.contains(with_slot(p, j, u));
            assert(d.contains(with_state(pv, u)) && z.contains(with_slot(pv, j, u)));
        }
        if exists_dom_sem(z, j, d).contains(pv) {
            let u = choose|u: Seq<bool>| u.len() == dim_n() && d.contains(with_state(pv, u)) && z.contains(with_slot(pv, j, u));
            assert(d.contains(with_state(with_slot(p, k, v), u)) && z.contains(with_slot(with_slot(p, k, v), j, u)));
            assert(d.contains(with_state(p, u)) && z.contains(with_slot(p, j, u)));
        }
    }
    assert forall|p: Pt, v: Seq<bool>| #![trigger forall_dom_sem(z, j, d).contains(with_slot(p, k, v))] shaped(p) && v.len() == dim_n() implies (forall_dom_sem(z, j, d).contains(p) <==> forall_dom_sem(z, j, d).contains(with_slot(p, k, v))) by {
        lemma_shaped_with_slot(p, k, v);
        let pv = with_slot(p, k, v);
        if forall_dom_sem(z, j, d).contains(p) {
            assert forall|u: Seq<bool>| u.len() == dim_n() && d.contains(with_state(pv, u)) implies z.contains(with_slot(pv, j, u)) by {
                assert(d.contains(with_state(with_slot(p, k, v), u)));
                assert(z.contains(with_slot(with_slot(p, k, v), j, u)) <==> z.contains(with_slot(p, j, u)));
            }
        }
        if forall_dom_sem(z, j, d).contains(pv) {
            assert forall|u: Seq<bool>| u.len() == dim_n() && d.contains(with_state(p, u)) implies z.contains(with_slot(p, j, u)) by {
                assert(d.contains(with_state(with_slot(p, k, v), u)));
                assert(z.contains(with_slot(with_slot(p, k, v), j, u)));
            }
        }
    }
}
pub proof fn lemma_sem_sub_ext(t: STree, l: ISet<Pt>)
    requires wcs_ok(t)
    ensures sem(t, l).subset_of(all_pts())
    decreases t
{
    match t {
        STree::Term(_) => {},
        STree::Un(op, c) => {
            lemma_sem_sub_ext(*c, l);
            let z = sem(*c, l);
            let g = &base_graph();
            assert(eu_closed(g, all_pts(), z, all_pts()));
            lemma_eg_dense(g, z, l);
        },
        STree::Bin(op, a, b) => {
            lemma_sem_sub_ext(*a, l); lemma_sem_sub_ext(*b, l);
            let za = sem(*a, l); let zb = sem(*b, l);
            let g = &base_graph();
            assert(eu_closed(g, za, zb, all_pts().intersect(za.union(zb))));
            assert(s_au_closed(za, zb, l, all_pts().intersect(za.union(zb))));
            lemma_eg_dense(g, za, l);
        },
        STree::Hyb(op, x, dd, c) => { lemma_sem_sub_ext(*c, l); },
    }
}
pub proof fn lemma_sem_indep_ext(t: STree, l: ISet<Pt>, d: nat, k: int)
    requires canonical_names(t, d), wcs_ok(t), d <= k < dim_k(), qdepth(t, d) <= dim_k(), indep(l, k)
    ensures indep(sem(t, l), k), sem(t, l).subset_of(all_pts())
    decreases t
{
    lemma_indep_consts(k);
    lemma_qdepth_ge(t, d);
    match t {
        STree::Term(SAtom::Var(x)) => {
            let i = choose|i: nat| 1 <= i <= d && x == xs(i);
            lemma_slot_xs(i);
        },
        STree::Term(SAtom::Wild(p)) => { lemma_env_indep_slot(wc_set(p), k); },
        STree::Term(_) => {},
        STree::Un(op, c) => {
            lemma_sem_indep_ext(*c, l, d, k);
            let z = sem(*c, l);
            lemma_indep_bool(z, z, k);
            lemma_indep_ex(z, l, k);
            lemma_indep_eu(all_pts(), z, k);
            lemma_indep_eg(z, l, k);
            lemma_indep_eu(all_pts(), co(z), k);
            lemma_indep_bool(s_ef(co(z)), s_ef(co(z)), k);
            lemma_indep_eg(co(z), l, k);
            lemma_indep_bool(s_eg(co(z), l), s_eg(co(z), l), k);
            lemma_sem_sub_ext(t, l);
        },
        STree::Bin(op, a, b) => {
            lemma_qdepth_ge(*a, d); lemma_qdepth_ge(*b, d);
            lemma_sem_indep_ext(*a, l, d, k); lemma_sem_indep_ext(*b, l, d, k);
            let za = sem(*a, l); let zb = sem(*b, l);
            lemma_indep_bool(za, zb, k);
            lemma_indep_bool(za, za, k); lemma_indep_bool(zb, zb, k);
            lemma_indep_bool(co(za), zb, k);
            lemma_indep_bool(co(za), co(zb), k);
            lemma_indep_bool(za.intersect(zb), co(za).intersect(co(zb)), k);
            lemma_indep_bool(s_iff(za, zb), s_iff(za, zb), k);
            lemma_indep_eu(za, zb, k);
            lemma_indep_au(za, zb, l, k);
            lemma_indep_eg(za, l, k);
            lemma_indep_bool(s_eu(za, zb), s_eg(za, l), k);
            lemma_indep_eu(co(zb), co(za).intersect(co(zb)), k);
            lemma_indep_bool(s_eu(co(zb), co(za).intersect(co(zb))), za, k);
            lemma_sem_sub_ext(t, l);
        },
        STree::Hyb(op, x, dd, c) => {
            if op is Jump {
                let i = choose|i: nat| 1 <= i <= d && x == xs(i);
                lemma_slot_xs(i);
                lemma_qdepth_ge(*c, d);
                lemma_sem_indep_ext(*c, l, d, k);
                lemma_indep_hybrid(sem(*c, l), slot_name(x), k);
            } else {
                lemma_slot_xs(d + 1);
                lemma_qdepth_ge(*c, d + 1);
                if k >= d + 1 { lemma_sem_indep_ext(*c, l, d + 1, k); }
                lemma_indep_hybrid(sem(*c, l), slot_name(x), k);
                if dd is Some { lemma_indep_hybrid_dom(sem(*c, l), slot_name(x), k, wc_set(dd->0)); }
            }
            lemma_sem_sub_ext(t, l);
        },
    }
}
pub proof fn lemma_wcs_ok(t: STree, c: Map<String, GraphColoredVertices>)
    requires ctx_sound(c), base_unit().subset_of(all_pts()), forall|k: Seq<char>| wilds(t).contains(k) || dlabels(t).contains(k) ==> #[trigger] ctx_has(c, k)
    ensures wcs_ok(t)
    decreases t
{
    match t {
        STree::Term(SAtom::Wild(p)) => {
            assert(wilds(t).contains(p)); assert(ctx_has(c, p));
            let s = choose|s: String| #[trigger] c.contains_key(s) && s@ == p;
            assert(env_indep(wc_set(s@)));
        },
        STree::Term(_) => {},
        STree::Un(_, ch) => { lemma_wcs_ok(*ch, c); },
        STree::Bin(_, a, b) => {
            assert forall|k: Seq<char>| wilds(*a).contains(k) || dlabels(*a).contains(k) implies #[trigger] ctx_has(c, k) by { assert(wilds(t).contains(k) || dlabels(t).contains(k)); }
            assert forall|k: Seq<char>| wilds(*b).contains(k) || dlabels(*b).contains(k) implies #[trigger] ctx_has(c, k) by { assert(wilds(t).contains(k) || dlabels(t).contains(k)); }
            lemma_wcs_ok(*a, c); lemma_wcs_ok(*b, c);
        },
        STree::Hyb(_, _, d, ch) => {
            assert forall|k: Seq<char>| wilds(*ch).contains(k) || dlabels(*ch).contains(k) implies #[trigger] ctx_has(c, k) by { assert(wilds(t).contains(k) || dlabels(t).contains(k)); }
            lemma_wcs_ok(*ch, c);
            if d is Some {
                let x = d->0;
                assert(dlabels(t).contains(x)); assert(ctx_has(c, x));
                let s = choose|s: String| #[trigger] c.contains_key(s) && s@ == x;
                assert(env_indep(wc_set(s@)));
            }
        },
    }
}
// C15 for extended formulae: the raw result of a closed extended formula does not depend on the auxiliary variables
pub proof fn lemma_closed_result_ext_indep_ext(g: &SymbolicAsyncGraph, r: ISet<Pt>, t: STree)
    requires graph_ready(g), ok(g, r, sem(t, steady_set())), canonical_names(t, 0), wcs_ok(t), qdepth(t, 0) <= dim_k()
    ensures ext_indep(r)
{
    reveal(gok); reveal(wf_graph);
    let l = steady_set();
    let bu = base_unit();
    assert forall|k: int| 0 <= k < dim_k() implies indep(bu, k) && indep(l, k) by {
        assert(slot_free(&base_graph(), k));
        assert forall|p: Pt, v: Seq<bool>| #![trigger bu.contains(with_slot(p, k, v))] shaped(p) && v.len() == dim_n() implies (bu.contains(p) <==> bu.contains(with_slot(p, k, v))) by {
            lemma_with_slot_back(p, k, v);
            let pv = with_slot(p, k, v);
            assert(differ_slot(p, pv, k));
            assert(differ_slot(pv, p, k));
        }
        assert forall|p: Pt, v: Seq<bool>| #![trigger l.contains(with_slot(p, k, v))] shaped(p) && v.len() == dim_n() implies (l.contains(p) <==> l.contains(with_slot(p, k, v))) by {
            let pv = with_slot(p, k, v);
            assert(bu.contains(p) <==> bu.contains(pv));
            assert(has_succ(&base_graph(), p) == has_succ(&base_graph(), pv)) by {
                if has_succ(&base_graph(), p) { let x = choose|x: int| 0 <= x < dim_n() && #[trigger] can_flip(&base_graph(), x, p.s, p.c); assert(can_flip(&base_graph(), x, pv.s, pv.c)); }
                if has_succ(&base_graph(), pv) { let x = choose|x: int| 0 <= x < dim_n() && #[trigger] can_flip(&base_graph(), x, pv.s, pv.c); assert(can_flip(&base_graph(), x, p.s, p.c)); }
            }
        }
    }
    lemma_ok_is_exact(g, r, sem(t, l));
    assert forall|k: int| 0 <= k < dim_k() implies indep(r, k) by {
        lemma_sem_indep_ext(t, l, 0, k);
        lemma_indep_bool(sem(t, l), bu, k);
    }
    lemma_sem_sub_ext(t, l);
    lemma_ext_indep(r);
}
pub proof fn lemma_accepted_canonical(s: Seq<char>, ext: bool, t: STree)
    requires accepted(s, ext, t)
    ensures canonical_names(t, 0), qdepth(t, 0) <= dim_k()
{
    let ts = lex(s, ext)->0;
    let toks = choose|toks: Seq<HctlToken>| #[trigger] view_toks(toks) == ts && (sp_formula(toks) matches Some(st)
        && well_scoped(st, ISet::<Seq<char>>::empty()) && t == rename_spec(st, IMap::<Seq<char>, Seq<char>>::empty(), 0) && supported(t));
    let e = IMap::<Seq<char>, Seq<char>>::empty();
    assert(e.dom() =~= ISet::<Seq<char>>::empty());
    lemma_rename_canonical(sp_formula(toks)->0, e, 0);
}
pub open spec fn clean_result_ok_ext(g: &SymbolicAsyncGraph, s: Seq<char>, c: Map<String, GraphColoredVertices>, r: &GraphColoredVertices) -> bool {
    result_ok_ext(g, s, c, gv(r)) && canonical_set(r)
}
pub proof fn lemma_result_ext_indep(g: &SymbolicAsyncGraph, s: Seq<char>, c: Map<String, GraphColoredVertices>, r: ISet<Pt>)
    requires graph_ready(g), ctx_sound(c), result_ok_ext(g, s, c, r)
    ensures ext_indep(r)
{
    let t = choose|t: STree| accepted_ext(s, t, c) && #[trigger] ok(g, r, sem(t, steady_set()));
    lemma_accepted_canonical(s, true, t);
    assert(base_unit().subset_of(all_pts())) by { reveal(gok); reveal(wf_graph); }
    lemma_wcs_ok(t, c);
    lemma_closed_result_ext_indep_ext(g, r, t);
}
