// ======================================================================================
// C06: printing and parsing are inverse.  For every PRINTABLE tree t (names are non-empty runs of name characters that the
// tokenizer reads back as the same kind of token; wild-cards / domains only in the extended language; no domain on a jump),
//   lex(render(t)) is the single abstract token tk(t), and the grammar reads tk(t) back as t.
// `render` is the text the constructors are proved to store (wf, unit tree); `lex` and `sp_formula` are the specifications the
// tokenizer and the parser are proved to implement (units lex, tree).
// ======================================================================================
pub open spec fn is_const_name(n: Seq<char>) -> bool {
    n == "true"@ || n == "True"@ || n == "1"@ || n == "false"@ || n == "False"@ || n == "0"@
}
// (the first character is not white space: true of every alphanumeric character of the Unicode tables, but the tables are not
// axiomatised beyond ASCII here, so it is stated)
pub open spec fn pname_ok(n: Seq<char>) -> bool { n.len() > 0 && name_str(n) && !is_white_space(n[0]) && classify(n) == STok::Prop(n) && !is_const_name(n) && n != "3"@ && n != "V"@ }
pub open spec fn vname_ok(n: Seq<char>) -> bool { n.len() > 0 && name_str(n) }
pub open spec fn printable(t: STree, ext: bool) -> bool decreases t {
    match t {
        STree::Term(SAtom::True) => true,
        STree::Term(SAtom::False) => true,
        STree::Term(SAtom::Prop(n)) => pname_ok(n),
        STree::Term(SAtom::Var(x)) => vname_ok(x),
        STree::Term(SAtom::Wild(p)) => ext && vname_ok(p),
        STree::Un(_, c) => printable(*c, ext),
        STree::Bin(_, a, b) => printable(*a, ext) && printable(*b, ext),
        STree::Hyb(op, v, d, c) => vname_ok(v) && printable(*c, ext) && (d matches Some(x) ==> ext && !(op is Jump) && vname_ok(x)),
    }
}
// the abstract token a printed tree is read back as
pub open spec fn tk(t: STree) -> STok decreases t {
    match t {
        STree::Term(SAtom::True) => STok::Prop("True"@),
        STree::Term(SAtom::False) => STok::Prop("False"@),
        STree::Term(SAtom::Prop(n)) => STok::Prop(n),
        STree::Term(SAtom::Var(x)) => STok::Var(x),
        STree::Term(SAtom::Wild(p)) => STok::Wild(p),
        STree::Un(op, c) => STok::Group(seq![STok::Unary(op), tk(*c)]),
        STree::Bin(op, a, b) => STok::Group(seq![tk(*a), STok::Binary(op), tk(*b)]),
        STree::Hyb(op, v, d, c) => STok::Group(seq![STok::Hybrid(op, v, d), tk(*c)]),
    }
}
pub open spec fn operand_tok(s: STok) -> bool { s is Prop || s is Var || s is Wild || s is Group }
pub proof fn lemma_tk_operand(t: STree) ensures operand_tok(tk(t)) {}
// a single operand token is parsed as a term at every level
pub proof fn lemma_single_chain(ts: Seq<HctlToken>)
    requires ts.len() == 1, operand_tok(view_tok(ts[0]))
    ensures sp_formula(ts) == sp_term(ts), sp_unary(ts) == sp_term(ts), forall|k: int| 0 <= k <= 6 ==> #[trigger] sp_level(ts, k) == sp_term(ts)
{
    assert forall|k: int| -1 <= k <= 6 implies none_at(ts, k) by {
        assert forall|j: int| 0 <= j < ts.len() implies !in_class(#[trigger] ts[j], k) by {}
    }
    lemma_first_none(ts, -1); lemma_first_none(ts, 0); lemma_first_none(ts, 1); lemma_first_none(ts, 2);
    lemma_first_none(ts, 3); lemma_first_none(ts, 4); lemma_first_none(ts, 5); lemma_first_none(ts, 6);
    assert(sp_unary(ts) == sp_term(ts));
    assert(sp_level(ts, 6) == sp_unary(ts));
    assert(sp_level(ts, 5) == sp_level(ts, 6));
    assert(sp_level(ts, 4) == sp_level(ts, 5));
    assert(sp_level(ts, 3) == sp_level(ts, 4));
    assert(sp_level(ts, 2) == sp_level(ts, 3));
    assert(sp_level(ts, 1) == sp_level(ts, 2));
    assert(sp_level(ts, 0) == sp_level(ts, 1));
    assert(sp_formula(ts) == sp_level(ts, 0));
}
pub open spec fn bin_level(op: BinaryOp) -> int {
    match op { BinaryOp::Iff => 0, BinaryOp::Imp => 1, BinaryOp::Or => 2, BinaryOp::Xor => 3, BinaryOp::And => 4, _ => 5 }
}
// levels above the operator's own level do not see it
pub proof fn lemma_bin_levels(w: Seq<HctlToken>, op: BinaryOp, k: int)
    requires w.len() == 3, operand_tok(view_tok(w[0])), operand_tok(view_tok(w[2])), w[1] == HctlToken::Binary(op), 0 <= k <= 5
    ensures
        k < bin_level(op) ==> none_at(w, k),
        k == bin_level(op) ==> first_at(w, k, 1),
        none_at(w, -1),
{
    assert forall|j: int| 0 <= j < w.len() implies !in_class(#[trigger] w[j], -1) by {}
    if k < bin_level(op) {
        assert forall|j: int| 0 <= j < w.len() implies !in_class(#[trigger] w[j], k) by {}
    }
    if k == bin_level(op) {
        assert(in_class(w[1], k));
        assert(!in_class(w[0], k));
    }
}
pub proof fn lemma_sub1(w: Seq<HctlToken>, i: int)
    requires 0 <= i < w.len()
    ensures w.subrange(i, i + 1).len() == 1, w.subrange(i, i + 1)[0] == w[i]
{
}
// one binary node: both operands are single operand tokens that are read back as a and b
pub proof fn lemma_parse_bin(w: Seq<HctlToken>, op: BinaryOp, a: STree, b: STree)
    requires
        w.len() == 3, operand_tok(view_tok(w[0])), operand_tok(view_tok(w[2])), w[1] == HctlToken::Binary(op),
        sp_term(w.subrange(0, 1)) == Some(a), sp_term(w.subrange(2, 3)) == Some(b),
    ensures sp_formula(w) == Some(STree::Bin(op, Box::new(a), Box::new(b)))
{
    let t = STree::Bin(op, Box::new(a), Box::new(b));
    let lv = bin_level(op);
    let l = w.subrange(0, 1); let r = w.subrange(2, 3);
    lemma_sub1(w, 0); lemma_sub1(w, 2);
    lemma_single_chain(l); lemma_single_chain(r);
    lemma_bin_levels(w, op, lv);
    lemma_first_some(w, lv, 1);
    lemma_first_none(w, -1);
    assert(w.subrange(1int + 1, w.len() as int) == r);
    assert(sp_level(l, lv + 1) == Some(a));
    assert(sp_level(r, lv) == Some(b));
    if lv == 0 { assert(sp_level(w, 0) == Some(t)); }
    else if lv == 1 { assert(sp_level(w, 1) == Some(t)); }
    else if lv == 2 { assert(sp_level(w, 2) == Some(t)); }
    else if lv == 3 { assert(sp_level(w, 3) == Some(t)); }
    else if lv == 4 { assert(sp_level(w, 4) == Some(t)); }
    else { assert(sp_level(w, 5) == Some(t)); }
    if lv >= 5 { lemma_bin_levels(w, op, 4); lemma_first_none(w, 4); assert(sp_level(w, 4) == sp_level(w, 5)); }
    if lv >= 4 { lemma_bin_levels(w, op, 3); lemma_first_none(w, 3); assert(sp_level(w, 3) == sp_level(w, 4)); }
    if lv >= 3 { lemma_bin_levels(w, op, 2); lemma_first_none(w, 2); assert(sp_level(w, 2) == sp_level(w, 3)); }
    if lv >= 2 { lemma_bin_levels(w, op, 1); lemma_first_none(w, 1); assert(sp_level(w, 1) == sp_level(w, 2)); }
    if lv >= 1 { lemma_bin_levels(w, op, 0); lemma_first_none(w, 0); assert(sp_level(w, 0) == sp_level(w, 1)); }
    assert(sp_formula(w) == sp_level(w, 0));
}
pub proof fn lemma_parse_un(w: Seq<HctlToken>, op: UnaryOp, c: STree)
    requires w.len() == 2, w[0] == HctlToken::Unary(op), operand_tok(view_tok(w[1])), sp_term(w.subrange(1, 2)) == Some(c)
    ensures sp_formula(w) == Some(STree::Un(op, Box::new(c)))
{
    let t = STree::Un(op, Box::new(c));
    assert forall|k: int| -1 <= k <= 5 implies none_at(w, k) by {
        assert forall|j: int| 0 <= j < w.len() implies !in_class(#[trigger] w[j], k) by {}
    }
    lemma_first_none(w, -1); lemma_first_none(w, 0); lemma_first_none(w, 1); lemma_first_none(w, 2);
    lemma_first_none(w, 3); lemma_first_none(w, 4); lemma_first_none(w, 5);
    assert(first_at(w, 6, 0));
    lemma_first_some(w, 6, 0);
    let rest = w.subrange(1, 2);
    lemma_sub1(w, 1);
    lemma_single_chain(rest);
    assert(w.subrange(1, w.len() as int) == rest);
    assert(sp_unary(w) == Some(t));
    assert(sp_level(w, 6) == sp_unary(w));
    assert(sp_level(w, 5) == sp_level(w, 6)); assert(sp_level(w, 4) == sp_level(w, 5)); assert(sp_level(w, 3) == sp_level(w, 4));
    assert(sp_level(w, 2) == sp_level(w, 3)); assert(sp_level(w, 1) == sp_level(w, 2)); assert(sp_level(w, 0) == sp_level(w, 1));
    assert(sp_formula(w) == sp_level(w, 0));
}
pub proof fn lemma_parse_hyb(w: Seq<HctlToken>, op: HybridOp, vn: Seq<char>, d: Option<Seq<char>>, c: STree)
    requires w.len() == 2, w[0] matches HctlToken::Hybrid(o, s, ds) && o == op && s@ == vn && view_opt(ds) == d, operand_tok(view_tok(w[1])), sp_term(w.subrange(1, 2)) == Some(c)
    ensures sp_formula(w) == Some(STree::Hyb(op, vn, d, Box::new(c)))
{
    assert(first_at(w, -1, 0));
    lemma_first_some(w, -1, 0);
    let rest = w.subrange(1, 2);
    lemma_sub1(w, 1);
    lemma_single_chain(rest);
    assert(w.subrange(1, w.len() as int) == rest);
}
// the grammar reads the token of a printable tree back as the tree
pub proof fn lemma_parse_tk(t: STree, ext: bool, ts: Seq<HctlToken>)
    requires printable(t, ext), ts.len() == 1, view_tok(ts[0]) == tk(t)
    ensures sp_term(ts) == Some(t)
    decreases t
{
    match t {
        STree::Term(a) => { lemma_parse_atom(a, ext, ts); },
        STree::Un(op, c) => {
            let v = ts[0]->Tokens_0;
            let w = v@;
            lemma_view_toks_len(w); lemma_view_toks_index(w, 0); lemma_view_toks_index(w, 1);
            assert(w.len() == 2 && w[0] == HctlToken::Unary(op) && view_tok(w[1]) == tk(*c));
            lemma_tk_operand(*c);
            lemma_sub1(w, 1);
            lemma_parse_tk(*c, ext, w.subrange(1, 2));
            lemma_parse_un(w, op, *c);
        },
        STree::Bin(op, a, b) => {
            let v = ts[0]->Tokens_0;
            let w = v@;
            lemma_view_toks_len(w); lemma_view_toks_index(w, 0); lemma_view_toks_index(w, 1); lemma_view_toks_index(w, 2);
            assert(w.len() == 3 && w[1] == HctlToken::Binary(op) && view_tok(w[0]) == tk(*a) && view_tok(w[2]) == tk(*b));
            lemma_tk_operand(*a); lemma_tk_operand(*b);
            lemma_sub1(w, 0); lemma_sub1(w, 2);
            lemma_parse_tk(*a, ext, w.subrange(0, 1)); lemma_parse_tk(*b, ext, w.subrange(2, 3));
            lemma_parse_bin(w, op, *a, *b);
        },
        STree::Hyb(op, vn, d, c) => {
            let v = ts[0]->Tokens_0;
            let w = v@;
            lemma_view_toks_len(w); lemma_view_toks_index(w, 0); lemma_view_toks_index(w, 1);
            assert(w.len() == 2 && view_tok(w[1]) == tk(*c));
            lemma_tk_operand(*c);
            lemma_sub1(w, 1);
            lemma_parse_tk(*c, ext, w.subrange(1, 2));
            lemma_parse_hyb(w, op, vn, d, *c);
        },
    }
}
pub proof fn lemma_parse_atom(a: SAtom, ext: bool, ts: Seq<HctlToken>)
    requires printable(STree::Term(a), ext), ts.len() == 1, view_tok(ts[0]) == tk(STree::Term(a))
    ensures sp_term(ts) == Some(STree::Term(a))
{
    reveal_strlit("True"); reveal_strlit("False"); reveal_strlit("true"); reveal_strlit("false"); reveal_strlit("1"); reveal_strlit("0");
    match ts[0] {
        HctlToken::Atom(at) => {
            match a {
                SAtom::True => { assert(at matches Atomic::Prop(s) && s@ == "True"@); },
                SAtom::False => {
                    assert(at matches Atomic::Prop(s) && s@ == "False"@);
                    assert("False"@ != "true"@ && "False"@ != "True"@ && "False"@ != "1"@) by { assert("False"@.len() == 5 && "true"@.len() == 4 && "True"@.len() == 4 && "1"@.len() == 1); }
                },
                SAtom::Prop(n) => { assert(at matches Atomic::Prop(s) && s@ == n); },
                SAtom::Var(x) => { assert(at matches Atomic::Var(s) && s@ == x); },
                SAtom::Wild(p) => { assert(at matches Atomic::WildCardProp(s) && s@ == p); },
            }
        },
        _ => { assert(false); },
    }
}
