// ======================================================================================
// S-LOW: comparator relations and projections (meaning of the low-level BDD manipulation).
// slot of an HCTL variable name = byte length - 1 (names are x, xx, xxx, ... after preprocessing).
// ======================================================================================
// ---------------- spec: comparator relations and projections ----------------
pub open spec fn slot_of(name: &str) -> int { name.spec_bytes().len() - 1 }
pub open spec fn eq_state(p: Pt, k: int) -> bool { forall|i: int| 0 <= i < dim_n() ==> #[trigger] p.e[k][i] == p.s[i] }
pub open spec fn eq_slots(p: Pt, k: int, k2: int) -> bool { forall|i: int| 0 <= i < dim_n() ==> #[trigger] p.e[k][i] == p.e[k2][i] }
pub open spec fn eq_state_upto(p: Pt, k: int, m: int) -> bool { forall|i: int| 0 <= i < m ==> #[trigger] p.e[k][i] == p.s[i] }
pub open spec fn eq_slots_upto(p: Pt, k: int, k2: int, m: int) -> bool { forall|i: int| 0 <= i < m ==> #[trigger] p.e[k][i] == p.e[k2][i] }
// q differs from p at most in slot k / at most in the state
pub open spec fn differ_slot(p: Pt, q: Pt, k: int) -> bool {
    p.c == q.c && p.s =~= q.s && forall|j: int| 0 <= j < dim_k() && j != k ==> #[trigger] p.e[j] =~= q.e[j]
}
pub open spec fn differ_state(p: Pt, q: Pt) -> bool { p.c == q.c && p.e =~= q.e }
pub open spec fn proj_slot(z: ISet<Pt>, k: int) -> ISet<Pt> { ISet::new(|p: Pt| shaped(p) && exists|q: Pt| z.contains(q) && differ_slot(p, q, k)) }
pub open spec fn proj_state(z: ISet<Pt>) -> ISet<Pt> { ISet::new(|p: Pt| shaped(p) && exists|q: Pt| z.contains(q) && differ_state(p, q)) }
pub open spec fn comparator_state(g: &SymbolicAsyncGraph, k: int) -> ISet<Pt> { ISet::new(|p: Pt| unit_of(g).contains(p) && eq_state(p, k)) }
pub open spec fn comparator_slots(g: &SymbolicAsyncGraph, k: int, k2: int) -> ISet<Pt> { ISet::new(|p: Pt| unit_of(g).contains(p) && eq_slots(p, k, k2)) }
pub open spec fn valid_var_name(name: &str) -> bool { 1 <= name.spec_bytes().len() <= usize::MAX && slot_of(name) < dim_k() }

pub proof fn axiom_all_shaped_gv(s: &GraphColoredVertices)
    ensures forall|p: Pt| gv(s).contains(p) ==> shaped(p)
{
    assert forall|p: Pt| gv(s).contains(p) implies shaped(p) by { axiom_gv_shaped(s, p); }
}
pub open spec fn slot_roles(k: int) -> Set<Role> { Set::new(|r: Role| r matches Role::Extra(i, kk) && kk == k && 0 <= i < dim_n()).unwrap_or(Set::empty()) }
pub proof fn lemma_roles_slot(vars: Seq<BddVariable>, k: int)
    requires vars.len() == dim_n(), forall|i: int| 0 <= i < dim_n() ==> role(#[trigger] vars[i]) == Role::Extra(i, k)
    ensures
        no_params(vars),
        forall|i: int| 0 <= i < dim_n() ==> roles_of(vars).contains(Role::Extra(i, k)),
        forall|r: Role| roles_of(vars).contains(r) ==> (r matches Role::Extra(i, kk) && kk == k && 0 <= i < dim_n()),
{
    let m = vars.map_values(|v: BddVariable| role(v));
    assert forall|i: int| 0 <= i < dim_n() implies roles_of(vars).contains(Role::Extra(i, k)) by {
        assert(m[i] == Role::Extra(i, k));
        assert(m.contains(m[i]));
    }
    assert forall|r: Role| roles_of(vars).contains(r) implies (r matches Role::Extra(i, kk) && kk == k && 0 <= i < dim_n()) by {
        let j = choose|j: int| 0 <= j < m.len() && m[j] == r;
        assert(m[j] == role(vars[j]));
    }
}
pub proof fn lemma_proj_slot(a: ISet<Pt>, r: ISet<Pt>, vars: Seq<BddVariable>, k: int)
    requires
        0 <= k < dim_k(),
        forall|p: Pt| a.contains(p) ==> shaped(p),
        forall|i: int| 0 <= i < dim_n() ==> roles_of(vars).contains(Role::Extra(i, k)),
        forall|r: Role| roles_of(vars).contains(r) ==> (r matches Role::Extra(i, kk) && kk == k && 0 <= i < dim_n()),
        forall|p: Pt| #[trigger] r.contains(p) <==> shaped(p) && exists|q: Pt| a.contains(q) && same_except(p, q, roles_of(vars)),
    ensures r =~= proj_slot(a, k)
{
    assert forall|p: Pt| r.contains(p) <==> proj_slot(a, k).contains(p) by {
        if r.contains(p) {
            let q = choose|q: Pt| a.contains(q) && same_except(p, q, roles_of(vars));
            assert(shaped(p) && shaped(q));
            assert(differ_slot(p, q, k)) by {
                assert forall|i: int| 0 <= i < dim_n() implies p.s[i] == q.s[i] by { assert(!roles_of(vars).contains(Role::State(i))); }
                assert(p.s.len() == q.s.len());
                assert forall|j: int| 0 <= j < dim_k() && j != k implies #[trigger] p.e[j] =~= q.e[j] by {
                    assert forall|i: int| 0 <= i < dim_n() implies p.e[j][i] == q.e[j][i] by { assert(!roles_of(vars).contains(Role::Extra(i, j))); }
                    assert(p.e[j].len() == q.e[j].len());
                }
            }
        }
        if proj_slot(a, k).contains(p) {
            let q = choose|q: Pt| a.contains(q) && differ_slot(p, q, k);
            assert(same_except(p, q, roles_of(vars)));
        }
    }
}
pub proof fn lemma_roles_state(vars: Seq<BddVariable>)
    requires vars.len() == dim_n(), forall|i: int| 0 <= i < dim_n() ==> role(#[trigger] vars[i]) == Role::State(i)
    ensures
        no_params(vars),
        forall|i: int| 0 <= i < dim_n() ==> roles_of(vars).contains(Role::State(i)),
        forall|r: Role| roles_of(vars).contains(r) ==> (r matches Role::State(i) && 0 <= i < dim_n()),
{
    let m = vars.map_values(|v: BddVariable| role(v));
    assert forall|i: int| 0 <= i < dim_n() implies roles_of(vars).contains(Role::State(i)) by {
        assert(m[i] == Role::State(i));
        assert(m.contains(m[i]));
    }
    assert forall|r: Role| roles_of(vars).contains(r) implies (r matches Role::State(i) && 0 <= i < dim_n()) by {
        let j = choose|j: int| 0 <= j < m.len() && m[j] == r;
        assert(m[j] == role(vars[j]));
    }
}
pub proof fn lemma_proj_state(a: ISet<Pt>, r: ISet<Pt>, vars: Seq<BddVariable>)
    requires
        forall|p: Pt| a.contains(p) ==> shaped(p),
        forall|i: int| 0 <= i < dim_n() ==> roles_of(vars).contains(Role::State(i)),
        forall|r: Role| roles_of(vars).contains(r) ==> (r matches Role::State(i) && 0 <= i < dim_n()),
        forall|p: Pt| #[trigger] r.contains(p) <==> shaped(p) && exists|q: Pt| a.contains(q) && same_except(p, q, roles_of(vars)),
    ensures r =~= proj_state(a)
{
    assert forall|p: Pt| r.contains(p) <==> proj_state(a).contains(p) by {
        if r.contains(p) {
            let q = choose|q: Pt| a.contains(q) && same_except(p, q, roles_of(vars));
            assert(shaped(p) && shaped(q));
            assert(differ_state(p, q)) by {
                assert forall|j: int| 0 <= j < dim_k() implies #[trigger] p.e[j] =~= q.e[j] by {
                    assert forall|i: int| 0 <= i < dim_n() implies p.e[j][i] == q.e[j][i] by { assert(!roles_of(vars).contains(Role::Extra(i, j))); }
                    assert(p.e[j].len() == q.e[j].len());
                }
                assert(p.e.len() == q.e.len());
            }
        }
        if proj_state(a).contains(p) {
            let q = choose|q: Pt| a.contains(q) && differ_state(p, q);
            assert(same_except(p, q, roles_of(vars)));
        }
    }
}
// proposition `i` holds: state bit i is set, inside the unit set (C03: results never leave the valid universe)
pub open spec fn prop_set(g: &SymbolicAsyncGraph, i: int) -> ISet<Pt> { ISet::new(|p: Pt| unit_of(g).contains(p) && p.s[i]) }
