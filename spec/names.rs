// ======================================================================================
// S-NAMES: quantifier variables of a tree and the number of spare variable sets a graph must offer (C14)
// ======================================================================================
pub open spec fn binders(t: STree) -> ISet<Seq<char>> decreases t {
    match t {
        STree::Term(_) => ISet::<Seq<char>>::empty(),
        STree::Un(_, c) => binders(*c),
        STree::Bin(_, a, b) => binders(*a).union(binders(*b)),
        STree::Hyb(op, x, d, c) => if op is Jump { binders(*c) } else { binders(*c).insert(x) },
    }
}
// maximal quantifier nesting depth (counted from the enclosing depth d)
pub open spec fn qdepth(t: STree, d: nat) -> nat decreases t {
    match t {
        STree::Term(_) => d,
        STree::Un(_, c) => qdepth(*c, d),
        STree::Bin(_, a, b) => if qdepth(*a, d) >= qdepth(*b, d) { qdepth(*a, d) } else { qdepth(*b, d) },
        STree::Hyb(op, x, dd, c) => if op is Jump { qdepth(*c, d) } else { qdepth(*c, d + 1) },
    }
}
pub open spec fn names_between(lo: nat, hi: nat) -> ISet<Seq<char>> { ISet::new(|n: Seq<char>| exists|i: nat| lo < i <= hi && n == xs(i)) }
pub proof fn lemma_qdepth_ge(t: STree, d: nat)
    ensures qdepth(t, d) >= d
    decreases t
{
    match t {
        STree::Term(_) => {},
        STree::Un(_, c) => { lemma_qdepth_ge(*c, d); },
        STree::Bin(_, a, b) => { lemma_qdepth_ge(*a, d); lemma_qdepth_ge(*b, d); },
        STree::Hyb(op, x, dd, c) => { if op is Jump { lemma_qdepth_ge(*c, d); } else { lemma_qdepth_ge(*c, d + 1); } },
    }
}
// with depth names, the quantifier variables are exactly x^(d+1) .. x^(qdepth)
pub proof fn lemma_binders_canonical(t: STree, d: nat)
    requires canonical_names(t, d)
    ensures binders(t) =~= names_between(d, qdepth(t, d))
    decreases t
{
    lemma_qdepth_ge(t, d);
    match t {
        STree::Term(_) => {
            assert forall|n: Seq<char>| !names_between(d, d).contains(n) by {}
        },
        STree::Un(_, c) => { lemma_binders_canonical(*c, d); },
        STree::Bin(_, a, b) => {
            lemma_binders_canonical(*a, d); lemma_binders_canonical(*b, d);
            lemma_qdepth_ge(*a, d); lemma_qdepth_ge(*b, d);
            let qa = qdepth(*a, d); let qb = qdepth(*b, d); let q = qdepth(t, d);
            assert forall|n: Seq<char>| names_between(d, qa).union(names_between(d, qb)).contains(n) <==> names_between(d, q).contains(n) by {
                if names_between(d, qa).contains(n) { let i = choose|i: nat| d < i <= qa && n == xs(i); assert(d < i <= q && n == xs(i)); }
                if names_between(d, qb).contains(n) { let i = choose|i: nat| d < i <= qb && n == xs(i); assert(d < i <= q && n == xs(i)); }
                if names_between(d, q).contains(n) { let i = choose|i: nat| d < i <= q && n == xs(i); if qa >= qb { assert(d < i <= qa && n == xs(i)); } else { assert(d < i <= qb && n == xs(i)); } }
            }
        },
        STree::Hyb(op, x, dd, c) => {
            if op is Jump { lemma_binders_canonical(*c, d); }
            else {
                lemma_binders_canonical(*c, d + 1);
                lemma_qdepth_ge(*c, d + 1);
                let q = qdepth(*c, d + 1);
                assert forall|n: Seq<char>| names_between(d + 1, q).insert(x).contains(n) <==> names_between(d, q).contains(n) by {
                    if names_between(d + 1, q).contains(n) { let i = choose|i: nat| d + 1 < i <= q && n == xs(i); assert(d < i <= q && n == xs(i)); }
                    if n == x { assert(d < d + 1 <= q && n == xs((d + 1) as nat)); }
                    if names_between(d, q).contains(n) {
                        let i = choose|i: nat| d < i <= q && n == xs(i);
                        if i == d + 1 { assert(n == x); } else { assert(d + 1 < i <= q && n == xs(i)); }
                    }
                }
            }
        },
    }
}
// view of an exec set of names
pub open spec fn sview(s: Set<String>) -> ISet<Seq<char>> { ISet::new(|k: Seq<char>| exists|x: String| #[trigger] s.contains(x) && x@ == k) }
pub proof fn lemma_sview_insert(s: Set<String>, x: String)
    ensures sview(s.insert(x)) =~= sview(s).insert(x@)
{
    assert forall|k: Seq<char>| sview(s.insert(x)).contains(k) <==> sview(s).insert(x@).contains(k) by {
        if sview(s.insert(x)).contains(k) {
            let y = choose|y: String| #[trigger] s.insert(x).contains(y) && y@ == k;
            if y != x { assert(s.contains(y)); }
        }
        if sview(s).contains(k) { let y = choose|y: String| #[trigger] s.contains(y) && y@ == k; assert(s.insert(x).contains(y)); }
        if k == x@ { assert(s.insert(x).contains(x)); }
    }
}
pub proof fn lemma_sview_union(a: Set<String>, b: Set<String>)
    ensures sview(a.union(b)) =~= sview(a).union(sview(b))
{
    assert forall|k: Seq<char>| sview(a.union(b)).contains(k) <==> sview(a).union(sview(b)).contains(k) by {
        if sview(a.union(b)).contains(k) {
            let y = choose|y: String| #[trigger] a.union(b).contains(y) && y@ == k;
            if a.contains(y) { assert(sview(a).contains(k)); } else { assert(b.contains(y)); assert(sview(b).contains(k)); }
        }
        if sview(a).contains(k) { let y = choose|y: String| #[trigger] a.contains(y) && y@ == k; assert(a.union(b).contains(y)); }
        if sview(b).contains(k) { let y = choose|y: String| #[trigger] b.contains(y) && y@ == k; assert(a.union(b).contains(y)); }
    }
}
// an exec set of Strings whose views are exactly x^1 .. x^q has q elements
pub proof fn lemma_names_card(s: Set<String>, q: nat)
    requires s.finite(), sview(s) =~= names_between(0, q)
    ensures s.len() == q
    decreases q
{
    if q == 0 {
        assert forall|x: String| !s.contains(x) by {
            if s.contains(x) { assert(sview(s).contains(x@)); }
        }
        assert(s =~= Set::<String>::empty());
    } else {
        assert(names_between(0, q).contains(xs(q)));
        assert(sview(s).contains(xs(q)));
        let x = choose|x: String| #[trigger] s.contains(x) && x@ == xs(q);
        let s2 = s.remove(x);
        assert(sview(s2) =~= names_between(0, (q - 1) as nat)) by {
            assert forall|k: Seq<char>| sview(s2).contains(k) <==> names_between(0, (q - 1) as nat).contains(k) by {
                if sview(s2).contains(k) {
                    let y = choose|y: String| #[trigger] s2.contains(y) && y@ == k;
                    assert(s.contains(y));
                    assert(sview(s).contains(k));
                    let i = choose|i: nat| 0 < i <= q && k == xs(i);
                    if i == q { axiom_string_ext(y, x); }
                    assert(0 < i <= q - 1 && k == xs(i));
                }
                if names_between(0, (q - 1) as nat).contains(k) {
                    let i = choose|i: nat| 0 < i <= q - 1 && k == xs(i);
                    assert(0 < i <= q && k == xs(i));
                    assert(sview(s).contains(k));
                    let y = choose|y: String| #[trigger] s.contains(y) && y@ == k;
                    if y == x { assert(xs(i).len() == i && xs(q).len() == q); }
                    assert(s2.contains(y));
                }
            }
        }
        lemma_names_card(s2, (q - 1) as nat);
    }
}

// ---- from a preprocessed tree to the preconditions of the evaluator
// the result of preprocessing has depth names
pub proof fn lemma_rename_canonical(t: STree, m: IMap<Seq<char>, Seq<char>>, d: nat)
    requires well_scoped(t, m.dom()), vals_le(m, d)
    ensures canonical_names(rename_spec(t, m, d), d)
    decreases t
{
    match t {
        STree::Term(SAtom::Var(x)) => { assert(m.contains_key(x)); },
        STree::Term(_) => {},
        STree::Un(_, c) => { lemma_rename_canonical(*c, m, d); },
        STree::Bin(_, a, b) => { lemma_rename_canonical(*a, m, d); lemma_rename_canonical(*b, m, d); },
        STree::Hyb(op, x, dd, c) => {
            if op is Jump { assert(m.contains_key(x)); lemma_rename_canonical(*c, m, d); }
            else {
                let nm = xs(d + 1);
                let m2 = m.insert(x, nm);
                assert(vals_le(m2, d + 1)) by {
                    assert forall|y: Seq<char>| #[trigger] m2.contains_key(y) implies exists|i: nat| 1 <= i <= d + 1 && m2[y] == xs(i) by {
                        if y == x { assert(m2[y] == xs((d + 1) as nat)); } else {
                            assert(m.contains_key(y));
                            let i = choose|i: nat| 1 <= i <= d && m[y] == xs(i);
                            assert(1 <= i <= d + 1 && m2[y] == xs(i));
                        }
                    }
                }
                assert(m2.dom() =~= m.dom().insert(x));
                lemma_rename_canonical(*c, m2, d + 1);
            }
        },
    }
}
pub proof fn lemma_slot_xs(i: nat)
    requires i >= 1
    ensures encode_utf8(xs(i)).len() == i, slot_name(xs(i)) == i - 1
{
    assert(is_ascii_chars(xs(i)));
    is_ascii_chars_encode_utf8(xs(i));
}
