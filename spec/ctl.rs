// ======================================================================================
// S-CTL: the temporal operators over an abstract coloured transition system, written from the
// property statements (C01, C11, C13): EX with explicit self-loops, EU / AU as least and EG as
// greatest fixed points (impredicative definitions), the remaining operators by the usual dualities,
// weak until exactly as C13 states it.
// ======================================================================================
// ---------------- spec layer: CTL operators over an abstract coloured transition system ----------------
pub open spec fn neg(g: &SymbolicAsyncGraph, z: ISet<Pt>) -> ISet<Pt> { unit_of(g).difference(z) }
pub open spec fn ex_l(g: &SymbolicAsyncGraph, z: ISet<Pt>, l: ISet<Pt>) -> ISet<Pt> { pre_of(g, z).union(z.intersect(l)) }
pub open spec fn ax_l(g: &SymbolicAsyncGraph, z: ISet<Pt>, l: ISet<Pt>) -> ISet<Pt> { neg(g, ex_l(g, neg(g, z), l)) }
// E[a U b]: least z with  b ∪ (a ∩ pre(z)) ⊆ z
pub open spec fn eu_closed(g: &SymbolicAsyncGraph, a: ISet<Pt>, b: ISet<Pt>, z: ISet<Pt>) -> bool {
    b.subset_of(z) && a.intersect(pre_of(g, z)).subset_of(z)
}
pub open spec fn eu_of(g: &SymbolicAsyncGraph, a: ISet<Pt>, b: ISet<Pt>) -> ISet<Pt> {
    ISet::new(|p: Pt| forall|z: ISet<Pt>| eu_closed(g, a, b, z) ==> #[trigger] z.contains(p))
}
// EG a (self-loops l): greatest z with z ⊆ a ∩ EX_l(z)
pub open spec fn eg_dense(g: &SymbolicAsyncGraph, a: ISet<Pt>, l: ISet<Pt>, z: ISet<Pt>) -> bool {
    z.subset_of(a) && z.subset_of(ex_l(g, z, l))
}
pub open spec fn eg_of(g: &SymbolicAsyncGraph, a: ISet<Pt>, l: ISet<Pt>) -> ISet<Pt> {
    ISet::new(|p: Pt| exists|z: ISet<Pt>| eg_dense(g, a, l, z) && #[trigger] z.contains(p))
}
// A[a U b] (self-loops l): least z with b ∪ (a ∩ AX_l(z)) ⊆ z
pub open spec fn au_closed(g: &SymbolicAsyncGraph, a: ISet<Pt>, b: ISet<Pt>, l: ISet<Pt>, z: ISet<Pt>) -> bool {
    b.subset_of(z) && a.intersect(ax_l(g, z, l)).subset_of(z)
}
pub open spec fn au_of(g: &SymbolicAsyncGraph, a: ISet<Pt>, b: ISet<Pt>, l: ISet<Pt>) -> ISet<Pt> {
    ISet::new(|p: Pt| forall|z: ISet<Pt>| au_closed(g, a, b, l, z) ==> #[trigger] z.contains(p))
}
pub open spec fn ef_of(g: &SymbolicAsyncGraph, a: ISet<Pt>) -> ISet<Pt> { eu_of(g, unit_of(g), a) }
pub open spec fn ag_of(g: &SymbolicAsyncGraph, a: ISet<Pt>) -> ISet<Pt> { neg(g, ef_of(g, neg(g, a))) }
pub open spec fn af_of(g: &SymbolicAsyncGraph, a: ISet<Pt>, l: ISet<Pt>) -> ISet<Pt> { neg(g, eg_of(g, neg(g, a), l)) }
// weak until, as the property states it
pub open spec fn ew_of(g: &SymbolicAsyncGraph, a: ISet<Pt>, b: ISet<Pt>, l: ISet<Pt>) -> ISet<Pt> { eu_of(g, a, b).union(eg_of(g, a, l)) }
pub open spec fn aw_of(g: &SymbolicAsyncGraph, a: ISet<Pt>, b: ISet<Pt>) -> ISet<Pt> { neg(g, eu_of(g, neg(g, b), neg(g, a).intersect(neg(g, b)))) }

pub proof fn lemma_var_pre_mono(g: &SymbolicAsyncGraph, v: int, x: ISet<Pt>, y: ISet<Pt>)
    requires x.subset_of(y)
    ensures var_pre_of(g, v, x).subset_of(var_pre_of(g, v, y))
{}
pub proof fn lemma_var_pre_in_pre(g: &SymbolicAsyncGraph, v: int, z: ISet<Pt>)
    requires 0 <= v < dim_n()
    ensures var_pre_of(g, v, z).subset_of(pre_of(g, z))
{}
pub proof fn lemma_ax_mono(g: &SymbolicAsyncGraph, x: ISet<Pt>, y: ISet<Pt>, l: ISet<Pt>)
    requires x.subset_of(y)
    ensures ax_l(g, x, l).subset_of(ax_l(g, y, l))
{
    lemma_pre_mono(g, neg(g, y), neg(g, x));
}
pub proof fn lemma_pre_mono(g: &SymbolicAsyncGraph, x: ISet<Pt>, y: ISet<Pt>)
    requires x.subset_of(y)
    ensures pre_of(g, x).subset_of(pre_of(g, y))
{
    assert forall|p: Pt| pre_of(g, x).contains(p) implies pre_of(g, y).contains(p) by {
        let v = choose|v: int| 0 <= v < dim_n() && #[trigger] var_pre_of(g, v, x).contains(p);
        assert(var_pre_of(g, v, y).contains(p));
    }
}


// ---------- weak-until duality (C13) ----------
// one step of the classical EU / EF iteration stays below every closed set (hint of eval_eu / eval_ef; stated for the set BEFORE the
// update so that the proof does not depend on the text of the update statement)
pub proof fn lemma_eu_classical_step(g: &SymbolicAsyncGraph, a: ISet<Pt>, b: ISet<Pt>, l: ISet<Pt>, x: ISet<Pt>)
    ensures
        forall|z: ISet<Pt>| #[trigger] eu_closed(g, a, b, z) && x.subset_of(z) ==> x.union(a.intersect(ex_l(g, x, l))).subset_of(z),
        forall|z: ISet<Pt>| #[trigger] eu_closed(g, a, b, z) && x.subset_of(z) && a == ISet::<Pt>::full() ==> x.union(ex_l(g, x, l)).subset_of(z),
{
    assert forall|z: ISet<Pt>| #[trigger] eu_closed(g, a, b, z) && x.subset_of(z) implies x.union(a.intersect(ex_l(g, x, l))).subset_of(z) by {
        lemma_pre_mono(g, x, z);
    }
    assert forall|z: ISet<Pt>| #[trigger] eu_closed(g, a, b, z) && x.subset_of(z) && a == ISet::<Pt>::full() implies x.union(ex_l(g, x, l)).subset_of(z) by {
        lemma_pre_mono(g, x, z);
        assert(a.intersect(ex_l(g, x, l)) =~= ex_l(g, x, l));
    }
}

pub open spec fn loops_total(g: &SymbolicAsyncGraph, l: ISet<Pt>) -> bool { unit_of(g).subset_of(ex_l(g, unit_of(g), l)) }
pub proof fn lemma_total_ax_empty(g: &SymbolicAsyncGraph, l: ISet<Pt>)
    requires loops_total(g, l)
    ensures ax_l(g, ISet::<Pt>::empty(), l) =~= ISet::<Pt>::empty()
{
    assert(neg(g, ISet::<Pt>::empty()) =~= unit_of(g));
}
pub open spec fn within(g: &SymbolicAsyncGraph, z: ISet<Pt>) -> ISet<Pt> { z.intersect(unit_of(g)) }
pub open spec fn ew_spec(g: &SymbolicAsyncGraph, a: ISet<Pt>, b: ISet<Pt>, l: ISet<Pt>) -> ISet<Pt> {
    eu_of(g, within(g, a), within(g, b)).union(eg_of(g, within(g, a), l))
}
pub open spec fn aw_spec(g: &SymbolicAsyncGraph, a: ISet<Pt>, b: ISet<Pt>) -> ISet<Pt> {
    neg(g, eu_of(g, neg(g, b), neg(g, a).intersect(neg(g, b))))
}
pub proof fn lemma_eu_fixed(g: &SymbolicAsyncGraph, a: ISet<Pt>, b: ISet<Pt>)
    ensures
        eu_closed(g, a, b, eu_of(g, a, b)),
        eu_of(g, a, b).subset_of(b.union(a.intersect(pre_of(g, eu_of(g, a, b))))),
{
    let e = eu_of(g, a, b);
    // closed
    assert forall|p: Pt| b.contains(p) implies e.contains(p) by {}
    assert forall|p: Pt| a.intersect(pre_of(g, e)).contains(p) implies e.contains(p) by {
        assert forall|z: ISet<Pt>| eu_closed(g, a, b, z) implies #[trigger] z.contains(p) by {
            assert(e.subset_of(z));
            lemma_pre_mono(g, e, z);
        }
    }
    // F(e) is closed, hence e ⊆ F(e)
    let f = b.union(a.intersect(pre_of(g, e)));
    assert(eu_closed(g, a, b, f)) by {
        assert(f.subset_of(e));
        lemma_pre_mono(g, f, e);
    }
}
pub proof fn lemma_eg_dense(g: &SymbolicAsyncGraph, a: ISet<Pt>, l: ISet<Pt>)
    ensures eg_dense(g, a, l, eg_of(g, a, l))
{
    let e = eg_of(g, a, l);
    assert forall|p: Pt| e.contains(p) implies a.contains(p) && ex_l(g, e, l).contains(p) by {
        let z = choose|z: ISet<Pt>| eg_dense(g, a, l, z) && #[trigger] z.contains(p);
        assert(z.subset_of(e));
        lemma_pre_mono(g, z, e);
        assert(ex_l(g, z, l).contains(p));
    }
}
pub proof fn lemma_ew_duality(g: &SymbolicAsyncGraph, a0: ISet<Pt>, b0: ISet<Pt>, l: ISet<Pt>)
    requires wf_graph(g)
    ensures neg(g, au_of(g, neg(g, b0), neg(g, a0).intersect(neg(g, b0)), l)) =~= ew_spec(g, a0, b0, l)
{
    reveal(wf_graph);
    let u = unit_of(g);
    let a = within(g, a0);
    let b = within(g, b0);
    let na = neg(g, a0);
    let nb = neg(g, b0);
    let x = au_of(g, nb, na.intersect(nb), l);
    let eu = eu_of(g, a, b);
    let eg = eg_of(g, a, l);
    lemma_eu_fixed(g, a, b);
    lemma_eg_dense(g, a, l);
    // eu ⊆ a ∪ b ⊆ u
    assert(eu_closed(g, a, b, a.union(b)));
    assert(eu.subset_of(a.union(b)));
    // (1) y := u \ (eu ∪ eg) is au-closed, hence x ⊆ y
    let y = u.difference(eu.union(eg));
    assert(au_closed(g, nb, na.intersect(nb), l, y)) by {
        assert forall|p: Pt| nb.intersect(ax_l(g, y, l)).contains(p) implies y.contains(p) by {
            // p ∈ u, p ∉ b0, p ∉ EX_L(u \ y)
            assert(neg(g, y) =~= eu.union(eg));
            assert(!ex_l(g, eu.union(eg), l).contains(p));
            if eu.contains(p) {
                assert(a.intersect(pre_of(g, eu)).contains(p));
                lemma_pre_mono(g, eu, eu.union(eg));
            }
            if eg.contains(p) {
                assert(ex_l(g, eg, l).contains(p));
                lemma_pre_mono(g, eg, eu.union(eg));
            }
        }
    }
    assert(x.subset_of(y));
    // (2) t := (u \ x) \ eu is dense for EG a
    let w = u.difference(x);
    let t = w.difference(eu);
    assert(au_closed(g, nb, na.intersect(nb), l, x)) by {
        assert forall|p: Pt| na.intersect(nb).contains(p) implies x.contains(p) by {}
        assert forall|p: Pt| nb.intersect(ax_l(g, x, l)).contains(p) implies x.contains(p) by {
            assert forall|z: ISet<Pt>| au_closed(g, nb, na.intersect(nb), l, z) implies #[trigger] z.contains(p) by {
                assert(x.subset_of(z));
                lemma_ax_mono(g, x, z, l);
            }
        }
    }
    assert(eg_dense(g, a, l, t)) by {
        assert forall|p: Pt| t.contains(p) implies a.contains(p) && ex_l(g, t, l).contains(p) by {
            assert(u.contains(p) && !x.contains(p) && !eu.contains(p));
            assert(!b.contains(p));
            assert(nb.contains(p));
            assert(!na.intersect(nb).contains(p));
            assert(a.contains(p));
            // p ∉ AX_L(x)  ==>  p ∈ EX_L(u \ x)
            assert(!ax_l(g, x, l).contains(p));
            assert(neg(g, x) =~= w);
            assert(ex_l(g, w, l).contains(p));
            if pre_of(g, w).contains(p) {
                let v = choose|v: int| 0 <= v < dim_n() && #[trigger] var_pre_of(g, v, w).contains(p);
                let q = with_state(p, flip(p.s, v));
                assert(w.contains(q));
                if eu.contains(q) {
                    assert(var_pre_of(g, v, eu).contains(p));
                    assert(pre_of(g, eu).contains(p));
                    assert(a.intersect(pre_of(g, eu)).contains(p));
                }
                assert(t.contains(q));
                assert(var_pre_of(g, v, t).contains(p));
                assert(pre_of(g, t).contains(p));
            } else {
                assert(w.intersect(l).contains(p));
                assert(t.intersect(l).contains(p));
            }
        }
    }
    assert(t.subset_of(eg));
    assert forall|p: Pt| neg(g, x).contains(p) <==> ew_spec(g, a0, b0, l).contains(p) by {
        if neg(g, x).contains(p) {
            if !eu.contains(p) { assert(t.contains(p)); }
        }
        if eu.union(eg).contains(p) {
            assert(u.contains(p));
            assert(!y.contains(p));
        }
    }
}

// C13: "every state satisfying psi satisfies both phi EW psi and phi AW psi"
pub proof fn lemma_psi_in_weak_until(g: &SymbolicAsyncGraph, a: ISet<Pt>, b: ISet<Pt>, l: ISet<Pt>)
    ensures
        within(g, b).subset_of(ew_spec(g, a, b, l)),
        within(g, b).subset_of(aw_spec(g, a, b)),
{
    assert forall|p: Pt| within(g, b).contains(p) implies ew_spec(g, a, b, l).contains(p) && aw_spec(g, a, b).contains(p) by {
        // p in b => p in every set closed for E[a U b]
        assert(eu_of(g, within(g, a), within(g, b)).contains(p));
        // p is not in E[not b U (not a and not b)]: the set (unit \ b) is closed for it ... and does not contain p
        let z = neg(g, b);
        assert(eu_closed(g, neg(g, b), neg(g, a).intersect(neg(g, b)), z));
        assert(!z.contains(p));
    }
}
