// ======================================================================================
// TRUSTED: opaque stand-ins for the API surface of biodivine-lib-param-bn 0.7.2 / biodivine-lib-bdd 0.6.3
// that the repo uses.  Bodies are never executed; the *assumed* contracts are in prelude/bn_model.rs.
// ======================================================================================
// ---------------- opaque stand-ins (never executed) ----------------
pub struct Bdd { _p: u8 }
#[derive(Clone, Copy)]
pub struct BddVariable { _p: u16 }
pub struct BddVariableSet { _p: u8 }
pub struct SymbolicContext { _p: u8 }
pub struct SymbolicAsyncGraph { _p: u8 }
pub struct GraphColoredVertices { _p: u8 }
pub struct GraphVertices { _p: u8 }
pub struct GraphColors { _p: u8 }
pub struct BooleanNetwork { _p: u8 }
#[derive(Clone, Copy, PartialEq, Eq, Hash)]
pub struct VariableId { _p: usize }
pub struct VariableIdIterator { _p: usize }
pub struct VariableIdRevIterator { _p: usize }


// ---------------- API surface (bodies never run) ----------------
impl GraphColoredVertices {
    pub fn new(_bdd: Bdd, _ctx: &SymbolicContext) -> Self { unimplemented!() }
    pub fn as_bdd(&self) -> &Bdd { unimplemented!() }
    pub fn into_bdd(self) -> Bdd { unimplemented!() }
    pub fn union(&self, _o: &Self) -> Self { unimplemented!() }
    pub fn intersect(&self, _o: &Self) -> Self { unimplemented!() }
    pub fn minus(&self, _o: &Self) -> Self { unimplemented!() }
    pub fn is_empty(&self) -> bool { unimplemented!() }
    pub fn is_subset(&self, _o: &Self) -> bool { unimplemented!() }
    pub fn approx_cardinality(&self) -> f64 { unimplemented!() }
    pub fn exact_cardinality(&self) -> u64 { unimplemented!() }
    pub fn symbolic_size(&self) -> usize { unimplemented!() }
    pub fn vertices(&self) -> GraphVertices { unimplemented!() }
    pub fn colors(&self) -> GraphColors { unimplemented!() }
    pub fn minus_vertices(&self, _v: &GraphVertices) -> Self { unimplemented!() }
    pub fn intersect_vertices(&self, _v: &GraphVertices) -> Self { unimplemented!() }
    pub fn minus_colors(&self, _c: &GraphColors) -> Self { unimplemented!() }
    pub fn intersect_colors(&self, _c: &GraphColors) -> Self { unimplemented!() }
}
impl GraphVertices {
    pub fn new(_bdd: Bdd, _ctx: &SymbolicContext) -> Self { unimplemented!() }
    pub fn as_bdd(&self) -> &Bdd { unimplemented!() }
    pub fn union(&self, _o: &Self) -> Self { unimplemented!() }
    pub fn intersect(&self, _o: &Self) -> Self { unimplemented!() }
    pub fn minus(&self, _o: &Self) -> Self { unimplemented!() }
    pub fn is_empty(&self) -> bool { unimplemented!() }
    pub fn is_subset(&self, _o: &Self) -> bool { unimplemented!() }
    pub fn approx_cardinality(&self) -> f64 { unimplemented!() }
}
impl GraphColors {
    pub fn new(_bdd: Bdd, _ctx: &SymbolicContext) -> Self { unimplemented!() }
    pub fn as_bdd(&self) -> &Bdd { unimplemented!() }
    pub fn union(&self, _o: &Self) -> Self { unimplemented!() }
    pub fn intersect(&self, _o: &Self) -> Self { unimplemented!() }
    pub fn minus(&self, _o: &Self) -> Self { unimplemented!() }
    pub fn is_empty(&self) -> bool { unimplemented!() }
    pub fn is_subset(&self, _o: &Self) -> bool { unimplemented!() }
    pub fn approx_cardinality(&self) -> f64 { unimplemented!() }
}
impl Clone for GraphVertices { fn clone(&self) -> Self { unimplemented!() } }
impl Clone for GraphColors { fn clone(&self) -> Self { unimplemented!() } }
impl Clone for GraphColoredVertices { fn clone(&self) -> Self { unimplemented!() } }
impl PartialEq for GraphColoredVertices { fn eq(&self, _o: &Self) -> bool { unimplemented!() } }
impl Clone for Bdd { fn clone(&self) -> Self { unimplemented!() } }
impl Bdd {
    pub fn and(&self, _o: &Bdd) -> Bdd { unimplemented!() }
    pub fn iff(&self, _o: &Bdd) -> Bdd { unimplemented!() }
    pub fn exists(&self, _vars: &[BddVariable]) -> Bdd { unimplemented!() }
}
impl BddVariableSet { pub fn mk_var_by_name(&self, _name: &str) -> Bdd { unimplemented!() } }
impl Clone for SymbolicContext { fn clone(&self) -> Self { unimplemented!() } }
impl SymbolicContext {
    pub fn bdd_variable_set(&self) -> &BddVariableSet { unimplemented!() }
    pub fn extra_state_variables(&self, _v: VariableId) -> &Vec<BddVariable> { unimplemented!() }
    pub fn state_variables(&self) -> &Vec<BddVariable> { unimplemented!() }
    pub fn find_network_variable(&self, _name: &str) -> Option<VariableId> { unimplemented!() }
    pub fn mk_state_variable_is_true(&self, _v: VariableId) -> Bdd { unimplemented!() }
    pub fn as_canonical_context(&self) -> SymbolicContext { unimplemented!() }
    pub fn transfer_from(&self, _bdd: &Bdd, _ctx: &SymbolicContext) -> Option<Bdd> { unimplemented!() }
    pub fn mk_constant(&self, _v: bool) -> Bdd { unimplemented!() }
}
impl SymbolicAsyncGraph {
    pub fn symbolic_context(&self) -> &SymbolicContext { unimplemented!() }
    pub fn mk_unit_colored_vertices(&self) -> GraphColoredVertices { unimplemented!() }
    pub fn unit_colored_vertices(&self) -> &GraphColoredVertices { unimplemented!() }
    pub fn mk_empty_colored_vertices(&self) -> GraphColoredVertices { unimplemented!() }
    pub fn pre(&self, _s: &GraphColoredVertices) -> GraphColoredVertices { unimplemented!() }
    pub fn var_pre(&self, _v: VariableId, _s: &GraphColoredVertices) -> GraphColoredVertices { unimplemented!() }
    pub fn post(&self, _s: &GraphColoredVertices) -> GraphColoredVertices { unimplemented!() }
    pub fn var_post(&self, _v: VariableId, _s: &GraphColoredVertices) -> GraphColoredVertices { unimplemented!() }
    pub fn can_post(&self, _s: &GraphColoredVertices) -> GraphColoredVertices { unimplemented!() }
    pub fn can_pre(&self, _s: &GraphColoredVertices) -> GraphColoredVertices { unimplemented!() }
    pub fn reach_backward(&self, _s: &GraphColoredVertices) -> GraphColoredVertices { unimplemented!() }
    pub fn reach_forward(&self, _s: &GraphColoredVertices) -> GraphColoredVertices { unimplemented!() }
    pub fn trap_forward(&self, _s: &GraphColoredVertices) -> GraphColoredVertices { unimplemented!() }
    pub fn trap_backward(&self, _s: &GraphColoredVertices) -> GraphColoredVertices { unimplemented!() }
    pub fn mk_unit_colors(&self) -> GraphColors { unimplemented!() }
    pub fn restrict(&self, _s: &GraphColoredVertices) -> SymbolicAsyncGraph { unimplemented!() }
    pub fn variables(&self) -> VariableIdIterator { unimplemented!() }
    pub fn get_variable_name(&self, _v: VariableId) -> String { unimplemented!() }
    pub fn as_network(&self) -> Option<&BooleanNetwork> { unimplemented!() }
    pub fn with_custom_context(_n: &BooleanNetwork, _c: SymbolicContext, _u: Bdd) -> Result<SymbolicAsyncGraph, String> { unimplemented!() }
}
impl VariableIdIterator {
    pub fn next(&mut self) -> Option<VariableId> { unimplemented!() }
    pub fn rev(self) -> VariableIdRevIterator { unimplemented!() }
}
impl VariableIdRevIterator { pub fn next(&mut self) -> Option<VariableId> { unimplemented!() } }

pub struct FixedPoints { _p: u8 }
impl FixedPoints {
    pub fn symbolic(_g: &SymbolicAsyncGraph, _r: &GraphColoredVertices) -> GraphColoredVertices { unimplemented!() }
}
// ---- further API surface (bodies never run); the model gives these functions an EMPTY contract: calls are accepted, nothing is known
impl Bdd {
    pub fn not(&self) -> Bdd { unimplemented!() }
    pub fn or(&self, _o: &Bdd) -> Bdd { unimplemented!() }
    pub fn and_not(&self, _o: &Bdd) -> Bdd { unimplemented!() }
    pub fn imp(&self, _o: &Bdd) -> Bdd { unimplemented!() }
    pub fn xor(&self, _o: &Bdd) -> Bdd { unimplemented!() }
    pub fn is_true(&self) -> bool { unimplemented!() }
    pub fn is_false(&self) -> bool { unimplemented!() }
    pub fn size(&self) -> usize { unimplemented!() }
    pub fn for_all(&self, _vars: &[BddVariable]) -> Bdd { unimplemented!() }
    pub fn var_exists(&self, _v: BddVariable) -> Bdd { unimplemented!() }
    pub fn var_for_all(&self, _v: BddVariable) -> Bdd { unimplemented!() }
    pub fn var_select(&self, _v: BddVariable, _x: bool) -> Bdd { unimplemented!() }
    pub fn var_restrict(&self, _v: BddVariable, _x: bool) -> Bdd { unimplemented!() }
}
impl BddVariableSet {
    pub fn num_vars(&self) -> u16 { unimplemented!() }
    pub fn var_by_name(&self, _name: &str) -> Option<BddVariable> { unimplemented!() }
    pub fn name_of(&self, _v: BddVariable) -> String { unimplemented!() }
    pub fn mk_true(&self) -> Bdd { unimplemented!() }
    pub fn mk_false(&self) -> Bdd { unimplemented!() }
    pub fn mk_var(&self, _v: BddVariable) -> Bdd { unimplemented!() }
    pub fn mk_not_var(&self, _v: BddVariable) -> Bdd { unimplemented!() }
    pub fn mk_literal(&self, _v: BddVariable, _x: bool) -> Bdd { unimplemented!() }
    pub fn mk_not_var_by_name(&self, _name: &str) -> Bdd { unimplemented!() }
}
impl SymbolicContext {
    pub fn network_variables(&self) -> VariableIdIterator { unimplemented!() }
    pub fn get_network_variable_name(&self, _v: VariableId) -> String { unimplemented!() }
    pub fn num_state_variables(&self) -> usize { unimplemented!() }
    pub fn num_parameter_variables(&self) -> usize { unimplemented!() }
    pub fn num_extra_state_variables(&self) -> usize { unimplemented!() }
    pub fn parameter_variables(&self) -> &Vec<BddVariable> { unimplemented!() }
    pub fn all_extra_state_variables(&self) -> &Vec<BddVariable> { unimplemented!() }
    pub fn get_state_variable(&self, _v: VariableId) -> BddVariable { unimplemented!() }
    pub fn get_extra_state_variable(&self, _v: VariableId, _o: usize) -> BddVariable { unimplemented!() }
    pub fn find_state_variable(&self, _v: BddVariable) -> Option<VariableId> { unimplemented!() }
    pub fn mk_extra_state_variable_is_true(&self, _v: VariableId, _o: usize) -> Bdd { unimplemented!() }
}
impl SymbolicAsyncGraph {
    pub fn empty_colors(&self) -> &GraphColors { unimplemented!() }
    pub fn mk_empty_colors(&self) -> GraphColors { unimplemented!() }
    pub fn unit_colors(&self) -> &GraphColors { unimplemented!() }
    pub fn empty_colored_vertices(&self) -> &GraphColoredVertices { unimplemented!() }
    pub fn empty_vertices(&self) -> &GraphVertices { unimplemented!() }
    pub fn mk_empty_vertices(&self) -> GraphVertices { unimplemented!() }
    pub fn unit_vertices(&self) -> &GraphVertices { unimplemented!() }
    pub fn mk_unit_vertices(&self) -> GraphVertices { unimplemented!() }
    pub fn num_vars(&self) -> usize { unimplemented!() }
    pub fn fix_network_variable(&self, _v: VariableId, _x: bool) -> GraphColoredVertices { unimplemented!() }
    pub fn is_trap_set(&self, _s: &GraphColoredVertices) -> bool { unimplemented!() }
    pub fn restrict_variable_in_graph(&self, _v: VariableId, _x: bool) -> SymbolicAsyncGraph { unimplemented!() }
}
impl GraphColoredVertices {
    pub fn pick_vertex(&self) -> Self { unimplemented!() }
    pub fn pick_color(&self) -> Self { unimplemented!() }
    pub fn pick_singleton(&self) -> Self { unimplemented!() }
    pub fn is_singleton(&self) -> bool { unimplemented!() }
    pub fn copy(&self, _bdd: Bdd) -> Self { unimplemented!() }
}
// parameters of the network (explicit uninterpreted functions): empty contracts
#[derive(Clone, Copy)]
pub struct ParameterId { _p: usize }
pub struct ParameterIdIterator { _p: usize }
impl ParameterIdIterator { pub fn next(&mut self) -> Option<ParameterId> { unimplemented!() } }
impl SymbolicContext {
    pub fn network_parameters(&self) -> ParameterIdIterator { unimplemented!() }
    pub fn network_implicit_parameters(&self) -> Vec<VariableId> { unimplemented!() }
}
