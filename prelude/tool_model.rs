// ======================================================================================
// TRUSTED model of what the command-line analysis (src/analysis.rs) uses besides the library: the clock, the network printer,
// construction of the symbolic context / graph from the network, and Result::map_err.
// ======================================================================================
#[verifier::external_type_specification] #[verifier::external_body] pub struct ExSystemTime(SystemTime);
pub assume_specification[ SystemTime::now ]() -> (r: SystemTime);
pub assume_specification[ BooleanNetwork::to_string ](n: &BooleanNetwork) -> (r: String);
// ASSUMED: the symbolic context of the network that was already loaded can be built (if it could not, the tool would panic at
// the `.unwrap()`; not decided here)
pub assume_specification[ SymbolicContext::new ](n: &BooleanNetwork) -> (r: Result<SymbolicContext, String>)
    ensures r is Ok;
// R-derive: #[derive(Clone, Copy)] of PrintOptions
impl Clone for PrintOptions { #[verifier::external_body] fn clone(&self) -> (r: Self) ensures r == *self { unimplemented!() } }
impl Copy for PrintOptions {}
// R-maperr: Result::map_err keeps Ok values and keeps Err an Err
#[verifier::external_body]
fn verif_map_err<T, E>(r: Result<T, E>) -> (q: Result<T, String>)
    ensures r is Ok <==> q is Ok, r matches Ok(v) ==> q == Ok::<T, String>(v)
{ unimplemented!() }
#[verifier::external_type_specification] #[verifier::external_body] pub struct ExIoError(std::io::Error);
