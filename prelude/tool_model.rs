// ======================================================================================
// TRUSTED model of what the command-line analysis (src/analysis.rs) uses besides the library: the clock, the network printer,
// construction of the symbolic context / graph from the network, and Result::map_err.
// ======================================================================================
#[verifier::external_type_specification] #[verifier::external_body] pub struct ExSystemTime(SystemTime);
pub assume_specification[ SystemTime::now ]() -> (r: SystemTime);
pub assume_specification[ BooleanNetwork::to_string ](n: &BooleanNetwork) -> (r: String);
// ASSUMED: the symbolic context of the network that was already loaded can be built (if it could not, the tool would panic at
// the `.unwrap()`; not decided here)
pub assume_specification[ SymbolicContext::new ](n: &BooleanNetwork) -> (r: Result<SymbolicContext, String>)
    ensures r is Ok;
// R-derive: #[derive(Clone, Copy)] of PrintOptions
impl Clone for PrintOptions { #[verifier::external_body] fn clone(&self) -> (r: Self) ensures r == *self { unimplemented!() } }
impl Copy for PrintOptions {}
// R-maperr: Result::map_err keeps Ok values and keeps Err an Err
#[verifier::external_body]
fn verif_map_err<T, E>(r: Result<T, E>) -> (q: Result<T, String>)
    ensures r is Ok <==> q is Ok, r matches Ok(v) ==> q == Ok::<T, String>(v)
{ unimplemented!() }
#[verifier::external_type_specification] #[verifier::external_body] pub struct ExIoError(std::io::Error);
// ---- text files and lines (load_formulae): TRUSTED model of std, written from the std documentation
pub uninterp spec fn file_content(path: Seq<char>) -> Seq<char>;
pub assume_specification[ read_to_string ](path: &str) -> (r: Result<String, std::io::Error>)
    ensures r matches Ok(s) ==> s@ == file_content(path@);
// str::lines: "Lines are split at line endings that are either newlines (\n) or sequences of a carriage return followed by a line
// feed (\r\n). Line terminators are not included in the lines returned by the iterator. The final line ending is optional. A bare
// carriage return at the end of a line is preserved."
pub open spec fn index_of_nl(s: Seq<char>) -> int decreases s.len() {
    if s.len() == 0 { 0 } else if s[0] == '\n' { 0 } else { 1 + index_of_nl(s.drop_first()) }
}
pub proof fn lemma_index_of_nl(s: Seq<char>)
    ensures 0 <= index_of_nl(s) <= s.len()
    decreases s.len()
{
    if s.len() > 0 && s[0] != '\n' { lemma_index_of_nl(s.drop_first()); }
}
pub open spec fn strip_cr(l: Seq<char>) -> Seq<char> { if l.len() > 0 && l[l.len() - 1] == '\r' { l.subrange(0, l.len() - 1) } else { l } }
pub open spec fn lines_of(s: Seq<char>) -> Seq<Seq<char>> decreases s.len() via lines_of_dec {
    if s.len() == 0 { Seq::<Seq<char>>::empty() } else {
        let k = index_of_nl(s);
        if k >= s.len() { seq![s] }                                   // last line without terminator: kept as it is
        else { seq![strip_cr(s.subrange(0, k))] + lines_of(s.subrange(k + 1, s.len() as int)) }
    }
}
#[via_fn]
proof fn lines_of_dec(s: Seq<char>) { lemma_index_of_nl(s); }
#[verifier::external_type_specification] #[verifier::external_body] pub struct ExLines<'a>(std::str::Lines<'a>);
pub uninterp spec fn lines_rest(it: &std::str::Lines) -> Seq<Seq<char>>;      // the lines still to be yielded
pub assume_specification<'a>[ str::lines ](s: &'a str) -> (r: std::str::Lines<'a>)
    ensures lines_rest(&r) == lines_of(s@);
pub assume_specification<'a>[ <std::str::Lines<'a> as Iterator>::next ](it: &mut std::str::Lines<'a>) -> (r: Option<&'a str>)
    ensures
        lines_rest(old(it)).len() == 0 ==> r is None && lines_rest(final(it)) == lines_rest(old(it)),
        lines_rest(old(it)).len() > 0 ==> (r matches Some(l) && l@ == lines_rest(old(it))[0] && lines_rest(final(it)) == lines_rest(old(it)).drop_first());
// str::trim: "Returns a string slice with leading and trailing whitespace removed. 'Whitespace' is defined according to the terms of
// the Unicode Derived Core Property White_Space"
pub open spec fn trim_front(s: Seq<char>) -> Seq<char> decreases s.len() {
    if s.len() > 0 && is_white_space(s[0]) { trim_front(s.drop_first()) } else { s }
}
pub open spec fn trim_back(s: Seq<char>) -> Seq<char> decreases s.len() {
    if s.len() > 0 && is_white_space(s[s.len() - 1]) { trim_back(s.drop_last()) } else { s }
}
pub open spec fn trim_of(s: Seq<char>) -> Seq<char> { trim_back(trim_front(s)) }
pub assume_specification<'a>[ str::trim ](s: &'a str) -> (r: &'a str)
    ensures r@ == trim_of(s@);
// R-startswith: str::starts_with with a char pattern
#[verifier::external_body]
fn str_starts_with_char(s: &str, c: char) -> (r: bool)
    ensures r == (s@.len() > 0 && s@[0] == c)
{ unimplemented!() }
// R-tostr: ToString of a string slice copies it
#[verifier::external_body]
fn tostr_strslice(s: &&str) -> (r: String)
    ensures r@ == (*s)@
{ unimplemented!() }

// ---- construction of the extended graph (get_extended_symbolic_graph is VERIFIED against these library contracts)
// ASSUMED (lib-param-bn): BooleanNetwork::variables yields the network variables 0 .. n-1; VariableId is a newtype of usize (derived Hash / Eq);
// SymbolicContext::with_extra_state_variables(bn, m) creates m[v] extra BDD variables for every network variable v (named "{v}_extra_{i}",
// interleaved after v); SymbolicAsyncGraph::with_custom_context over such a context and the constant-true unit is the graph of the analysis:
// it IS the ambient base graph, with k spare variable sets.
pub open spec fn all_mapped(m: Map<VariableId, u16>, upto: int, k: nat) -> bool {
    forall|v: VariableId| #![trigger vid(v)] 0 <= vid(v) < upto ==> m.contains_key(v) && m[v] == k
}
pub assume_specification[ BooleanNetwork::variables ](n: &BooleanNetwork) -> (r: VariableIdIterator)
    ensures it_next(&r) == 0;
pub assume_specification[ SymbolicContext::with_extra_state_variables ](n: &BooleanNetwork, m: &HashMap<VariableId, u16>) -> (r: Result<SymbolicContext, String>)
    ensures r matches Ok(c) ==> (forall|k: nat| all_mapped(m@, dim_n() as int, k) ==> #[trigger] ctx_uniform_extras(&c, k));
pub broadcast axiom fn axiom_varid_key_model()
    ensures #[trigger] obeys_key_model::<VariableId>();
pub axiom fn axiom_vid_injective(a: VariableId, b: VariableId)
    ensures vid(a) == vid(b) ==> a == b;
pub broadcast axiom fn axiom_fresh_ready(g: &SymbolicAsyncGraph, k: nat)
    ensures #[trigger] fresh_ready(g, k) ==> graph_ready(g) && dim_k() == k;
