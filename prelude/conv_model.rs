// ======================================================================================
// TRUSTED model of the part of biodivine-lib-param-bn 0.7.2 that the converter uses.
// FnUpdate is declared with the constructors of the library (the converter matches on them); its smart constructors are specified
// through the EVALUATION of the update function (feval).  A BooleanNetwork is opaque; what the converter observes of it is its table
// of parameters (name -> id, id -> name), modelled by the ghost functions ptab / pname.
// ======================================================================================
#[derive(Clone, Copy)] pub struct VariableId { pub _p: usize }
#[derive(Clone, Copy)] pub struct ParameterId { pub _p: usize }
#[derive(Clone, Copy)] pub enum BinaryOp { And, Or, Xor, Iff, Imp }
pub enum FnUpdate { Const(bool), Var(VariableId), Param(ParameterId, Vec<FnUpdate>), Not(Box<FnUpdate>), Binary(BinaryOp, Box<FnUpdate>, Box<FnUpdate>) }
// R-derive: #[derive(PartialEq)] of FnUpdate (structural)
impl PartialEq for FnUpdate { #[verifier::external_body] fn eq(&self, o: &Self) -> (r: bool) ensures r <==> *self == *o { unimplemented!() } }
#[verifier::external_body] pub struct BooleanNetwork { _p: u8 }
#[verifier::external_body] pub struct Parameter { _p: u8 }

pub open spec fn bop(op: BinaryOp, a: bool, b: bool) -> bool {
    match op { BinaryOp::And => a && b, BinaryOp::Or => a || b, BinaryOp::Xor => a != b, BinaryOp::Iff => a == b, BinaryOp::Imp => !a || b }
}
// value of an update function under a valuation of the variables and an interpretation of the (uninterpreted) parameters
pub open spec fn feval(f: FnUpdate, vv: spec_fn(VariableId) -> bool, pi: spec_fn(ParameterId, Seq<bool>) -> bool) -> bool decreases f {
    match f {
        FnUpdate::Const(b) => b,
        FnUpdate::Var(x) => vv(x),
        FnUpdate::Param(id, args) => pi(id, Seq::new(args@.len(), |i: int| if 0 <= i < args@.len() { feval(args@[i], vv, pi) } else { false })),
        FnUpdate::Not(g) => !feval(*g, vv, pi),
        FnUpdate::Binary(op, l, r) => bop(op, feval(*l, vv, pi), feval(*r, vv, pi)),
    }
}
// no uninterpreted function of positive arity is left ("fresh constant inputs" only)
pub open spec fn is_flat(f: FnUpdate) -> bool decreases f {
    match f {
        FnUpdate::Const(_) => true,
        FnUpdate::Var(_) => true,
        FnUpdate::Param(_, args) => args@.len() == 0,
        FnUpdate::Not(g) => is_flat(*g),
        FnUpdate::Binary(_, l, r) => is_flat(*l) && is_flat(*r),
    }
}
impl FnUpdate {
    #[verifier::external_body]
    pub fn negation(self) -> (r: FnUpdate)
        ensures forall|vv: spec_fn(VariableId) -> bool, pi: spec_fn(ParameterId, Seq<bool>) -> bool| #[trigger] feval(r, vv, pi) == !feval(self, vv, pi), is_flat(self) ==> is_flat(r), forall|regs: Seq<VariableId>| #![trigger vars_in(self, regs)] #![trigger vars_in(r, regs)] vars_in(self, regs) ==> vars_in(r, regs)
    { unimplemented!() }
    #[verifier::external_body]
    pub fn and(self, other: FnUpdate) -> (r: FnUpdate)
        ensures forall|vv: spec_fn(VariableId) -> bool, pi: spec_fn(ParameterId, Seq<bool>) -> bool| #[trigger] feval(r, vv, pi) == (feval(self, vv, pi) && feval(other, vv, pi)), is_flat(self) && is_flat(other) ==> is_flat(r), forall|regs: Seq<VariableId>| #![trigger vars_in(r, regs)] #![trigger vars_in(self, regs), vars_in(other, regs)] vars_in(self, regs) && vars_in(other, regs) ==> vars_in(r, regs)
    { unimplemented!() }
    #[verifier::external_body]
    pub fn implies(self, other: FnUpdate) -> (r: FnUpdate)
        ensures forall|vv: spec_fn(VariableId) -> bool, pi: spec_fn(ParameterId, Seq<bool>) -> bool| #[trigger] feval(r, vv, pi) == (!feval(self, vv, pi) || feval(other, vv, pi)), is_flat(self) && is_flat(other) ==> is_flat(r), forall|regs: Seq<VariableId>| #![trigger vars_in(r, regs)] #![trigger vars_in(self, regs), vars_in(other, regs)] vars_in(self, regs) && vars_in(other, regs) ==> vars_in(r, regs)
    { unimplemented!() }
    #[verifier::external_body]
    pub fn mk_var(id: VariableId) -> (r: FnUpdate)
        ensures r == FnUpdate::Var(id)
    { unimplemented!() }
}
impl Clone for FnUpdate {
    #[verifier::external_body]
    fn clone(&self) -> (r: FnUpdate) ensures r == *self { unimplemented!() }
}
// the parameter table of a network
pub uninterp spec fn ptab(n: &BooleanNetwork) -> Map<Seq<char>, ParameterId>;
pub uninterp spec fn pname(n: &BooleanNetwork, id: ParameterId) -> Seq<char>;
pub uninterp spec fn par_name(p: &Parameter) -> Seq<char>;
pub uninterp spec fn is_var_name(n: &BooleanNetwork, name: Seq<char>) -> bool;
pub open spec fn net_ok(n: &BooleanNetwork) -> bool { forall|nm: Seq<char>| #[trigger] ptab(n).contains_key(nm) ==> pname(n, ptab(n)[nm]) == nm }
impl Parameter {
    #[verifier::external_body]
    pub fn get_name(&self) -> (r: &String) ensures r@ == par_name(self) { unimplemented!() }
}
impl BooleanNetwork {
    #[verifier::external_body]
    pub fn find_parameter(&self, name: &str) -> (r: Option<ParameterId>)
        ensures r == (if ptab(self).contains_key(name@) { Some(ptab(self)[name@]) } else { None::<ParameterId> })
    { unimplemented!() }
    // lib-param-bn: add_parameter returns Err when the name is already used by a VARIABLE or by a parameter, otherwise it appends a
    // parameter with a fresh id.  The converter unwraps the result, so "the name is not a variable name" is stated as a precondition of
    // the model: where it cannot be established the converter can panic (known finding D11).
    #[verifier::external_body]
    pub fn add_parameter(&mut self, name: &str, arity: u32) -> (r: Result<ParameterId, String>)
        requires !is_var_name(old(self), name@)
        ensures
            !ptab(old(self)).contains_key(name@) ==> r is Ok,
            match r {
                Ok(id) => !ptab(old(self)).contains_key(name@) && ptab(final(self)) == ptab(old(self)).insert(name@, id) && pname(final(self), id) == name@
                    && (forall|j: ParameterId| j != id ==> pname(final(self), j) == #[trigger] pname(old(self), j))
                    && (forall|nm: Seq<char>| #[trigger] ptab(old(self)).contains_key(nm) ==> ptab(old(self))[nm] != id)
                    && same_vars(old(self), final(self)),
                Err(_) => same_vars(old(self), final(self)) && ptab(final(self)) == ptab(old(self)) && (forall|j: ParameterId| pname(final(self), j) == #[trigger] pname(old(self), j)),
            }
    { unimplemented!() }
    #[verifier::external_body]
    pub fn get_parameter(&self, id: ParameterId) -> (r: &Parameter) ensures par_name(r) == pname(self, id) { unimplemented!() }
    #[verifier::external_body]
    pub fn regulators(&self, v: VariableId) -> (r: Vec<VariableId>) ensures r@ == regs_of(self, v) { unimplemented!() }
    #[verifier::external_body]
    pub fn get_update_function(&self, v: VariableId) -> (r: &Option<FnUpdate>) ensures *r == upd_of(self, v) { unimplemented!() }
    #[verifier::external_body]
    pub fn get_variable_name(&self, v: VariableId) -> (r: &String) ensures r@ == vname_of(self, v) { unimplemented!() }
    // lib-param-bn: set_update_function returns Err when the function mentions a variable that is not a regulator of v (or a parameter
    // with a wrong arity); stated as a precondition of the model, since the converter unwraps the result
    #[verifier::external_body]
    pub fn set_update_function(&mut self, v: VariableId, f: Option<FnUpdate>) -> (r: Result<(), String>)
        requires f matches Some(g) ==> vars_in(g, regs_of(old(self), v))
        ensures
            r is Ok,
            upd_of(final(self), v) == f,
            forall|w: VariableId| w != v ==> upd_of(final(self), w) == #[trigger] upd_of(old(self), w),
            forall|w: VariableId| regs_of(final(self), w) == #[trigger] regs_of(old(self), w),
            ptab(final(self)) == ptab(old(self)),
            forall|j: ParameterId| pname(final(self), j) == #[trigger] pname(old(self), j),
    { unimplemented!() }
}
pub open spec fn same_vars(a: &BooleanNetwork, b: &BooleanNetwork) -> bool {
    forall|v: VariableId| #![trigger regs_of(b, v)] #![trigger upd_of(b, v)] #![trigger vname_of(b, v)] regs_of(b, v) == regs_of(a, v) && upd_of(b, v) == upd_of(a, v) && vname_of(b, v) == vname_of(a, v)
}
pub uninterp spec fn regs_of(n: &BooleanNetwork, v: VariableId) -> Seq<VariableId>;
pub uninterp spec fn upd_of(n: &BooleanNetwork, v: VariableId) -> Option<FnUpdate>;
pub uninterp spec fn vname_of(n: &BooleanNetwork, v: VariableId) -> Seq<char>;
// every variable of f is one of `regs`
pub open spec fn vars_in(f: FnUpdate, regs: Seq<VariableId>) -> bool decreases f {
    match f {
        FnUpdate::Const(_) => true,
        FnUpdate::Var(x) => regs.contains(x),
        FnUpdate::Param(_, args) => forall|i: int| 0 <= i < args@.len() ==> vars_in(#[trigger] args@[i], regs),
        FnUpdate::Not(g) => vars_in(*g, regs),
        FnUpdate::Binary(_, l, r) => vars_in(*l, regs) && vars_in(*r, regs),
    }
}
// std functions without a vstd specification that a converter change is likely to use
pub assume_specification<T, A>[ <std::boxed::Box<T, A> as std::convert::AsRef<T>>::as_ref ](b: &std::boxed::Box<T, A>) -> (r: &T)
    where A: std::alloc::Allocator, T: std::marker::MetaSized + ?Sized
    ensures r == &**b;
