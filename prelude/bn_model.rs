// ======================================================================================
// TRUSTED MODEL of biodivine-lib-param-bn 0.7.2 / biodivine-lib-bdd 0.6.3 (DESIGN.md 3.3 item 1).
// Every `assume_specification` / `axiom` below is an ASSUMPTION, written from the dependency sources
// (symbolic_async_graph/_impl_symbolic_async_graph_operators.rs, _impl_symbolic_context.rs, ...).
// Abstract domain: a point Pt = (state s, colour c, values e[0..k) of the k auxiliary copies of the
// state variables).  gv(set) / bv(bdd) are the sets of points of a symbolic set / BDD.
// NOTE pre / var_pre are NOT intersected with the unit set (fn_transition = var XOR update, see
// SymbolicAsyncGraph::new_raw) -- this is what makes "results stay inside the unit set" (C03) a
// real obligation of the repo code.
// ======================================================================================
// ---------------- abstract domain ----------------
pub struct Pt { pub s: Seq<bool>, pub c: int, pub e: Seq<Seq<bool>> }
pub uninterp spec fn dim_n() -> nat;   // number of network variables (ambient symbolic context)
pub uninterp spec fn dim_k() -> nat;   // number of extra copies (HCTL variable slots)
pub open spec fn shaped(p: Pt) -> bool {
    p.s.len() == dim_n() && p.e.len() == dim_k() && forall|k: int| 0 <= k < dim_k() ==> (#[trigger] p.e[k]).len() == dim_n()
}
pub open spec fn with_state(p: Pt, s: Seq<bool>) -> Pt { Pt { s: s, ..p } }
pub open spec fn with_slot(p: Pt, k: int, v: Seq<bool>) -> Pt { Pt { e: p.e.update(k, v), ..p } }
pub open spec fn flip(s: Seq<bool>, v: int) -> Seq<bool> { s.update(v, !s[v]) }

#[verifier::external_type_specification] #[verifier::external_body] pub struct ExBdd(Bdd);
#[verifier::external_type_specification] #[verifier::external_body] pub struct ExBddVariable(BddVariable);
#[verifier::external_type_specification] #[verifier::external_body] pub struct ExBddVariableSet(BddVariableSet);
#[verifier::external_type_specification] #[verifier::external_body] pub struct ExSymbolicContext(SymbolicContext);
#[verifier::external_type_specification] #[verifier::external_body] pub struct ExSymbolicAsyncGraph(SymbolicAsyncGraph);
#[verifier::external_type_specification] #[verifier::external_body] pub struct ExGraphColoredVertices(GraphColoredVertices);
#[verifier::external_type_specification] #[verifier::external_body] pub struct ExGraphVertices(GraphVertices);
#[verifier::external_type_specification] #[verifier::external_body] pub struct ExGraphColors(GraphColors);
#[verifier::external_type_specification] #[verifier::external_body] pub struct ExBooleanNetwork(BooleanNetwork);
#[verifier::external_type_specification] #[verifier::external_body] pub struct ExVariableId(VariableId);
#[verifier::external_type_specification] #[verifier::external_body] pub struct ExVariableIdIterator(VariableIdIterator);
#[verifier::external_type_specification] #[verifier::external_body] pub struct ExVariableIdRevIterator(VariableIdRevIterator);

pub uninterp spec fn bv(b: &Bdd) -> ISet<Pt>;                       // valuations satisfying a BDD
pub uninterp spec fn gv(s: &GraphColoredVertices) -> ISet<Pt>;      // same, for a coloured vertex set
pub uninterp spec fn unit_of(g: &SymbolicAsyncGraph) -> ISet<Pt>;
pub uninterp spec fn can_flip(g: &SymbolicAsyncGraph, v: int, s: Seq<bool>, c: int) -> bool;
pub uninterp spec fn vid(v: VariableId) -> int;
pub enum Role { State(int), Extra(int, int), Param(int) }
pub uninterp spec fn role(v: BddVariable) -> Role;

// every symbolic set only contains well-shaped valuations (BDD valuations are total over the variable set)
pub broadcast axiom fn axiom_gv_shaped(s: &GraphColoredVertices, p: Pt)
    requires #[trigger] gv(s).contains(p)
    ensures shaped(p);
pub broadcast axiom fn axiom_bv_shaped(b: &Bdd, p: Pt)
    requires #[trigger] bv(b).contains(p)
    ensures shaped(p);


// ---------------- assumed contracts: set algebra ----------------
pub assume_specification[ GraphColoredVertices::union ](a: &GraphColoredVertices, b: &GraphColoredVertices) -> (r: GraphColoredVertices)
    ensures gv(&r) == gv(a).union(gv(b));
pub assume_specification[ GraphColoredVertices::intersect ](a: &GraphColoredVertices, b: &GraphColoredVertices) -> (r: GraphColoredVertices)
    ensures gv(&r) == gv(a).intersect(gv(b));
pub assume_specification[ GraphColoredVertices::minus ](a: &GraphColoredVertices, b: &GraphColoredVertices) -> (r: GraphColoredVertices)
    ensures gv(&r) == gv(a).difference(gv(b));
pub assume_specification[ GraphColoredVertices::is_empty ](a: &GraphColoredVertices) -> (r: bool)
    ensures r <==> gv(a) == ISet::<Pt>::empty();
pub assume_specification[ <GraphColoredVertices as Clone>::clone ](a: &GraphColoredVertices) -> (r: GraphColoredVertices)
    ensures gv(&r) == gv(a), canonical_set(&r) == canonical_set(a);
pub assume_specification[ <GraphColoredVertices as PartialEq>::eq ](a: &GraphColoredVertices, b: &GraphColoredVertices) -> (r: bool)
    ensures r <==> gv(a) == gv(b);
pub assume_specification[ GraphColoredVertices::new ](bdd: Bdd, ctx: &SymbolicContext) -> (r: GraphColoredVertices)
    ensures gv(&r) == bv(&bdd), canonical_ctx(ctx) && canonical_bdd(&bdd) ==> canonical_set(&r);
pub assume_specification[ GraphColoredVertices::as_bdd ](a: &GraphColoredVertices) -> (r: &Bdd)
    ensures bv(r) == gv(a);
pub assume_specification[ GraphColoredVertices::into_bdd ](a: GraphColoredVertices) -> (r: Bdd)
    ensures bv(&r) == gv(&a);
pub assume_specification[ <Bdd as Clone>::clone ](a: &Bdd) -> (r: Bdd)
    ensures bv(&r) == bv(a);
pub assume_specification[ Bdd::and ](a: &Bdd, b: &Bdd) -> (r: Bdd)
    ensures bv(&r) == bv(a).intersect(bv(b));
pub assume_specification[ Bdd::iff ](a: &Bdd, b: &Bdd) -> (r: Bdd)
    ensures forall|p: Pt| #[trigger] bv(&r).contains(p) <==> shaped(p) && (bv(a).contains(p) <==> bv(b).contains(p));

// ---------------- assumed contracts: variables and projections ----------------
pub open spec fn coord(p: Pt, r: Role) -> bool {
    match r { Role::State(i) => p.s[i], Role::Extra(i, k) => p.e[k][i], Role::Param(_) => false }
}
// p and q agree on the colour and on every state / extra coordinate whose role is not in `roles`
pub open spec fn same_except(p: Pt, q: Pt, roles: Set<Role>) -> bool {
    &&& p.c == q.c
    &&& forall|i: int| 0 <= i < dim_n() && !roles.contains(Role::State(i)) ==> p.s[i] == q.s[i]
    &&& forall|i: int, k: int| 0 <= i < dim_n() && 0 <= k < dim_k() && !roles.contains(Role::Extra(i, k)) ==> #[trigger] p.e[k][i] == q.e[k][i]
}
pub open spec fn roles_of(vars: Seq<BddVariable>) -> Set<Role> { vars.map_values(|v: BddVariable| role(v)).to_set() }
pub open spec fn no_params(vars: Seq<BddVariable>) -> bool { forall|j: int| 0 <= j < vars.len() ==> !(role(#[trigger] vars[j]) is Param) }
pub assume_specification[ Bdd::exists ](a: &Bdd, vars: &[BddVariable]) -> (r: Bdd)
    requires no_params(vars@)   // (the repo never projects parameter variables; the contract is only given for that case)
    ensures forall|p: Pt| #[trigger] bv(&r).contains(p) <==> shaped(p) && exists|q: Pt| bv(a).contains(q) && same_except(p, q, roles_of(vars@));

pub uninterp spec fn var_name(i: int) -> Seq<char>;         // name of network variable i
pub uninterp spec fn dec_digits(k: nat) -> Seq<char>;       // decimal rendering used by format!("{}", k) for usize
pub open spec fn extra_name(i: int, k: int) -> Seq<char> { var_name(i) + "_extra_"@ + dec_digits(k as nat) }
pub uninterp spec fn name_role(name: Seq<char>) -> Option<Role>;   // BDD variable with that name, if any
pub broadcast axiom fn axiom_names_state(i: int)
    requires 0 <= i < dim_n()
    ensures #[trigger] name_role(var_name(i)) == Some(Role::State(i));
pub broadcast axiom fn axiom_names_extra(i: int, k: int)      // lib-param-bn: with_extra_state_variables names them "{var}_extra_{k}"
    requires 0 <= i < dim_n(), 0 <= k < dim_k()
    ensures #[trigger] name_role(extra_name(i, k)) == Some(Role::Extra(i, k));

pub assume_specification[ BddVariableSet::mk_var_by_name ](s: &BddVariableSet, name: &str) -> (r: Bdd)
    requires name_role(name@) is Some          // panics otherwise
    ensures forall|p: Pt| #[trigger] bv(&r).contains(p) <==> shaped(p) && coord(p, name_role(name@)->0);
pub assume_specification[ SymbolicContext::bdd_variable_set ](c: &SymbolicContext) -> (r: &BddVariableSet);
pub assume_specification[ SymbolicContext::extra_state_variables ](c: &SymbolicContext, v: VariableId) -> (r: &Vec<BddVariable>)
    requires 0 <= vid(v) < dim_n()
    ensures r@.len() == dim_k(), forall|k: int| 0 <= k < dim_k() ==> role(#[trigger] r@[k]) == Role::Extra(vid(v), k);
pub uninterp spec fn state_vars_seq() -> Seq<BddVariable>;   // the BDD variables of the network variables, in order
pub assume_specification[ SymbolicContext::state_variables ](c: &SymbolicContext) -> (r: &Vec<BddVariable>)
    ensures r@ == state_vars_seq(), r@.len() == dim_n(), forall|i: int| 0 <= i < dim_n() ==> role(#[trigger] r@[i]) == Role::State(i);
pub uninterp spec fn prop_index(name: Seq<char>) -> Option<int>;
pub assume_specification[ SymbolicContext::find_network_variable ](c: &SymbolicContext, name: &str) -> (r: Option<VariableId>)
    ensures match r { Some(v) => prop_index(name@) == Some(vid(v)) && 0 <= vid(v) < dim_n(), None => prop_index(name@) is None };
pub assume_specification[ SymbolicContext::mk_state_variable_is_true ](c: &SymbolicContext, v: VariableId) -> (r: Bdd)
    requires 0 <= vid(v) < dim_n()
    ensures forall|p: Pt| #[trigger] bv(&r).contains(p) <==> shaped(p) && p.s[vid(v)];
pub assume_specification[ <SymbolicContext as Clone>::clone ](c: &SymbolicContext) -> (r: SymbolicContext);

// ---------------- assumed contracts: the symbolic asynchronous graph ----------------
// unit set: does not constrain the state coordinates (lib-param-bn: "unit_bdd should be a cartesian product ...";
// established by get_extended_symbolic_graph and preserved by restrict_stg_unit_bdd, see wf_graph)
#[verifier::opaque]
pub open spec fn wf_graph(g: &SymbolicAsyncGraph) -> bool {
    &&& forall|p: Pt| #[trigger] unit_of(g).contains(p) ==> shaped(p)
    &&& forall|p: Pt, s: Seq<bool>| #![trigger unit_of(g).contains(with_state(p, s))] unit_of(g).contains(p) && s.len() == dim_n() ==> unit_of(g).contains(with_state(p, s))
}
pub open spec fn var_pre_of(g: &SymbolicAsyncGraph, v: int, z: ISet<Pt>) -> ISet<Pt> {
    ISet::new(|p: Pt| shaped(p) && can_flip(g, v, p.s, p.c) && z.contains(with_state(p, flip(p.s, v))))
}
pub open spec fn pre_of(g: &SymbolicAsyncGraph, z: ISet<Pt>) -> ISet<Pt> {
    ISet::new(|p: Pt| exists|v: int| 0 <= v < dim_n() && #[trigger] var_pre_of(g, v, z).contains(p))
}
pub assume_specification[ SymbolicAsyncGraph::symbolic_context ](g: &SymbolicAsyncGraph) -> (r: &SymbolicContext);
pub assume_specification[ SymbolicAsyncGraph::mk_unit_colored_vertices ](g: &SymbolicAsyncGraph) -> (r: GraphColoredVertices)
    ensures gv(&r) == unit_of(g);
pub assume_specification[ SymbolicAsyncGraph::unit_colored_vertices ](g: &SymbolicAsyncGraph) -> (r: &GraphColoredVertices)
    ensures gv(r) == unit_of(g);
pub assume_specification[ SymbolicAsyncGraph::mk_empty_colored_vertices ](g: &SymbolicAsyncGraph) -> (r: GraphColoredVertices)
    ensures gv(&r) == ISet::<Pt>::empty();
pub assume_specification[ SymbolicAsyncGraph::pre ](g: &SymbolicAsyncGraph, s: &GraphColoredVertices) -> (r: GraphColoredVertices)
    ensures gv(&r) == pre_of(g, gv(s));
pub assume_specification[ SymbolicAsyncGraph::var_pre ](g: &SymbolicAsyncGraph, v: VariableId, s: &GraphColoredVertices) -> (r: GraphColoredVertices)
    requires 0 <= vid(v) < dim_n()
    ensures gv(&r) == var_pre_of(g, vid(v), gv(s));
pub assume_specification[ SymbolicAsyncGraph::get_variable_name ](g: &SymbolicAsyncGraph, v: VariableId) -> (r: String)
    requires 0 <= vid(v) < dim_n()
    ensures r@ == var_name(vid(v));
// iteration over network variables: 0, 1, ..., n-1 (and reversed)
pub uninterp spec fn it_next(it: &VariableIdIterator) -> int;       // next index to be yielded
pub uninterp spec fn rit_next(it: &VariableIdRevIterator) -> int;   // next index to be yielded (counts down)
pub assume_specification[ SymbolicAsyncGraph::variables ](g: &SymbolicAsyncGraph) -> (r: VariableIdIterator)
    ensures it_next(&r) == 0;
pub assume_specification[ VariableIdIterator::next ](it: &mut VariableIdIterator) -> (r: Option<VariableId>)
    ensures
        it_next(old(it)) < dim_n() ==> (r matches Some(v) && vid(v) == it_next(old(it)) && it_next(final(it)) == it_next(old(it)) + 1),
        it_next(old(it)) >= dim_n() ==> r is None && it_next(final(it)) == it_next(old(it));
pub assume_specification[ VariableIdIterator::rev ](it: VariableIdIterator) -> (r: VariableIdRevIterator)
    requires it_next(&it) == 0
    ensures rit_next(&r) == dim_n() - 1;
pub assume_specification[ VariableIdRevIterator::next ](it: &mut VariableIdRevIterator) -> (r: Option<VariableId>)
    ensures
        rit_next(old(it)) >= 0 ==> (r matches Some(v) && vid(v) == rit_next(old(it)) && rit_next(final(it)) == rit_next(old(it)) - 1),
        rit_next(old(it)) < 0 ==> r is None && rit_next(final(it)) == rit_next(old(it));

// ---------------- ambient base graph, restricted graphs, steady states ----------------
// All graphs of one evaluation share the transitions of the graph handed to the entry point (the
// "base graph"); restricted graphs (restrict_stg_unit_bdd) only shrink the unit set.
pub uninterp spec fn base_graph() -> SymbolicAsyncGraph;
pub open spec fn same_trans(g: &SymbolicAsyncGraph, h: &SymbolicAsyncGraph) -> bool {
    forall|v: int, s: Seq<bool>, c: int| #[trigger] can_flip(g, v, s, c) == can_flip(h, v, s, c)
}
pub open spec fn base_unit() -> ISet<Pt> { unit_of(&base_graph()) }
pub open spec fn sub_graph(g: &SymbolicAsyncGraph) -> bool {
    wf_graph(g) && same_trans(g, &base_graph()) && unit_of(g).subset_of(base_unit())
}
pub uninterp spec fn net_graph(n: &BooleanNetwork) -> SymbolicAsyncGraph;   // (a) graph the network reference was taken from
pub uninterp spec fn has_network(g: &SymbolicAsyncGraph) -> bool;           // the graph carries a copy of its BooleanNetwork
pub assume_specification[ SymbolicAsyncGraph::as_network ](g: &SymbolicAsyncGraph) -> (r: Option<&BooleanNetwork>)
    ensures has_network(g) ==> r is Some, r matches Some(n) ==> same_trans(&net_graph(n), g);
// with_custom_context: the given unit BDD is intersected with the regulation constraints; the call fails
// iff nothing remains ("No update functions satisfy given constraints"); transitions are those of the network.
// Contract given for the case used by the repo: the unit BDD is already inside a valid unit set.
pub uninterp spec fn ctx_uniform_extras(c: &SymbolicContext, k: nat) -> bool;   // every network variable has exactly k extra state variables in c
pub uninterp spec fn fresh_ready(g: &SymbolicAsyncGraph, k: nat) -> bool;        // g is the graph of the analysis, built with k spare variable sets (meaning: prelude/tool_model.rs)
pub uninterp spec fn valid_colors() -> ISet<Pt>;   // points whose colour satisfies the regulation constraints
pub assume_specification[ SymbolicAsyncGraph::with_custom_context ](n: &BooleanNetwork, c: SymbolicContext, u: Bdd) -> (r: Result<SymbolicAsyncGraph, String>)
    ensures
        match r {
            Ok(g) => unit_of(&g) == bv(&u).intersect(valid_colors()) && same_trans(&g, &net_graph(n)) && unit_of(&g) != ISet::<Pt>::empty() && has_network(&g)
                // a graph built from the constant-true unit over a context with exactly k spare variables per network variable
                && (forall|k: nat| #[trigger] ctx_uniform_extras(&c, k) && (forall|p: Pt| bv(&u).contains(p) <==> shaped(p)) ==> fresh_ready(&g, k)),
            Err(_) => bv(&u).intersect(valid_colors()) == ISet::<Pt>::empty(),
        };
pub open spec fn has_succ(g: &SymbolicAsyncGraph, p: Pt) -> bool { exists|v: int| 0 <= v < dim_n() && #[trigger] can_flip(g, v, p.s, p.c) }
// FixedPoints::symbolic(g, R): the points of unit(g) and R without any enabled variable
// (fixed_points/mod.rs: prepare_to_merge = unit AND not can_flip_i for every i, then restricted to R)
pub assume_specification[ FixedPoints::symbolic ](g: &SymbolicAsyncGraph, r: &GraphColoredVertices) -> (res: GraphColoredVertices)
    ensures forall|p: Pt| #[trigger] gv(&res).contains(p) <==> unit_of(g).contains(p) && gv(r).contains(p) && !has_succ(g, p);

// projections of a coloured vertex set and the mixed set operations (lib-param-bn: vertices() / colors() project the BDD onto the state /
// parameter variables; minus_vertices etc. combine with the cylinder of the projection)
pub uninterp spec fn gvv(v: &GraphVertices) -> ISet<Seq<bool>>;
pub uninterp spec fn gvc(c: &GraphColors) -> ISet<int>;
// (the projections are OPAQUE spec functions: a proof that needs their definition reveals it; otherwise the nested quantifiers would be
// available for instantiation in every function that merely mentions a projection)
#[verifier::opaque]
pub open spec fn proj_vertices(x: ISet<Pt>) -> ISet<Seq<bool>> { ISet::new(|s: Seq<bool>| exists|p: Pt| #[trigger] x.contains(p) && p.s == s) }
#[verifier::opaque]
pub open spec fn proj_colors(x: ISet<Pt>) -> ISet<int> { ISet::new(|c: int| exists|p: Pt| #[trigger] x.contains(p) && p.c == c) }
pub assume_specification[ GraphColoredVertices::vertices ](a: &GraphColoredVertices) -> (r: GraphVertices)
    ensures gvv(&r) == proj_vertices(gv(a));
pub assume_specification[ GraphColoredVertices::colors ](a: &GraphColoredVertices) -> (r: GraphColors)
    ensures gvc(&r) == proj_colors(gv(a));
pub assume_specification[ GraphColoredVertices::minus_vertices ](a: &GraphColoredVertices, v: &GraphVertices) -> (r: GraphColoredVertices)
    ensures forall|p: Pt| #[trigger] gv(&r).contains(p) <==> gv(a).contains(p) && !gvv(v).contains(p.s);
pub assume_specification[ GraphColoredVertices::intersect_vertices ](a: &GraphColoredVertices, v: &GraphVertices) -> (r: GraphColoredVertices)
    ensures forall|p: Pt| #[trigger] gv(&r).contains(p) <==> gv(a).contains(p) && gvv(v).contains(p.s);
pub assume_specification[ GraphColoredVertices::minus_colors ](a: &GraphColoredVertices, c: &GraphColors) -> (r: GraphColoredVertices)
    ensures forall|p: Pt| #[trigger] gv(&r).contains(p) <==> gv(a).contains(p) && !gvc(c).contains(p.c);
pub assume_specification[ GraphColoredVertices::intersect_colors ](a: &GraphColoredVertices, c: &GraphColors) -> (r: GraphColoredVertices)
    ensures forall|p: Pt| #[trigger] gv(&r).contains(p) <==> gv(a).contains(p) && gvc(c).contains(p.c);
// set algebra of the projections (biodivine_std::traits::Set for GraphVertices / GraphColors: the usual set operations)
pub assume_specification[ GraphVertices::union ](a: &GraphVertices, b: &GraphVertices) -> (r: GraphVertices) ensures gvv(&r) == gvv(a).union(gvv(b));
pub assume_specification[ GraphVertices::intersect ](a: &GraphVertices, b: &GraphVertices) -> (r: GraphVertices) ensures gvv(&r) == gvv(a).intersect(gvv(b));
pub assume_specification[ GraphVertices::minus ](a: &GraphVertices, b: &GraphVertices) -> (r: GraphVertices) ensures gvv(&r) == gvv(a).difference(gvv(b));
pub assume_specification[ GraphVertices::is_empty ](a: &GraphVertices) -> (r: bool) ensures r <==> forall|s: Seq<bool>| !gvv(a).contains(s);
pub assume_specification[ GraphVertices::is_subset ](a: &GraphVertices, b: &GraphVertices) -> (r: bool) ensures r <==> gvv(a).subset_of(gvv(b));
pub assume_specification[ GraphVertices::approx_cardinality ](a: &GraphVertices) -> (r: f64);
pub assume_specification[ <GraphVertices as Clone>::clone ](a: &GraphVertices) -> (r: GraphVertices) ensures gvv(&r) == gvv(a);
pub assume_specification[ GraphColors::union ](a: &GraphColors, b: &GraphColors) -> (r: GraphColors) ensures gvc(&r) == gvc(a).union(gvc(b));
pub assume_specification[ GraphColors::intersect ](a: &GraphColors, b: &GraphColors) -> (r: GraphColors) ensures gvc(&r) == gvc(a).intersect(gvc(b));
pub assume_specification[ GraphColors::minus ](a: &GraphColors, b: &GraphColors) -> (r: GraphColors) ensures gvc(&r) == gvc(a).difference(gvc(b));
pub assume_specification[ GraphColors::is_empty ](a: &GraphColors) -> (r: bool) ensures r <==> forall|c: int| !gvc(a).contains(c);
pub assume_specification[ GraphColors::is_subset ](a: &GraphColors, b: &GraphColors) -> (r: bool) ensures r <==> gvc(a).subset_of(gvc(b));
pub assume_specification[ GraphColors::approx_cardinality ](a: &GraphColors) -> (r: f64);
pub assume_specification[ <GraphColors as Clone>::clone ](a: &GraphColors) -> (r: GraphColors) ensures gvc(&r) == gvc(a);
pub assume_specification[ SymbolicContext::mk_constant ](c: &SymbolicContext, v: bool) -> (r: Bdd)
    ensures forall|p: Pt| #[trigger] bv(&r).contains(p) <==> v && shaped(p);
// API without a contract: calls are accepted, nothing is known about the result
pub assume_specification[ SymbolicAsyncGraph::post ](g: &SymbolicAsyncGraph, s: &GraphColoredVertices) -> (r: GraphColoredVertices);
pub assume_specification[ SymbolicAsyncGraph::var_post ](g: &SymbolicAsyncGraph, v: VariableId, s: &GraphColoredVertices) -> (r: GraphColoredVertices);
pub assume_specification[ SymbolicAsyncGraph::can_post ](g: &SymbolicAsyncGraph, s: &GraphColoredVertices) -> (r: GraphColoredVertices);
pub assume_specification[ SymbolicAsyncGraph::can_pre ](g: &SymbolicAsyncGraph, s: &GraphColoredVertices) -> (r: GraphColoredVertices);
pub assume_specification[ SymbolicAsyncGraph::reach_backward ](g: &SymbolicAsyncGraph, s: &GraphColoredVertices) -> (r: GraphColoredVertices);
pub assume_specification[ SymbolicAsyncGraph::reach_forward ](g: &SymbolicAsyncGraph, s: &GraphColoredVertices) -> (r: GraphColoredVertices);
pub assume_specification[ SymbolicAsyncGraph::trap_forward ](g: &SymbolicAsyncGraph, s: &GraphColoredVertices) -> (r: GraphColoredVertices);
pub assume_specification[ SymbolicAsyncGraph::trap_backward ](g: &SymbolicAsyncGraph, s: &GraphColoredVertices) -> (r: GraphColoredVertices);
pub assume_specification[ SymbolicAsyncGraph::mk_unit_colors ](g: &SymbolicAsyncGraph) -> (r: GraphColors);
pub assume_specification[ SymbolicAsyncGraph::restrict ](g: &SymbolicAsyncGraph, s: &GraphColoredVertices) -> (r: SymbolicAsyncGraph);
pub assume_specification[ GraphColoredVertices::approx_cardinality ](a: &GraphColoredVertices) -> (r: f64);
pub assume_specification[ GraphColoredVertices::exact_cardinality ](a: &GraphColoredVertices) -> (r: u64);
pub assume_specification[ GraphColoredVertices::symbolic_size ](a: &GraphColoredVertices) -> (r: usize);
pub assume_specification[ GraphColoredVertices::is_subset ](a: &GraphColoredVertices, b: &GraphColoredVertices) -> (r: bool)
    ensures r <==> gv(a).subset_of(gv(b));

// ---------------- canonical (extra-variable-free) encoding: sanitising (C15) ----------------
// A BDD / set over the canonical context is modelled by its cylinder: bv / gv of such an object is the set of ALL
// well-shaped points whose (state, colour) part it contains; `canonical_bdd / canonical_set` record that the object itself
// mentions no auxiliary variable.  transfer_from(target, bdd, source) (lib-param-bn: renames variables by name, fails if the
// support of the BDD contains a variable the target does not have) succeeds exactly when the BDD does not depend on the
// auxiliary variables, and then denotes the same cylinder.
pub uninterp spec fn canonical_ctx(c: &SymbolicContext) -> bool;
pub uninterp spec fn canonical_bdd(b: &Bdd) -> bool;
pub uninterp spec fn canonical_set(s: &GraphColoredVertices) -> bool;
pub open spec fn ext_indep(d: ISet<Pt>) -> bool {
    forall|p: Pt, q: Pt| #![trigger d.contains(p), d.contains(q)] d.contains(p) && shaped(q) && q.s == p.s && q.c == p.c ==> d.contains(q)
}
pub assume_specification[ SymbolicContext::as_canonical_context ](c: &SymbolicContext) -> (r: SymbolicContext)
    ensures canonical_ctx(&r);
pub assume_specification[ SymbolicContext::transfer_from ](target: &SymbolicContext, bdd: &Bdd, source: &SymbolicContext) -> (r: Option<Bdd>)
    requires canonical_ctx(target)
    ensures
        r is Some <==> ext_indep(bv(bdd)),
        r matches Some(b) ==> bv(&b) == bv(bdd) && canonical_bdd(&b);
// BDDs of the projections (lib-param-bn: GraphColors / GraphVertices wrap a BDD over the parameter / state variables only): as a set of
// points such a BDD is the CYLINDER over all other variables; `new` is the inverse of `as_bdd` (every colour / state has shaped points,
// so the cylinder determines the projection).
pub open spec fn cyl_colors(c: ISet<int>) -> ISet<Pt> { ISet::new(|p: Pt| shaped(p) && c.contains(p.c)) }
pub open spec fn cyl_vertices(v: ISet<Seq<bool>>) -> ISet<Pt> { ISet::new(|p: Pt| shaped(p) && v.contains(p.s)) }
pub uninterp spec fn canonical_colors(c: &GraphColors) -> bool;
pub uninterp spec fn canonical_vertices(v: &GraphVertices) -> bool;
pub assume_specification[ GraphColors::as_bdd ](a: &GraphColors) -> (r: &Bdd)
    ensures bv(r) == cyl_colors(gvc(a));
pub assume_specification[ GraphVertices::as_bdd ](a: &GraphVertices) -> (r: &Bdd)
    ensures bv(r) == cyl_vertices(gvv(a));
pub assume_specification[ GraphColors::new ](bdd: Bdd, ctx: &SymbolicContext) -> (r: GraphColors)
    ensures
        forall|cs: ISet<int>| bv(&bdd) == #[trigger] cyl_colors(cs) ==> gvc(&r) == cs,
        canonical_ctx(ctx) && canonical_bdd(&bdd) ==> canonical_colors(&r);
pub assume_specification[ GraphVertices::new ](bdd: Bdd, ctx: &SymbolicContext) -> (r: GraphVertices)
    ensures
        forall|vs: ISet<Seq<bool>>| bv(&bdd) == #[trigger] cyl_vertices(vs) ==> gvv(&r) == vs,
        canonical_ctx(ctx) && canonical_bdd(&bdd) ==> canonical_vertices(&r);
// ---- further API surface with an EMPTY contract (a changed function may start to call it: its own obligations then decide)
pub assume_specification[ Bdd::not ](b: &Bdd) -> (r: Bdd);
pub assume_specification[ Bdd::or ](b: &Bdd, o: &Bdd) -> (r: Bdd);
pub assume_specification[ Bdd::and_not ](b: &Bdd, o: &Bdd) -> (r: Bdd);
pub assume_specification[ Bdd::imp ](b: &Bdd, o: &Bdd) -> (r: Bdd);
pub assume_specification[ Bdd::xor ](b: &Bdd, o: &Bdd) -> (r: Bdd);
pub assume_specification[ Bdd::is_true ](b: &Bdd) -> (r: bool);
pub assume_specification[ Bdd::is_false ](b: &Bdd) -> (r: bool);
pub assume_specification[ Bdd::size ](b: &Bdd) -> (r: usize);
pub assume_specification[ Bdd::for_all ](b: &Bdd, vars: &[BddVariable]) -> (r: Bdd);
pub assume_specification[ Bdd::var_exists ](b: &Bdd, v: BddVariable) -> (r: Bdd);
pub assume_specification[ Bdd::var_for_all ](b: &Bdd, v: BddVariable) -> (r: Bdd);
pub assume_specification[ Bdd::var_select ](b: &Bdd, v: BddVariable, x: bool) -> (r: Bdd);
pub assume_specification[ Bdd::var_restrict ](b: &Bdd, v: BddVariable, x: bool) -> (r: Bdd);
pub assume_specification[ BddVariableSet::num_vars ](s: &BddVariableSet) -> (r: u16);
pub assume_specification[ BddVariableSet::var_by_name ](s: &BddVariableSet, name: &str) -> (r: Option<BddVariable>);
pub assume_specification[ BddVariableSet::name_of ](s: &BddVariableSet, v: BddVariable) -> (r: String);
pub assume_specification[ BddVariableSet::mk_true ](s: &BddVariableSet) -> (r: Bdd);
pub assume_specification[ BddVariableSet::mk_false ](s: &BddVariableSet) -> (r: Bdd);
pub assume_specification[ BddVariableSet::mk_var ](s: &BddVariableSet, v: BddVariable) -> (r: Bdd);
pub assume_specification[ BddVariableSet::mk_not_var ](s: &BddVariableSet, v: BddVariable) -> (r: Bdd);
pub assume_specification[ BddVariableSet::mk_literal ](s: &BddVariableSet, v: BddVariable, x: bool) -> (r: Bdd);
pub assume_specification[ BddVariableSet::mk_not_var_by_name ](s: &BddVariableSet, name: &str) -> (r: Bdd);
pub assume_specification[ SymbolicContext::network_variables ](c: &SymbolicContext) -> (r: VariableIdIterator);
pub assume_specification[ SymbolicContext::get_network_variable_name ](c: &SymbolicContext, v: VariableId) -> (r: String);
pub assume_specification[ SymbolicContext::num_state_variables ](c: &SymbolicContext) -> (r: usize);
pub assume_specification[ SymbolicContext::num_parameter_variables ](c: &SymbolicContext) -> (r: usize);
pub assume_specification[ SymbolicContext::num_extra_state_variables ](c: &SymbolicContext) -> (r: usize);
pub assume_specification[ SymbolicContext::parameter_variables ](c: &SymbolicContext) -> (r: &Vec<BddVariable>);
pub assume_specification[ SymbolicContext::all_extra_state_variables ](c: &SymbolicContext) -> (r: &Vec<BddVariable>);
pub assume_specification[ SymbolicContext::get_state_variable ](c: &SymbolicContext, v: VariableId) -> (r: BddVariable);
pub assume_specification[ SymbolicContext::get_extra_state_variable ](c: &SymbolicContext, v: VariableId, o: usize) -> (r: BddVariable);
pub assume_specification[ SymbolicContext::find_state_variable ](c: &SymbolicContext, v: BddVariable) -> (r: Option<VariableId>);
pub assume_specification[ SymbolicContext::mk_extra_state_variable_is_true ](c: &SymbolicContext, v: VariableId, o: usize) -> (r: Bdd);
pub assume_specification[ SymbolicAsyncGraph::empty_colors ](g: &SymbolicAsyncGraph) -> (r: &GraphColors);
pub assume_specification[ SymbolicAsyncGraph::mk_empty_colors ](g: &SymbolicAsyncGraph) -> (r: GraphColors);
pub assume_specification[ SymbolicAsyncGraph::unit_colors ](g: &SymbolicAsyncGraph) -> (r: &GraphColors);
pub assume_specification[ SymbolicAsyncGraph::empty_colored_vertices ](g: &SymbolicAsyncGraph) -> (r: &GraphColoredVertices);
pub assume_specification[ SymbolicAsyncGraph::empty_vertices ](g: &SymbolicAsyncGraph) -> (r: &GraphVertices);
pub assume_specification[ SymbolicAsyncGraph::mk_empty_vertices ](g: &SymbolicAsyncGraph) -> (r: GraphVertices);
pub assume_specification[ SymbolicAsyncGraph::unit_vertices ](g: &SymbolicAsyncGraph) -> (r: &GraphVertices);
pub assume_specification[ SymbolicAsyncGraph::mk_unit_vertices ](g: &SymbolicAsyncGraph) -> (r: GraphVertices);
pub assume_specification[ SymbolicAsyncGraph::num_vars ](g: &SymbolicAsyncGraph) -> (r: usize);
pub assume_specification[ SymbolicAsyncGraph::fix_network_variable ](g: &SymbolicAsyncGraph, v: VariableId, x: bool) -> (r: GraphColoredVertices);
pub assume_specification[ SymbolicAsyncGraph::is_trap_set ](g: &SymbolicAsyncGraph, s: &GraphColoredVertices) -> (r: bool);
pub assume_specification[ SymbolicAsyncGraph::restrict_variable_in_graph ](g: &SymbolicAsyncGraph, v: VariableId, x: bool) -> (r: SymbolicAsyncGraph);
pub assume_specification[ GraphColoredVertices::pick_vertex ](a: &GraphColoredVertices) -> (r: GraphColoredVertices);
pub assume_specification[ GraphColoredVertices::pick_color ](a: &GraphColoredVertices) -> (r: GraphColoredVertices);
pub assume_specification[ GraphColoredVertices::pick_singleton ](a: &GraphColoredVertices) -> (r: GraphColoredVertices);
pub assume_specification[ GraphColoredVertices::is_singleton ](a: &GraphColoredVertices) -> (r: bool);
pub assume_specification[ GraphColoredVertices::copy ](a: &GraphColoredVertices, bdd: Bdd) -> (r: GraphColoredVertices);
#[verifier::external_type_specification] #[verifier::external_body] pub struct ExParameterId(ParameterId);
#[verifier::external_type_specification] #[verifier::external_body] pub struct ExParameterIdIterator(ParameterIdIterator);
pub assume_specification[ SymbolicContext::network_parameters ](c: &SymbolicContext) -> (r: ParameterIdIterator);
pub assume_specification[ SymbolicContext::network_implicit_parameters ](c: &SymbolicContext) -> (r: Vec<VariableId>);
pub assume_specification[ ParameterIdIterator::next ](it: &mut ParameterIdIterator) -> (r: Option<ParameterId>);
// ---- commutativity of the set operations (extensional facts the solver does not find by itself when a commuted operand pair sits INSIDE an
//      argument of another specification function): used by `broadcast use` in the units whose contracts mention such terms
pub mod iset_laws {
use super::*;
pub broadcast proof fn lemma_iset_intersect_comm(a: ISet<Pt>, b: ISet<Pt>)
    ensures #[trigger] a.intersect(b) == b.intersect(a)
{
    assert(a.intersect(b) =~= b.intersect(a));
}
pub broadcast proof fn lemma_iset_union_comm(a: ISet<Pt>, b: ISet<Pt>)
    ensures #[trigger] a.union(b) == b.union(a)
{
    assert(a.union(b) =~= b.union(a));
}
} // mod iset_laws
