// std string functions without a vstd specification: accepted, nothing is known about the result
pub assume_specification[ str::eq_ignore_ascii_case ](a: &str, b: &str) -> (r: bool);
