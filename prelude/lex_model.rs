// ======================================================================================
// TRUSTED: Peekable<Chars> as a ghost sequence of remaining characters, char classification,
// and the string-building helpers introduced by R-strcat / R-collect / R-peekable.
// ======================================================================================
#[verifier::external_type_specification]
#[verifier::external_body]
#[verifier::reject_recursive_types(I)]
pub struct ExPeekable<I: Iterator>(Peekable<I>);
pub uninterp spec fn rest<I: Iterator>(p: &Peekable<I>) -> Seq<I::Item>;      // the items still to be yielded
pub assume_specification<I: Iterator>[ <Peekable<I> as Iterator>::next ](p: &mut Peekable<I>) -> (r: Option<I::Item>)
    ensures
        rest(old(p)).len() == 0 ==> r is None && rest(final(p)) == rest(old(p)),
        rest(old(p)).len() > 0 ==> r == Some(rest(old(p))[0]) && rest(final(p)) == rest(old(p)).drop_first();
pub assume_specification<I: Iterator>[ Peekable::<I>::peek ](p: &mut Peekable<I>) -> (r: Option<&I::Item>)
    ensures
        rest(final(p)) == rest(old(p)),
        rest(old(p)).len() == 0 ==> r is None,
        rest(old(p)).len() > 0 ==> r == Some(&rest(old(p))[0]);
pub assume_specification[ char::is_alphanumeric ](c: char) -> (r: bool) ensures r == alnum(c);
#[verifier::external_body]
fn chars_peekable(s: &String) -> (r: Peekable<Chars<'_>>)
    ensures rest(&r) == s@
{ unimplemented!() }
#[verifier::external_body]
fn strcat3(c: char, c2: char, name: &String) -> (r: String)
    ensures r@ == seq![c, c2] + name@
{ unimplemented!() }
#[verifier::external_body]
fn strcat2(c: char, name: &String) -> (r: String)
    ensures r@ == seq![c] + name@
{ unimplemented!() }
#[verifier::external_body]
fn chars_to_string(v: Vec<char>) -> (r: String)
    ensures r@ == v@
{ unimplemented!() }
