// TRUSTED stand-ins (never executed) for the extra API surface used by the command-line analysis (src/analysis.rs)
impl BooleanNetwork { pub fn to_string(&self) -> String { unimplemented!() } }
impl SymbolicContext { pub fn new(_bn: &BooleanNetwork) -> Result<SymbolicContext, String> { unimplemented!() } }
// stand-in for std::fs::read_to_string (the repo calls it unqualified): reads the whole file as text
pub fn read_to_string(_path: &str) -> Result<String, std::io::Error> { unimplemented!() }
