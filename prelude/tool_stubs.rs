// TRUSTED stand-ins (never executed) for the extra API surface used by the command-line analysis (src/analysis.rs)
impl BooleanNetwork { pub fn to_string(&self) -> String { unimplemented!() } }
impl SymbolicContext { pub fn new(_bn: &BooleanNetwork) -> Result<SymbolicContext, String> { unimplemented!() } }
