// TRUSTED stand-ins (never executed) for the extra API surface used by the command-line analysis (src/analysis.rs)
impl BooleanNetwork { pub fn to_string(&self) -> String { unimplemented!() } }
impl SymbolicContext { pub fn new(_bn: &BooleanNetwork) -> Result<SymbolicContext, String> { unimplemented!() } }
// stand-in for std::fs::read_to_string (the repo calls it unqualified): reads the whole file as text
pub fn read_to_string(_path: &str) -> Result<String, std::io::Error> { unimplemented!() }
// the two library calls of get_extended_symbolic_graph (src/mc_utils.rs)
impl BooleanNetwork { pub fn variables(&self) -> VariableIdIterator { unimplemented!() } }
impl SymbolicContext { pub fn with_extra_state_variables(_bn: &BooleanNetwork, _m: &HashMap<VariableId, u16>) -> Result<SymbolicContext, String> { unimplemented!() } }
