// ======================================================================================
// TRUSTED: facts about std collections / strings that vstd 0.2026.09 does not provide.
// ======================================================================================
// String keys obey the hash-map key model (Eq / Hash of String are the ones of its characters)
pub broadcast axiom fn axiom_string_key_model()
    ensures #[trigger] obeys_key_model::<String>();
pub broadcast axiom fn axiom_formula_key_model()
    ensures #[trigger] obeys_key_model::<(String, BTreeMap<String, Option<String>>)>();
// a String is determined by its characters
pub broadcast axiom fn axiom_string_ext(a: String, b: String)
    requires #[trigger] a@ == #[trigger] b@
    ensures a == b;
// a `&str` key denotes the String with the same characters
pub broadcast axiom fn axiom_str_borrow_contains<V>(m: Map<String, V>, k: &str)
    ensures #[trigger] contains_borrowed_key(m, k) <==> exists|s: String| #[trigger] m.contains_key(s) && s@ == k@;
pub broadcast axiom fn axiom_str_borrow_maps<V>(m: Map<String, V>, k: &str, v: V)
    ensures #[trigger] maps_borrowed_key_to_value(m, k, v) <==> exists|s: String| #[trigger] m.contains_key(s) && s@ == k@ && m[s] == v;

pub assume_specification<'a, K, V, S, A, Q> [std::collections::HashMap::<K, V, S, A>::get_mut] (m: &'a mut std::collections::HashMap<K, V, S, A>, k: &Q) -> (r: std::option::Option<&'a mut V>)
   where
           A: std::alloc::Allocator,
           K: std::cmp::Eq + std::hash::Hash + std::borrow::Borrow<Q>,
           Q: std::marker::MetaSized + std::hash::Hash + std::cmp::Eq + ?Sized,
           S: std::hash::BuildHasher,
   ensures
      obeys_key_model::<K>() && builds_valid_hashers::<S>() ==> (
        match r {
            Some(v) => contains_borrowed_key(old(m)@, k) && maps_borrowed_key_to_value(old(m)@, k, *v)
                && final(m)@.dom() == old(m)@.dom()
                && maps_borrowed_key_to_value(final(m)@, k, *final(v))
                && (forall|kk: K| #[trigger] old(m)@.contains_key(kk) && !contains_borrowed_key(Map::<K, V>::empty().insert(kk, old(m)@[kk]), k) ==> final(m)@[kk] == old(m)@[kk]),
            None => !contains_borrowed_key(old(m)@, k) && final(m)@ == old(m)@,
        });
// a BTreeMap is determined by its contents
pub broadcast axiom fn axiom_btreemap_ext(a: BTreeMap<String, Option<String>>, b: BTreeMap<String, Option<String>>)
    requires #[trigger] a@ == #[trigger] b@
    ensures a == b;
// String keys of a BTreeMap: Ord on String is a total order consistent with Eq
pub broadcast axiom fn axiom_string_cmp()
    ensures #[trigger] key_obeys_cmp_spec::<String>();
// HashSet::extend / clone (vstd has no specification): union with the items of the argument; structural copy
pub uninterp spec fn into_set<I: IntoIterator>(it: I) -> Set<I::Item>;
pub broadcast axiom fn axiom_into_set_hashset(h: HashSet<String>)
    ensures #[trigger] into_set(h) == h@;
pub assume_specification<T, S, A, I>[ <HashSet<T, S, A> as Extend<T>>::extend::<I> ](s: &mut HashSet<T, S, A>, it: I)
    where T: Eq + std::hash::Hash, S: std::hash::BuildHasher, A: std::alloc::Allocator, I: IntoIterator<Item = T>
    ensures final(s)@ == old(s)@.union(into_set(it));
pub assume_specification<T, S, A>[ <HashSet<T, S, A> as Clone>::clone ](s: &HashSet<T, S, A>) -> (r: HashSet<T, S, A>)
    where T: Clone, S: Clone, A: std::alloc::Allocator + Clone
    ensures r@ == s@;
// BinaryHeap (vstd has no specification): modelled by the sequence of its elements in an unspecified order; pop removes SOME
// element (the order of removal -- greatest first -- is not modelled: no contract depends on it)
#[verifier::external_type_specification] #[verifier::external_body] #[verifier::reject_recursive_types(T)] #[verifier::reject_recursive_types(A)]
pub struct ExBinaryHeap<T, A: std::alloc::Allocator>(std::collections::BinaryHeap<T, A>);
pub uninterp spec fn hview<T, A: std::alloc::Allocator>(h: &std::collections::BinaryHeap<T, A>) -> Seq<T>;
pub assume_specification<T>[ std::collections::BinaryHeap::<T>::new ]() -> (r: std::collections::BinaryHeap<T>)
    ensures hview(&r) == Seq::<T>::empty();
pub assume_specification<T: Ord, A: std::alloc::Allocator>[ std::collections::BinaryHeap::<T, A>::push ](h: &mut std::collections::BinaryHeap<T, A>, x: T)
    ensures hview(final(h)) == hview(old(h)).push(x);
pub assume_specification<T: Ord, A: std::alloc::Allocator>[ std::collections::BinaryHeap::<T, A>::pop ](h: &mut std::collections::BinaryHeap<T, A>) -> (r: Option<T>)
    ensures match r {
        None => hview(old(h)).len() == 0 && hview(final(h)) == hview(old(h)),
        Some(x) => exists|i: int| 0 <= i < hview(old(h)).len() && hview(old(h))[i] == x && hview(final(h)) == hview(old(h)).remove(i),
    };
// HashMap::extend with another HashMap taken by value (vstd has no specification): the entries of the argument are inserted,
// overriding entries with the same key
pub uninterp spec fn into_map<K, V, I>(it: I) -> Map<K, V>;
pub broadcast axiom fn axiom_into_map_hashmap<K, V>(h: HashMap<K, V>)
    ensures #[trigger] into_map::<K, V, HashMap<K, V>>(h) == h@;
pub assume_specification<K, V, S, A, I>[ <HashMap<K, V, S, A> as Extend<(K, V)>>::extend::<I> ](m: &mut HashMap<K, V, S, A>, it: I)
    where K: Eq + std::hash::Hash, S: std::hash::BuildHasher, A: std::alloc::Allocator, I: IntoIterator<Item = (K, V)>
    ensures final(m)@ == old(m)@.union_prefer_right(into_map::<K, V, I>(it));
