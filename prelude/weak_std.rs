// ======================================================================================
// TRUE BUT WEAK contracts of std functions that the verified code does not use today but that a CHANGED function may start to use.
// Without them such a change is a Verus front-end error (verdict UNDECIDED); with them the changed function stays within reach and
// its own obligations decide.  Each contract states only what the std documentation guarantees (or nothing at all: "returns some
// boolean"), never more, so nothing false can be derived from them.
// ======================================================================================
// ---- slice functions that a changed caller may start to use (true but weak contracts, so that such a change is DECIDED by the
//      caller's obligations instead of being a front-end error): sort_by_key permutes, contains returns some boolean
pub assume_specification<T, K: Ord, F: FnMut(&T) -> K>[ <[T]>::sort_by_key ](s: &mut [T], f: F)
    ensures final(s)@.to_multiset() == old(s)@.to_multiset();
pub assume_specification<T: PartialEq>[ <[T]>::contains ](s: &[T], x: &T) -> (r: bool);
pub assume_specification<T: Ord>[ <[T]>::sort ](s: &mut [T])
    ensures final(s)@.to_multiset() == old(s)@.to_multiset();
pub assume_specification<T>[ <[T]>::reverse ](s: &mut [T])
    ensures final(s)@ == old(s)@.reverse();
// str functions with a generic Pattern: some boolean (R-startswith gives the precise meaning for a char pattern where a proof needs it)
pub assume_specification<P: std::str::pattern::Pattern>[ str::contains ](s: &str, p: P) -> (r: bool);
pub assume_specification<P: std::str::pattern::Pattern>[ str::starts_with ](s: &str, p: P) -> (r: bool);
// Iterator::any / all over a slice iterator (with a closure or a function): some boolean
pub assume_specification<'a, T, F: FnMut(&'a T) -> bool>[ <std::slice::Iter<'a, T> as Iterator>::any ](it: &mut std::slice::Iter<'a, T>, f: F) -> (r: bool) where std::slice::Iter<'a, T>: Sized;
pub assume_specification<'a, T, F: FnMut(&'a T) -> bool>[ <std::slice::Iter<'a, T> as Iterator>::all ](it: &mut std::slice::Iter<'a, T>, f: F) -> (r: bool) where std::slice::Iter<'a, T>: Sized;
// Vec::dedup removes consecutive repeated elements: the result is not longer and consists of elements of the original
pub assume_specification<T: PartialEq, A: std::alloc::Allocator>[ Vec::<T, A>::dedup ](v: &mut Vec<T, A>)
    ensures final(v)@.len() <= old(v)@.len(), forall|i: int| 0 <= i < final(v)@.len() ==> old(v)@.contains(#[trigger] final(v)@[i]);
